"""Shared driver pieces for C05/C06: build thread_probe, run it natively / under sysmon, analyse logs."""
import os
import tempfile

import syslog
import vlib

CRATE = "probes/thread_probe"
STACK_SZ = 8192 * 16 * 16
CLONE_THREAD = 0x10000


def build(mode, release):
    d = vlib.build_nolibc(CRATE, "thread_probe" + ("-rel" if release else ""), mode, release)
    return os.path.join(d, "thread_probe")


def flavours(quick):
    if quick:
        return [("staticpie", False), ("static", True), ("dynpie", False)]
    return [(m, r) for m in ("staticpie", "static", "dynpie") for r in (False, True)]


def filter_lines(text, pid):
    """keep '@@' lines, but only the @@VIOL lines that belong to property `pid`"""
    out = []
    for l in text.splitlines():
        if l.startswith("@@VIOL ") and not l.startswith("@@VIOL %s/" % pid):
            continue
        out.append(l)
    return "\n".join(out)


def native_job(exe, scen, seed, n, quar=1, timeout=150):
    return dict(argv=[exe, scen, str(seed), str(n), str(quar)], timeout=timeout)


def sysmon_job(exe, scen, seed, n, log, quar=1, timeout_s=60, entries=False, extra=()):
    cmd = syslog.sysmon_cmd(log, [exe, scen, str(seed), str(n), str(quar)] + [str(x) for x in extra], timeout_s=timeout_s,
                            idle_ms=300, entries=entries)
    return dict(argv=cmd, timeout=timeout_s + 30)


# calls that are part of every window but are not spawn's own work / must not be refused
_NOT_SPAWN_CALLS = {syslog.NR["futex"], syslog.NR["munmap"], 0x5EC0}


def spawn_call_sequence(evs):
    """From a `fault_discover` log: the system calls the spawning thread makes between the BEGIN(3) marker and
    the "spawn returned" report (79), as an ordered list of (nr, occurrence) pairs; None if the three
    un-injected spawns of the run do not agree (then the enumeration would not be meaningful)."""
    seqs, cur = [], None
    for e in evs:
        if e.k == "M" and e.kind == syslog.MARK["BEGIN"] and e.a[0] == 3:
            cur = (e.tid, [])
        elif e.k == "M" and e.kind == syslog.MARK["REPORT"] and e.a[0] == 79 and cur is not None:
            seqs.append(cur[1])
            cur = None
        elif e.k == "S" and cur is not None and e.tid == cur[0] and e.nr not in _NOT_SPAWN_CALLS:
            cur[1].append(e.nr)
    if not seqs or any(q != seqs[-1] for q in seqs[1:]):
        return None
    out, seen = [], {}
    for nr in seqs[-1]:
        out.append((nr, seen.get(nr, 0)))
        seen[nr] = seen.get(nr, 0) + 1
    return out


def discover_spawn_calls(exes, seed, tag):
    """Run `fault_discover` under sysmon for every flavour; returns {(mode, release): [(nr, occurrence), ...] or None}."""
    jobs, logs = [], []
    for m, r, exe in exes:
        log = tmp_log(tag + "-discover")
        logs.append(log)
        jobs.append(sysmon_job(exe, "fault_discover", seed, 3, log, timeout_s=20))
    out = {}
    for (m, r, exe), log, rr in zip(exes, logs, vlib.run_parallel(jobs)):
        try:
            evs = syslog.parse(log)
            os.unlink(log)
        except OSError:
            evs = []
        out[(m, r)] = spawn_call_sequence(evs) if rr["rc"] == 0 else None
    return out


# calls of the finishing thread that cannot be refused by a kernel (exit never returns; a wake-up has no failure
# a caller could act on) and the monitor's own marker call
_NOT_EXIT_CALLS = {syslog.NR["futex"], 60, 231, 186, 0x5EC0}   # 186: the probe's own gettid (cannot fail)


def exit_call_sequence(evs):
    """From an `exit_fault_discover` log: the system calls each spawned thread makes after its closure's last act
    (REPORT 80) until it exits, as (nr, occurrence) pairs; None if the un-injected threads do not agree."""
    seqs, cur = [], {}
    for e in evs:
        if e.k == "M" and e.kind == syslog.MARK["REPORT"] and e.a[0] == 80:
            cur[e.tid] = []
            seqs.append(cur[e.tid])
        elif e.k == "S" and e.tid in cur and e.nr not in _NOT_EXIT_CALLS:
            cur[e.tid].append(e.nr)
    if not seqs or any(q != seqs[0] for q in seqs[1:]):
        return None
    out, seen = [], {}
    for nr in seqs[0]:
        out.append((nr, seen.get(nr, 0)))
        seen[nr] = seen.get(nr, 0) + 1
    return out


def discover_exit_calls(exes, seed, tag):
    """Run `exit_fault_discover` under sysmon for every flavour; {(mode, release): [(nr, occurrence), ...] or None}."""
    jobs, logs = [], []
    for m, r, exe in exes:
        log = tmp_log(tag + "-exitdiscover")
        logs.append(log)
        jobs.append(sysmon_job(exe, "exit_fault_discover", seed, 3, log, timeout_s=20))
    out = {}
    for (m, r, exe), log, rr in zip(exes, logs, vlib.run_parallel(jobs)):
        try:
            evs = syslog.parse(log)
            os.unlink(log)
        except OSError:
            evs = []
        out[(m, r)] = exit_call_sequence(evs) if rr["rc"] == 0 else None
    return out


def hang_certificate(evs):
    """After REPORT(78) (about to join the handle of a thread that was never created): the watchdog fired,
    the only remaining thread sits in futex(FUTEX_WAIT, val=1). Returns witness text or None."""
    seen78 = None
    for e in evs:
        if e.k == "M" and e.kind == syslog.MARK["REPORT"] and e.a[0] == 78:
            seen78 = e
    if seen78 is None:
        return None
    after = [e for e in evs if e.seq > seen78.seq]
    if not any(e.k == "W" and "watchdog" in e.text for e in after):
        return None
    alive = set()
    for e in evs:
        if e.k in ("N", "F"):
            alive.add(e.new if e.k == "F" else e.tid)
        if e.k == "X":
            alive.discard(e.tid)
    alive.add(seen78.tid)
    for e in evs:
        if e.k == "X":
            alive.discard(e.tid)
    ts = [e for e in after if e.k == "T"]
    if not ts:
        return None
    last = {}
    for e in ts:
        last[e.tid] = e
    parked = [e for e in last.values() if e.text.startswith("202 ") and e.text.split()[3] == "0x1"]
    if len(last) == 1 and len(parked) == 1:
        return "only thread %d left, parked in futex wait: %s" % (parked[0].tid, parked[0].text)
    # several threads left, every one of them parked in a futex wait without a timeout (FUTEX_WAIT / WAIT_BITSET,
    # timeout pointer null): nobody is left who could wake anybody
    def untimed_wait(e):
        f = e.text.split()
        try:
            return f[0] == "202" and (int(f[2], 16) & 0x7f) in (0, 9) and int(f[4], 16) == 0
        except (IndexError, ValueError):
            return False
    if len(last) > 1 and all(untimed_wait(e) for e in last.values()) and seen78.tid in last:
        return "all %d remaining threads parked in futex waits without timeout: %s" % (
            len(last), "; ".join("%d: %s" % (e.tid, e.text) for e in last.values()))
    return None


def thread_lifecycle(evs):
    """Per spawned thread: stack mapping, who unmapped it, what the thread did afterwards.
    Event order in the log: the parent's clone *exit* line can come after the child has already run and
    exited, and stack addresses and thread ids are reused at once. So: the stack of a thread is the
    STACK_SZ mapping its parent made last before the clone *event* (F line), records are incarnations,
    and a successful munmap ends the ownership of an address range.
    Returns (records keyed by (tid, incarnation), problems); problems are (signature, detail)."""
    problems = []
    maps = {}           # tgid -> {start: (len, seq, tid)}
    pending_stack = {}  # parent tid -> start of its last stack-sized mapping
    stack_owner = {}    # (tgid, start) -> record owning that live stack
    clone_sp = {}       # parent tid -> stack pointer argument of its clone call in flight (from 's' lines)
    cur = {}            # tid -> current record
    recs = {}
    inc = {}

    def new_rec(tid, tgid):
        n = inc.get(tid, 0) + 1
        inc[tid] = n
        r = dict(tid=tid, tgid=tgid, inc=n, unmaps=[], after_unmap=[], exited=False, points=[],
                 tid_addr_cleared=False, stack=None, stack_len=None, spawned=False)
        cur[tid] = r
        recs[(tid, n)] = r
        return r

    for e in evs:
        if e.k == "N":
            # the tracer met this task before its parent's clone event (the order of the two stops is not
            # defined): what it does from here on belongs to a NEW incarnation of the tid, which the F line
            # adopts. Without this, the first calls of a thread that got a reused tid (pid_max is 32768 here)
            # were charged to the dead previous holder of that tid.
            r = new_rec(e.tid, e.tgid)
            r["provisional"] = True
        elif e.k == "F" and e.what == "clone":
            r = cur.get(e.new)
            if r is not None and r.get("provisional") and not r["spawned"]:
                r["provisional"] = False
            else:
                r = new_rec(e.new, e.tgid)
            r["spawned"] = True
            r["clone_seq"] = e.seq
            st = pending_stack.pop(e.tid, None)
            # with syscall-entry lines in the log the stack is whatever mapping holds the stack pointer handed
            # to clone (independent of the mapping's size, guard pages, or what else the parent mapped since)
            sp = clone_sp.pop(e.tid, None)
            if sp is not None:
                for a, (ln, _sq, _t) in maps.get(e.tgid, {}).items():
                    if a < sp <= a + ln:
                        st = a
                        break
            if st is not None and st in maps.get(e.tgid, {}):
                r["stack"] = st
                r["stack_len"] = maps[e.tgid][st][0]
                r["map_seq"] = maps[e.tgid][st][1]
                stack_owner[(e.tgid, st)] = r
        elif e.k == "s":
            if e.nr == syslog.NR["clone"] and (e.args[0] & CLONE_THREAD):
                clone_sp[e.tid] = e.args[1]
        elif e.k == "S":
            m = maps.setdefault(e.tgid, {})
            r = cur.get(e.tid)
            own_done = r is not None and r["spawned"] and any(u[3] == 0 for u in r["unmaps"])
            if e.nr == syslog.NR["mmap"]:
                if e.ret > 0 and not e.inj:
                    m[e.ret] = (e.args[1], e.seq, e.tid)
                    if e.args[1] == STACK_SZ:
                        pending_stack[e.tid] = e.ret
                if own_done:
                    r["after_unmap"].append(("mmap", e.seq))
            elif e.nr == syslog.NR["clone"] and not e.inj and e.ret > 0 and (e.args[0] & CLONE_THREAD):
                child = cur.get(e.ret)
                sp = e.args[1]
                if child is not None and child["stack"] is not None:
                    if not (child["stack"] <= sp <= child["stack"] + child["stack_len"]):
                        child["stack_mismatch"] = True
            elif e.nr == syslog.NR["munmap"]:
                addr, ln = e.args[0], e.args[1]
                key = (e.tgid, addr)
                if r is not None and r["spawned"] and r["stack"] == addr and not own_done:
                    # a thread unmapping its own stack (sysmon may log this after the parent already
                    # re-mapped the same address for the next thread: attribute by thread, not by address)
                    r["unmaps"].append((e.seq, e.tid, ln, e.ret))
                    if ln != r["stack_len"]:
                        problems.append(("stack/unmapped-with-wrong-length",
                                         dict(owner=r["tid"], mapped=r["stack_len"], unmapped=ln)))
                    if e.ret == 0 and not e.inj:
                        if stack_owner.get(key) is r:
                            del stack_owner[key]
                        if addr in m and m[addr][1] == r["map_seq"]:
                            m.pop(addr, None)
                else:
                    orec = stack_owner.get(key)
                    if orec is not None and orec is not r:
                        orec["unmaps"].append((e.seq, e.tid, ln, e.ret))
                        problems.append(("stack/unmapped-by-other-thread",
                                         dict(owner=orec["tid"], by=e.tid, seq=e.seq)))
                        if e.ret == 0 and not e.inj:
                            del stack_owner[key]
                            m.pop(addr, None)
                    else:
                        if addr in m:
                            if e.ret == 0 and not e.inj and ln >= m[addr][0]:
                                m.pop(addr, None)
                        elif ln == STACK_SZ and e.ret == 0:
                            problems.append(("stack/munmap-of-a-stack-range-that-is-not-mapped",
                                             dict(by=e.tid, addr=addr, seq=e.seq)))
                        for (tg, st), o2 in stack_owner.items():
                            if tg == e.tgid and o2 is not r and st < addr + ln and addr < st + o2["stack_len"]:
                                problems.append(("stack/foreign-munmap-overlaps-live-stack",
                                                 dict(owner=o2["tid"], by=e.tid, addr=addr, len=ln)))
                    if own_done:
                        r["after_unmap"].append(("munmap", e.seq))
            else:
                if r is not None and r["spawned"] and e.nr == syslog.NR["set_tid_address"] and e.args[0] == 0:
                    r["tid_addr_cleared"] = True
                if own_done:
                    r["after_unmap"].append((syslog.NAME.get(e.nr, e.nr), e.seq))
        elif e.k == "X" and e.tid in cur:
            cur[e.tid]["exited"] = True
            cur[e.tid]["exit_seq"] = e.seq
        elif e.k == "M" and e.kind == syslog.MARK["REPORT"] and e.a[0] == 90:
            r = cur.get(e.tid)
            if r is None:
                r = new_rec(e.tid, e.tgid)
            r["points"].append((e.a[1], e.seq))
    for key, rec in recs.items():
        if not rec["spawned"] or rec["stack"] is None:
            continue
        t = rec["tid"]
        n_ok = [u for u in rec["unmaps"] if u[3] == 0]
        if rec["exited"] and len(n_ok) == 0:
            problems.append(("stack/never-unmapped", dict(tid=t, stack=rec["stack"])))
        if len(n_ok) > 1:
            problems.append(("stack/unmapped-more-than-once", dict(tid=t, n=len(n_ok))))
        if rec["after_unmap"]:
            problems.append(("stack/thread-runs-on-after-unmapping-its-stack",
                             dict(tid=t, calls=[str(c[0]) for c in rec["after_unmap"][:5]])))
        pts = [p for p, _ in rec.get("points", [])]
        if (306 in pts or 309 in pts) and not rec["tid_addr_cleared"]:
            problems.append(("join-state/thread-side-free-without-clearing-tid-address", dict(tid=t, points=pts)))
    return recs, problems


def order_classes(evs, threads):
    """join-vs-exit orders actually observed: for each joined thread, did the joiner park before the exit?"""
    out = dict(exit_before_join=0, join_parked_then_woken=0, handle_side_release=0, thread_side_release=0)
    for t, rec in threads.items():
        pts = [p for p, _ in rec.get("points", [])]
        if 306 in pts or 309 in pts:
            out["thread_side_release"] += 1
    for e in evs:
        if e.k == "M" and e.kind == syslog.MARK["REPORT"] and e.a[0] == 90 and e.a[1] == 303:
            out["handle_side_release"] += 1
    # joins: main thread futex waits (S nr=202 op=0 val=1): ret 0 = slept and was woken, -11 = value already 0
    for e in evs:
        if e.k == "S" and e.nr == syslog.NR["futex"] and (e.args[1] & 0x7f) == 0 and e.args[2] == 1:
            if e.ret == 0:
                out["join_parked_then_woken"] += 1
            elif e.ret == -11:
                out["exit_before_join"] += 1
    return out


def tmp_log(tag):
    d = os.path.join(vlib.BUILD, "logs")
    os.makedirs(d, exist_ok=True)
    fd, p = tempfile.mkstemp(prefix=tag + "-", suffix=".log", dir=d)
    os.close(fd)
    return p
