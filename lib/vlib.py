"""Shared machinery for the tiny-std runtime-monitoring checks.

Every check is a python module checks/<id>.py exposing run(ck) where ck is a Check.
Harness / probe binaries talk to the driver over stdout with '@@' lines:

  @@EVAL <n>                 n more executions/cases were evaluated by an oracle
  @@COUNT <name> <n>         add n to a named counter (goes to evidence coverage.counters)
  @@DISTINCT <key>           a coarse class key of a non-trivial case (driver takes the union)
  @@SAMPLE <json>            one literal case (driver keeps a bounded number)
  @@VIOL <signature> <json>  the oracle saw refuting events; signature is a stable string
  @@INCONCLUSIVE <text>      something prevented a verdict (never a violation)

Verdicts are three-valued: violated / held on what was observed / inconclusive.
"""
import collections
import concurrent.futures
import hashlib
import json
import os
import re
import signal
import subprocess
import sys
import time

VERIF = os.path.dirname(os.path.dirname(os.path.abspath(__file__)))
REPO = os.environ.get("VERIF_REPO", "/repo")
BUILD = os.path.join(VERIF, ".build")
NCPU = os.cpu_count() or 4
HOOK_FEATURE = "verif-hooks"

# flags for no-libc executables (see DESIGN.md section 1)
NOLIBC_BASE = ["-C", "panic=abort", "-C", "link-arg=-nostartfiles"]
NOLIBC_MODES = {
    "dynpie": [],
    "static": ["-C", "target-feature=+crt-static", "-C", "relocation-model=static"],
    "staticpie": ["-C", "target-feature=+crt-static", "-C", "relocation-model=pie"],
}
NOLIBC_RELEASE_EXTRA = ["-C", "llvm-args=-disable-loop-idiom-strlen"]
TARGET = "x86_64-unknown-linux-gnu"


def log(*a):
    print(*a, file=sys.stderr, flush=True)


class BuildError(Exception):
    pass


def _repo_tag():
    if REPO == "/repo":
        return ""
    return "-alt" + hashlib.sha1(REPO.encode()).hexdigest()[:8]


def base_env(extra=None):
    env = dict(os.environ)
    env["CARGO_NET_OFFLINE"] = "true"
    env.pop("RUSTFLAGS", None)
    env.pop("MIRIFLAGS", None)
    if extra:
        env.update(extra)
    return env


def cargo(crate, flavour, args, *, toolchain=None, rustflags=None, env=None,
          timeout=3600, capture=True, cwd=None):
    """Run cargo for crate dir `crate` (relative to /verif) with its own target dir
    /verif/.build/<flavour>. Returns CompletedProcess. Paths of /repo crates can be
    redirected to another checkout with VERIF_REPO (cargo `paths` override)."""
    cdir = os.path.join(VERIF, crate)
    tdir = os.path.join(BUILD, flavour + _repo_tag())
    e = base_env(env)
    e["CARGO_TARGET_DIR"] = tdir
    if rustflags:
        e["RUSTFLAGS"] = " ".join(rustflags)
    cmd = ["cargo"]
    if toolchain:
        cmd.append("+" + toolchain)
    cmd += list(args)
    if REPO != "/repo":
        paths = ",".join('"%s/%s"' % (REPO, c) for c in ("rusl", "tiny-std", "tiny-start", "tiny-cli"))
        cmd += ["--config", "paths=[%s]" % paths]
    lock = os.path.join(cdir, "Cargo.lock")
    if not os.path.exists(lock):
        # seed the lock file from the repository so that no resolution needs the network
        try:
            import shutil
            shutil.copy(os.path.join(REPO, "Cargo.lock"), lock)
        except OSError:
            pass
    t0 = time.time()
    p = subprocess.run(cmd, cwd=cwd or cdir, env=e, timeout=timeout,
                       stdout=subprocess.PIPE if capture else None,
                       stderr=subprocess.STDOUT if capture else None, text=True)
    log("[cargo %s %s] rc=%d %.1fs" % (flavour, " ".join(args[:4]), p.returncode, time.time() - t0))
    return p, tdir


def cargo_build(crate, flavour, *, bins=None, features=None, release=False, toolchain=None,
                rustflags=None, target=None, build_std=False, env=None, extra=()):
    """Build and return the directory holding the binaries. Raises BuildError."""
    args = ["build", "--offline"]
    if release:
        args.append("--release")
    if target:
        args += ["--target", target]
    if build_std:
        args += ["-Zbuild-std"]
    if features:
        args += ["--features", ",".join(features)]
    for b in bins or []:
        args += ["--bin", b]
    args += list(extra)
    p, tdir = cargo(crate, flavour, args, toolchain=toolchain, rustflags=rustflags, env=env)
    if p.returncode != 0:
        raise BuildError("build of %s (%s) failed:\n%s" % (crate, flavour, (p.stdout or "")[-4000:]))
    d = tdir
    if target:
        d = os.path.join(d, target)
    return os.path.join(d, "release" if release else "debug")


def build_nolibc(crate, name, mode, release, features=None, bins=None):
    """Build a #![no_std] #![no_main] probe in one of the three link modes."""
    rf = list(NOLIBC_BASE) + NOLIBC_MODES[mode]
    if release:
        rf += NOLIBC_RELEASE_EXTRA
    flavour = "%s-%s" % (name, mode)
    return cargo_build(crate, flavour, bins=bins, features=features, release=release,
                       rustflags=rf, target=TARGET)


def miri_cmd(crate, flavour, bin_name, prog_args, miriflags, *, features=None, many_seeds=None):
    """argv/env/cwd for one `cargo miri run`. The caller runs it (possibly sharded)."""
    flags = list(miriflags)
    if many_seeds:
        flags.append("-Zmiri-many-seeds=%d..%d" % many_seeds)
    args = ["cargo", "+nightly", "miri", "run", "--offline", "--bin", bin_name]
    if features:
        args += ["--features", ",".join(features)]
    if REPO != "/repo":
        paths = ",".join('"%s/%s"' % (REPO, c) for c in ("rusl", "tiny-std", "tiny-start", "tiny-cli"))
        args += ["--config", "paths=[%s]" % paths]
    args += ["--"] + [str(a) for a in prog_args]
    env = base_env({"MIRIFLAGS": " ".join(flags),
                    "CARGO_TARGET_DIR": os.path.join(BUILD, flavour + _repo_tag())})
    return args, env, os.path.join(VERIF, crate)


def run_one(argv, env=None, cwd=None, timeout=600, stdin=None):
    """Run a process; returns dict(rc, out, err, timed_out, wall).
    The job gets its own process group, and on timeout the whole group is killed: killing only the direct child
    (as subprocess.run does) left grandchildren such as `miri` under `cargo` alive with the pipes open, and the
    drain after the kill then blocked for ever."""
    t0 = time.time()
    p = subprocess.Popen(argv, env=env, cwd=cwd, stdin=subprocess.PIPE if stdin is not None else None,
                         stdout=subprocess.PIPE, stderr=subprocess.PIPE, start_new_session=True)
    try:
        out, err = p.communicate(input=stdin, timeout=timeout)
        return dict(rc=p.returncode, out=out.decode("utf-8", "replace"),
                    err=err.decode("utf-8", "replace"), timed_out=False,
                    wall=time.time() - t0, argv=argv)
    except subprocess.TimeoutExpired:
        try:
            os.killpg(p.pid, signal.SIGKILL)
        except OSError:
            pass
        try:
            out, err = p.communicate(timeout=20)
        except subprocess.TimeoutExpired:
            # something escaped the group and still holds the pipes: give up on its output
            p.kill()
            out, err = b"", b""
            for f in (p.stdout, p.stderr):
                try:
                    f.close()
                except Exception:
                    pass
        return dict(rc=None, out=(out or b"").decode("utf-8", "replace"),
                    err=(err or b"").decode("utf-8", "replace"), timed_out=True,
                    wall=time.time() - t0, argv=argv)


def run_parallel(jobs, nproc=None):
    """jobs: list of dicts of run_one kwargs. Returns results in order."""
    nproc = nproc or NCPU
    with concurrent.futures.ThreadPoolExecutor(max_workers=nproc) as ex:
        futs = [ex.submit(run_one, **j) for j in jobs]
        return [f.result() for f in futs]


def load_known_findings():
    p = os.path.join(VERIF, "known_findings.json")
    try:
        with open(p) as f:
            return json.load(f)
    except FileNotFoundError:
        return {"findings": [], "fixed": []}


class Check:
    MAX_SAMPLES = 12

    def __init__(self, pid, tier, seed, level="exploration"):
        self.pid = pid
        self.tier = tier
        self.seed = seed
        self.level = level
        self.t0 = time.time()
        self.evaluations = 0
        self.counters = collections.Counter()
        self.distinct = set()
        self.samples = []
        self.violations = []      # (signature, detail)
        self.inconclusive = []
        self.assumptions = []
        self.extra = {}
        self.exhaustive = None
        self._sample_keys = set()

    # ---- accumulation -------------------------------------------------
    def add_eval(self, n=1):
        self.evaluations += int(n)

    def count(self, name, n=1):
        self.counters[name] += int(n)

    def note_distinct(self, key):
        self.distinct.add(str(key))

    def sample(self, obj, key=None):
        k = key if key is not None else json.dumps(obj, sort_keys=True, default=str)[:200]
        if k in self._sample_keys:
            return
        if len(self.samples) < self.MAX_SAMPLES:
            self._sample_keys.add(k)
            self.samples.append(obj)

    def violation(self, signature, detail=None):
        self.violations.append((str(signature), detail if detail is not None else {}))

    def note_inconclusive(self, text):
        self.inconclusive.append(str(text))

    def assume(self, text):
        if text not in self.assumptions:
            self.assumptions.append(text)

    def consume(self, text, context=None):
        """Parse '@@' protocol lines out of a harness' stdout."""
        n = 0
        for line in text.splitlines():
            if not line.startswith("@@"):
                continue
            n += 1
            try:
                kind, _, rest = line.partition(" ")
                if kind == "@@EVAL":
                    self.add_eval(int(rest))
                elif kind == "@@COUNT":
                    name, _, v = rest.rpartition(" ")
                    self.count(name, int(v))
                elif kind == "@@DISTINCT":
                    self.note_distinct(rest)
                elif kind == "@@SAMPLE":
                    try:
                        self.sample(json.loads(rest))
                    except ValueError:
                        self.sample(rest)
                elif kind == "@@VIOL":
                    sig, _, js = rest.partition(" ")
                    try:
                        det = json.loads(js) if js else {}
                    except ValueError:
                        det = {"raw": js}
                    if context:
                        det = dict(det) if isinstance(det, dict) else {"detail": det}
                        det["context"] = context
                    self.violation(sig, det)
                elif kind == "@@INCONCLUSIVE":
                    self.note_inconclusive(rest)
            except Exception as ex:  # malformed line: harness problem, not a verdict
                self.note_inconclusive("malformed harness line %r (%s)" % (line[:120], ex))
        return n

    def consume_result(self, res, what, expect_rc=(0,)):
        """Feed a run_one result. Non-zero exit / timeout without a @@VIOL is inconclusive
        unless the caller classifies it; returns True when the process ended normally."""
        self.consume(res["out"], context=what)
        if res["timed_out"]:
            self.note_inconclusive("%s: watchdog fired after %.0fs" % (what, res["wall"]))
            return False
        if res["rc"] not in expect_rc:
            self.note_inconclusive("%s: exit status %s; stderr tail: %s" % (what, res["rc"], res["err"][-600:]))
            return False
        return True

    # ---- verdict ------------------------------------------------------
    def finish(self, rule, min_distinct=2):
        kf = load_known_findings()
        known = [f for f in kf.get("findings", []) if f.get("property") == self.pid]
        printed = set()
        new = []
        nknown = 0
        for sig, det in self.violations:
            hit = None
            for f in known:
                if re.fullmatch(f["match"], sig):
                    hit = f
                    break
            if hit is not None:
                nknown += 1
                if hit["match"] not in printed:
                    printed.add(hit["match"])
                    print("KNOWN-FINDING: property=%s %s" % (self.pid, hit["what"]), flush=True)
            else:
                new.append((sig, det))
        rc = 0
        seen_sig = set()
        os.makedirs(os.path.join(VERIF, "replays"), exist_ok=True)
        # replay files of earlier runs of this property are stale (kept while a --replay run reads one)
        if not os.environ.get("VERIF_KEEP_REPLAYS"):
            import glob
            for f in glob.glob(os.path.join(VERIF, "replays", "%s-*.json" % self.pid)):
                try:
                    os.unlink(f)
                except OSError:
                    pass
        for sig, det in new:
            if sig in seen_sig:
                continue
            seen_sig.add(sig)
            h = hashlib.sha1(sig.encode()).hexdigest()[:10]
            path = os.path.join(VERIF, "replays", "%s-%s.json" % (self.pid, h))
            with open(path, "w") as f:
                json.dump({"property": self.pid, "signature": sig, "tier": self.tier,
                           "seed": self.seed, "detail": det}, f, indent=1, default=str)
            print("VIOLATION property=%s replay=%s" % (self.pid, path), flush=True)
            print("  signature: %s" % sig, flush=True)
            rc = 1
        for t in self.inconclusive[:20]:
            print("INCONCLUSIVE: property=%s %s" % (self.pid, t), flush=True)
        cov = {
            "evaluations": self.evaluations,
            "distinct_nontrivial": len(self.distinct),
            "rule": rule,
            "samples": self.samples,
            "counters": dict(self.counters),
            "distinct_keys_sample": sorted(self.distinct)[:40],
            "known_finding_hits": nknown,
            "inconclusive": len(self.inconclusive),
            "inconclusive_sample": self.inconclusive[:5],
        }
        if self.exhaustive is not None:
            cov["exhaustive"] = bool(self.exhaustive)
        cov.update(self.extra)
        ev = {
            "property_id": self.pid,
            "tier": self.tier,
            "seed": self.seed,
            "level": self.level,
            "coverage": cov,
            "assumptions": self.assumptions,
            "wall_s": round(time.time() - self.t0, 2),
            "violations": len(seen_sig),
        }
        # runs against an alternate checkout (VERIF_REPO) must not overwrite the real evidence
        evdir = os.path.join(VERIF, "evidence") if REPO == "/repo" else os.path.join(BUILD, "alt-evidence")
        os.makedirs(evdir, exist_ok=True)
        with open(os.path.join(evdir, self.pid + ".json"), "w") as f:
            json.dump(ev, f, indent=1, default=str)
        if rc == 0 and (self.evaluations < 1 or len(self.distinct) < min_distinct or not self.samples):
            print("BROKEN-CHECK: property=%s observed nothing non-trivial (evaluations=%d distinct=%d samples=%d)"
                  % (self.pid, self.evaluations, len(self.distinct), len(self.samples)), flush=True)
            return 2
        print("RESULT property=%s tier=%s seed=%d evaluations=%d distinct=%d known_hits=%d inconclusive=%d violations=%d wall=%.1fs"
              % (self.pid, self.tier, self.seed, self.evaluations, len(self.distinct), nknown,
                 len(self.inconclusive), len(seen_sig), time.time() - self.t0), flush=True)
        return rc


def rng(seed, *salt):
    import random
    h = hashlib.sha256(("%d|" % seed + "|".join(str(s) for s in salt)).encode()).digest()
    return random.Random(int.from_bytes(h[:8], "little"))
