"""Reader and offline models for sysmon event logs (format: engines/sysmon/src/main.rs header).

parse(path) -> list of Ev (namedtuple-like objects with .k kind char and fields)
FdModel      -> per-process descriptor table reconstructed from syscalls (conservation / double close)
MapModel     -> per-process mapping table from mmap/munmap/mremap (exactly-once unmapping)
sysmon_cmd() -> argv for running a tracee under sysmon
"""
import os
import urllib.parse

import vlib

# x86_64 syscall numbers used by the models
NR = dict(read=0, write=1, open=2, close=3, stat=4, fstat=5, lseek=8, mmap=9, mprotect=10, munmap=11,
          brk=12, rt_sigaction=13, rt_sigprocmask=14, ioctl=16, pread64=17, readv=19, writev=20, pipe=22,
          mremap=25, dup=32, dup2=33, nanosleep=35, getpid=39, socket=41, connect=42, accept=43, sendto=44,
          recvfrom=45, sendmsg=46, recvmsg=47, shutdown=48, bind=49, listen=50, getsockname=51,
          socketpair=53, setsockopt=54, clone=56, fork=57, vfork=58, execve=59, exit=60, wait4=61, kill=62,
          uname=63, fcntl=72, getdents=78, chdir=80, rename=82, mkdir=83, rmdir=84, unlink=87, getuid=102,
          setuid=105, setgid=106, setpgid=109, setsid=112, arch_prctl=158, mount=165, umount2=166,
          swapon=167, futex=202, getdents64=217, set_tid_address=218, clock_gettime=228, exit_group=231,
          epoll_wait=232, epoll_ctl=233, openat=257, mkdirat=258, unlinkat=263, renameat=264, ppoll=271,
          unshare=272, accept4=288, epoll_create1=291, dup3=292, pipe2=293, renameat2=316, getrandom=318,
          copy_file_range=326, statx=332, io_uring_setup=425, io_uring_enter=426, io_uring_register=427,
          clone3=435)
NAME = {v: k for k, v in NR.items()}
MARK = dict(BEGIN=1, END=2, REPORT=3, INJECT=4, SNAPFD=5, BYTES=6, DISARM=7, SNAPMAPS=8, SNAPTHREADS=9)


class Ev:
    __slots__ = ("k", "seq", "tgid", "tid", "nr", "args", "ret", "inj", "kind", "a", "new", "what", "status",
                 "sig", "tag", "fds", "data", "maps", "n", "state", "text", "post", "told")

    def __init__(self, k, seq):
        self.k = k
        self.seq = seq

    def __repr__(self):
        d = {s: getattr(self, s) for s in self.__slots__ if hasattr(self, s)}
        return "Ev(%s)" % d


def parse(path):
    evs = []
    with open(path, "r", errors="replace") as f:
        for line in f:
            p = line.rstrip("\n").split(" ")
            if len(p) < 2:
                continue
            k = p[0]
            try:
                e = Ev(k, int(p[1]))
                if k in ("s", "S"):
                    e.tgid, e.tid, e.nr = int(p[2]), int(p[3]), int(p[4])
                    e.args = [int(x, 16) for x in p[5:11]]
                    if k == "S":
                        e.ret = int(p[11])
                        e.inj = p[12] == "i"
                        # "p<value>": the call was executed (e.ret is the kernel's real result) and the caller
                        # was then told <value> instead
                        e.post = p[12].startswith("p")
                        e.told = int(p[12][1:]) if e.post else e.ret
                elif k == "M":
                    e.tgid, e.tid, e.kind = int(p[2]), int(p[3]), int(p[4])
                    e.a = [int(x) for x in p[5:10]]
                elif k == "F":
                    e.tgid, e.tid, e.new, e.what = int(p[2]), int(p[3]), int(p[4]), p[5]
                elif k in ("N", "E"):
                    e.tgid, e.tid = int(p[2]), int(p[3])
                elif k == "X":
                    e.tgid, e.tid, e.status = int(p[2]), int(p[3]), int(p[4])
                elif k == "G":
                    e.tgid, e.tid, e.sig = int(p[2]), int(p[3]), int(p[4])
                elif k == "D":
                    e.tgid, e.tid, e.tag = int(p[2]), int(p[3]), int(p[4])
                    e.fds = {}
                    for kv in p[5:]:
                        if "=" in kv:
                            a, b = kv.split("=", 1)
                            e.fds[int(a)] = urllib.parse.unquote(b)
                elif k == "B":
                    e.tgid, e.tid, e.tag = int(p[2]), int(p[3]), int(p[4])
                    e.data = bytes.fromhex(p[5]) if len(p) > 5 else b""
                elif k == "P":
                    e.tgid, e.tid, e.tag = int(p[2]), int(p[3]), int(p[4])
                    e.maps = []
                    rest = " ".join(p[5:])
                    for m in rest.split(";"):
                        q = m.split(",")
                        if len(q) >= 3 and "-" in q[0]:
                            lo, hi = q[0].split("-")
                            e.maps.append((int(lo, 16), int(hi, 16), q[1], urllib.parse.unquote(q[2])))
                elif k == "H":
                    e.tgid, e.tid, e.tag, e.n = int(p[2]), int(p[3]), int(p[4]), int(p[5])
                elif k == "T":
                    e.tid, e.state, e.text = int(p[2]), p[3], " ".join(p[4:])
                elif k == "W":
                    e.text = " ".join(p[2:])
                evs.append(e)
            except (ValueError, IndexError):
                continue  # torn last line of a killed run
    return evs


def s64(x):
    return x - (1 << 64) if x >= (1 << 63) else x


class FdModel:
    """Descriptor table per tgid from the syscall stream. `problems` collects double closes
    (close of a descriptor the model does not know as open -> EBADF from the kernel confirms)."""

    CREATORS = {NR["open"], NR["openat"], NR["socket"], NR["accept"], NR["accept4"], NR["dup"],
                NR["epoll_create1"], NR["io_uring_setup"]}

    def __init__(self):
        self.tab = {}       # tgid -> {fd: origin}
        self.problems = []  # (seq, tgid, text)
        self.created = 0
        self.closed = 0

    def seed(self, tgid, fds):
        self.tab[tgid] = {fd: "inherited:" + t for fd, t in fds.items()}

    def fork(self, parent, child):
        self.tab[child] = dict(self.tab.get(parent, {}))

    def feed(self, e, read_mem=None):
        if e.k == "F" and e.what in ("fork", "vfork"):
            self.fork(e.tgid, e.new)
            return
        if e.k != "S":
            return
        t = self.tab.setdefault(e.tgid, {})
        nr, ret = e.nr, e.ret
        if nr == NR["close"]:
            fd = s64(e.args[0])
            if ret == 0 or e.inj:
                if not e.inj:
                    if fd in t:
                        del t[fd]
                        self.closed += 1
                    else:
                        t.pop(fd, None)
            elif ret == -9:
                self.problems.append((e.seq, e.tgid, "close(%d) -> EBADF (descriptor not open: double close?)" % fd))
            return
        if ret < 0 or e.inj:
            return
        if nr in self.CREATORS:
            t[ret] = "%s@%d" % (NAME.get(nr, nr), e.seq)
            self.created += 1
        elif nr in (NR["dup2"], NR["dup3"]):
            t[s64(e.args[1])] = "dup@%d" % e.seq
            self.created += 1
        elif nr == NR["fcntl"] and e.args[1] in (0, 1030):  # F_DUPFD, F_DUPFD_CLOEXEC
            t[ret] = "fcntl-dup@%d" % e.seq
            self.created += 1


class MapModel:
    """Address-range bookkeeping per tgid: who mapped, who unmapped, how often."""

    def __init__(self):
        self.live = {}      # tgid -> {start: (len, seq, tid)}
        self.unmaps = []    # (seq, tgid, tid, addr, len, ret, matched_start or None)
        self.problems = []

    def feed(self, e):
        if e.k != "S":
            return
        m = self.live.setdefault(e.tgid, {})
        if e.nr == NR["mmap"] and e.ret > 0 and not e.inj:
            m[e.ret] = (e.args[1], e.seq, e.tid)
        elif e.nr == NR["mremap"] and e.ret > 0 and not e.inj:
            old = e.args[0]
            m.pop(old, None)
            m[e.ret] = (e.args[2], e.seq, e.tid)
        elif e.nr == NR["munmap"]:
            addr, ln = e.args[0], e.args[1]
            hit = None
            if addr in m:
                hit = addr
                if e.ret == 0 and not e.inj:
                    full = m[addr][0]
                    if ln >= full:
                        del m[addr]
                    else:
                        # partial unmap from the front
                        m[addr + ln] = (full - ln, m[addr][1], m[addr][2])
                        del m[addr]
            else:
                # inside an existing mapping (trim from the back / middle)?
                for st, (l, sq, td) in list(m.items()):
                    if st < addr < st + l:
                        hit = st
                        if e.ret == 0 and not e.inj:
                            m[st] = (addr - st, sq, td)
                            if addr + ln < st + l:
                                m[addr + ln] = (st + l - addr - ln, sq, td)
                        break
            self.unmaps.append((e.seq, e.tgid, e.tid, addr, ln, e.ret, hit))


def sysmon_bin():
    d = vlib.cargo_build("engines/sysmon", "sysmon", bins=["sysmon"])
    return os.path.join(d, "sysmon")


def sysmon_cmd(log, prog_argv, *, timeout_s=120, idle_ms=400, entries=False, scope_markers=False,
               injects=(), env_clear=False, envs=(), spec=None, sysmon=None):
    cmd = [sysmon or sysmon_bin(), "--log", log, "--timeout-s", str(timeout_s), "--idle-ms", str(idle_ms)]
    if entries:
        cmd.append("--entries")
    if scope_markers:
        cmd.append("--scope-markers")
    if env_clear:
        cmd.append("--env-clear")
    for e in envs:
        cmd += ["--env", e]
    for i in injects:
        cmd += ["--inject", i]
    if spec:
        cmd += ["--spec", spec]
    cmd += ["--"] + list(prog_argv)
    return cmd


def write_spec(path, exe, argv, envp):
    """argv / envp: lists of bytes (no NUL)."""
    with open(path, "w") as f:
        f.write("path %s\n" % os.fsencode(exe).hex())
        for a in argv:
            f.write("arg %s\n" % bytes(a).hex())
        for e in envp:
            f.write("env %s\n" % bytes(e).hex())
