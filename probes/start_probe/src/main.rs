//! start_probe (C07): a no-libc executable started through tiny-std's `_start`.
//!
//! stdin  (fd 0): `C07I` u32 vdso_iters, u32 nkeys, then nkeys x (u32 len, bytes)  -- lookup keys (NOT via argv/env)
//! stdout (fd 1): records `tag:u8 len:u32le payload`:
//!   L  u64                      args_os().len()
//!   O  bytes                    one element yielded by args_os() (without NUL)
//!   l  u64                      args().len()
//!   A  bytes / a ""             one element yielded by args(): Ok(bytes) / Err
//!   U  status:u8 bytes          var_unix(key i): 0 missing, 1 found(value bytes), 2 not-unicode
//!   W  trailer:u8 status:u8 bytes  var(key i) again with `trailer` placed right behind the &str key in memory
//!   V  status:u8 bytes          var(key i) (v = key not usable as &str, skipped); k = key has NUL, skipped
//!   G  uid u64, gid u64, has_random u8, 16 bytes, has_execfn u8, bytes     tiny_std::elf::aux getters
//!   P  raw /proc/self/auxv ; p  16 bytes at AT_RANDOM + execfn string, from the probe's own parse
//!   R  ok u8, startstack u64, argc u64, argv ptr, envp ptr, 10 aux fields (tiny_start::start::resolve re-run
//!      on the initial stack pointer from /proc/self/stat field 28, dynv = null so nothing is relocated)
//!   r  bytes  argv element / E bytes  environment entry, walked from the pointers resolve() returned
//!   T  clk u32, iters u32, fails u32, kinds u32, first failing (before, mid, after) 6 x i64, last mid 2 x i64
//!   S  bytes   relocation self test (static pointer tables)
//!   B  base u64, checked u32, skipped u32, modified u32, first (offset, value) 2 x u64, bait_ok u8, data_ok u8,
//!      link-time offsets of C07_BAIT, C07_DATA_CANARY, INBUF (3 x u64): relocation bait / canary check done at main entry
//!   H / h  Iterator API histories over args_os() / args(), see `run_history`
//!   Z  "done"
//! All I/O of the probe itself uses its own raw syscalls, not rusl.
#![no_std]
#![no_main]
#![allow(static_mut_refs)]

use core::ptr::addr_of_mut;
use tiny_std::UnixStr;

#[path = "/verif/engines/sysmon/marker.rs"]
mod marker;

#[inline(always)]
unsafe fn sys3(nr: usize, a: usize, b: usize, c: usize) -> isize {
    let ret: isize;
    core::arch::asm!(
        "syscall",
        inlateout("rax") nr as isize => ret,
        in("rdi") a,
        in("rsi") b,
        in("rdx") c,
        lateout("rcx") _,
        lateout("r11") _,
        options(nostack)
    );
    ret
}

const SYS_READ: usize = 0;
const SYS_WRITE: usize = 1;
const SYS_OPEN: usize = 2;
const SYS_CLOSE: usize = 3;
const SYS_EXIT: usize = 60;
const SYS_CLOCK_GETTIME: usize = 228;

fn die(code: i32, msg: &[u8]) -> ! {
    unsafe {
        sys3(SYS_WRITE, 2, msg.as_ptr() as usize, msg.len());
        sys3(SYS_EXIT, code as usize, 0, 0);
    }
    loop {}
}

const IN_CAP: usize = 6 << 20;
const OUT_CAP: usize = 1 << 16;
const KEY_CAP: usize = (1 << 18) + 8;
const SMALL_CAP: usize = 1 << 14;
static mut INBUF: [u8; IN_CAP] = [0; IN_CAP];
static mut OUTBUF: [u8; OUT_CAP] = [0; OUT_CAP];
static mut OUTPOS: usize = 0;
static mut KEYBUF: [u8; KEY_CAP] = [0; KEY_CAP];
static mut SMALL: [u8; SMALL_CAP] = [0; SMALL_CAP];

fn flush() {
    unsafe {
        let mut off = 0;
        while off < OUTPOS {
            let r = sys3(SYS_WRITE, 1, OUTBUF.as_ptr().add(off) as usize, OUTPOS - off);
            if r == -4 {
                continue;
            }
            if r <= 0 {
                die(3, b"start_probe: write to stdout failed\n");
            }
            off += r as usize;
        }
        OUTPOS = 0;
    }
}

fn put(bytes: &[u8]) {
    unsafe {
        let mut rest = bytes;
        while !rest.is_empty() {
            if OUTPOS == OUT_CAP {
                flush();
            }
            let n = core::cmp::min(rest.len(), OUT_CAP - OUTPOS);
            core::ptr::copy_nonoverlapping(rest.as_ptr(), OUTBUF.as_mut_ptr().add(OUTPOS), n);
            OUTPOS += n;
            rest = &rest[n..];
        }
    }
}

fn rec(tag: u8, parts: &[&[u8]]) {
    let mut total = 0usize;
    for p in parts {
        total += p.len();
    }
    put(&[tag]);
    put(&(total as u32).to_le_bytes());
    for p in parts {
        put(p);
    }
}

fn read_all(fd: usize, buf: *mut u8, cap: usize) -> usize {
    let mut n = 0usize;
    loop {
        if n == cap {
            return n;
        }
        let r = unsafe { sys3(SYS_READ, fd, buf.add(n) as usize, cap - n) };
        if r == -4 {
            continue;
        }
        if r < 0 {
            die(3, b"start_probe: read failed\n");
        }
        if r == 0 {
            return n;
        }
        n += r as usize;
    }
}

fn read_file(path: &[u8], buf: *mut u8, cap: usize) -> Option<usize> {
    let fd = unsafe { sys3(SYS_OPEN, path.as_ptr() as usize, 0, 0) };
    if fd < 0 {
        return None;
    }
    let n = read_all(fd as usize, buf, cap);
    unsafe { sys3(SYS_CLOSE, fd as usize, 0, 0) };
    Some(n)
}

fn u32_at(b: &[u8], off: usize) -> Option<u32> {
    if off + 4 > b.len() {
        return None;
    }
    Some(u32::from_le_bytes([b[off], b[off + 1], b[off + 2], b[off + 3]]))
}

unsafe fn cstr_bytes<'a>(p: *const u8) -> &'a [u8] {
    let mut n = 0usize;
    while p.add(n).read() != 0 {
        n += 1;
    }
    core::slice::from_raw_parts(p, n)
}

fn no_nul(s: &UnixStr) -> &[u8] {
    let sl = s.as_slice();
    if sl.is_empty() {
        sl
    } else {
        &sl[..sl.len() - 1]
    }
}

// ---------------------------------------------------------------------------------------------
fn echo_args() {
    let it = tiny_std::env::args_os();
    rec(b'L', &[&(it.len() as u64).to_le_bytes()]);
    for a in it {
        rec(b'O', &[no_nul(a)]);
    }
    let it = tiny_std::env::args();
    rec(b'l', &[&(it.len() as u64).to_le_bytes()]);
    for a in it {
        match a {
            Ok(s) => rec(b'A', &[s.as_bytes()]),
            Err(_) => rec(b'a', &[]),
        }
    }
}

fn lookups(input: &[u8], mut off: usize, nkeys: u32) -> usize {
    use tiny_std::env::VarError;
    for _ in 0..nkeys {
        let len = match u32_at(input, off) {
            Some(l) => l as usize,
            None => die(3, b"start_probe: truncated key stream\n"),
        };
        off += 4;
        if off + len > input.len() || len + 1 > KEY_CAP {
            die(3, b"start_probe: bad key length\n");
        }
        let key = &input[off..off + len];
        off += len;
        if key.contains(&0) {
            rec(b'k', &[]);
            continue;
        }
        // the key gets its own buffer, NUL terminated; the &str variant is the same bytes without the NUL
        let kb: &[u8] = unsafe {
            core::ptr::copy_nonoverlapping(key.as_ptr(), KEYBUF.as_mut_ptr(), len);
            KEYBUF[len] = 0;
            core::slice::from_raw_parts(KEYBUF.as_ptr(), len + 1)
        };
        match UnixStr::try_from_bytes(kb) {
            Ok(uk) => match tiny_std::env::var_unix(uk) {
                Ok(v) => rec(b'U', &[&[1], no_nul(v)]),
                Err(VarError::Missing) => rec(b'U', &[&[0]]),
                Err(VarError::NotUnicode(_)) => rec(b'U', &[&[2]]),
            },
            Err(_) => rec(b'k', &[]),
        }
        match core::str::from_utf8(&kb[..len]) {
            Ok(sk) => {
                match tiny_std::env::var(sk) {
                    Ok(v) => rec(b'V', &[&[1], v.as_bytes()]),
                    Err(VarError::Missing) => rec(b'V', &[&[0]]),
                    Err(VarError::NotUnicode(_)) => rec(b'V', &[&[2]]),
                }
                // A &str key is not NUL terminated: whatever byte happens to follow it in memory must not
                // matter. Repeat the lookup with hostile bytes right behind the key (outside the slice).
                for t in [b'=', b'A', b'B', 0xFFu8] {
                    unsafe {
                        KEYBUF[len] = t;
                    }
                    match tiny_std::env::var(sk) {
                        Ok(v) => rec(b'W', &[&[t], &[1], v.as_bytes()]),
                        Err(VarError::Missing) => rec(b'W', &[&[t], &[0]]),
                        Err(VarError::NotUnicode(_)) => rec(b'W', &[&[t], &[2]]),
                    }
                }
                unsafe {
                    KEYBUF[len] = 0;
                }
            }
            Err(_) => rec(b'v', &[]),
        }
    }
    off
}

// ---- Iterator API histories over args_os() / args() ---------------------------------------------------------
// After the keys the input may carry: u32 nhist, then per history u32 nops and nops x (op u8, a u32, b u32).
// Every history is run on a fresh args_os() and on a fresh args(). Output: 'H' (history index u32, which u8:
// 0 args_os / 1 args, then len, size_hint.lo, has_hi, size_hint.hi as 4 x u64) and per op 'h' (op u8, nitems u32,
// nnums u32, items (status u8: 1 Ok / 2 Err, len u64, adler32 u64, first byte u8), nums u64..., then the same 4 u64
// of len()/size_hint() after the op). Every adaptor is bounded by take(b) so that a cursor that runs backwards
// shows up as "more items than argc" in the driver instead of a hang. a == 0xFFFF_FFFF means usize::MAX.
const OP_NEXT: u8 = 1;
const OP_NTH: u8 = 2;
const OP_SKIP_TAKE: u8 = 3;
const OP_STEP_TAKE: u8 = 4;
const OP_TAKE: u8 = 5;
const OP_LAST: u8 = 6;
const OP_COUNT: u8 = 7;
const OP_FOLD: u8 = 8;
const OP_SKIP_NTH: u8 = 9;
const OP_FRESH: u8 = 10;
const OP_FOR_BREAK: u8 = 11;
const OP_SKIP_WHILE_LEN: u8 = 12;

/// Adler-32 (zlib.adler32 in the driver)
fn fnv(b: &[u8]) -> u64 {
    let mut a: u32 = 1;
    let mut c: u32 = 0;
    for x in b {
        a = (a + *x as u32) % 65521;
        c = (c + a) % 65521;
    }
    ((c as u64) << 16) | a as u64
}

struct Desc {
    status: u8,
    len: u64,
    hash: u64,
    first: u8,
}

fn desc_bytes(status: u8, b: &[u8]) -> Desc {
    Desc { status, len: b.len() as u64, hash: fnv(b), first: if b.is_empty() { 0 } else { b[0] } }
}

const HBUF_CAP: usize = 1 << 15;
static mut HBUF: [u8; HBUF_CAP] = [0; HBUF_CAP];

struct OpOut {
    pos: usize,
    nitems: u32,
    nnums: u32,
    truncated: bool,
}

impl OpOut {
    fn new() -> Self {
        OpOut { pos: 0, nitems: 0, nnums: 0, truncated: false }
    }
    fn bytes(&mut self, b: &[u8]) {
        unsafe {
            if self.pos + b.len() > HBUF_CAP {
                self.truncated = true;
                return;
            }
            core::ptr::copy_nonoverlapping(b.as_ptr(), HBUF.as_mut_ptr().add(self.pos), b.len());
            self.pos += b.len();
        }
    }
    fn item(&mut self, d: Desc) {
        self.nitems += 1;
        self.bytes(&[d.status]);
        self.bytes(&d.len.to_le_bytes());
        self.bytes(&d.hash.to_le_bytes());
        self.bytes(&[d.first]);
    }
    fn num(&mut self, v: u64) {
        self.nnums += 1;
        self.bytes(&v.to_le_bytes());
    }
}

fn usz(a: u32) -> usize {
    if a == u32::MAX {
        usize::MAX
    } else {
        a as usize
    }
}

fn state_nums<I: ExactSizeIterator>(it: &I) -> [u64; 4] {
    let (lo, hi) = it.size_hint();
    [it.len() as u64, lo as u64, hi.is_some() as u64, hi.unwrap_or(0) as u64]
}

fn run_history<I, F, D>(hidx: u32, which: u8, ops: &[u8], fresh: F, d: D)
where
    I: Iterator + ExactSizeIterator,
    F: Fn() -> I,
    D: Fn(I::Item) -> Desc + Copy,
{
    let mut it = fresh();
    let st = state_nums(&it);
    rec(
        b'H',
        &[&hidx.to_le_bytes(), &[which], &st[0].to_le_bytes(), &st[1].to_le_bytes(), &st[2].to_le_bytes(), &st[3].to_le_bytes()],
    );
    let mut i = 0;
    while i + 9 <= ops.len() {
        let op = ops[i];
        let a = u32_at(ops, i + 1).unwrap_or(0);
        let b = u32_at(ops, i + 5).unwrap_or(0);
        i += 9;
        let mut o = OpOut::new();
        match op {
            OP_NEXT => {
                if let Some(x) = it.next() {
                    o.item(d(x));
                }
            }
            OP_NTH => {
                if let Some(x) = it.nth(usz(a)) {
                    o.item(d(x));
                }
            }
            OP_SKIP_TAKE => {
                for x in it.by_ref().skip(usz(a)).take(b as usize) {
                    o.item(d(x));
                }
            }
            OP_STEP_TAKE => {
                let step = if a == 0 { 1 } else { usz(a) };
                for x in it.by_ref().step_by(step).take(b as usize) {
                    o.item(d(x));
                }
            }
            OP_TAKE => {
                for x in it.by_ref().take(b as usize) {
                    o.item(d(x));
                }
            }
            OP_LAST => {
                if let Some(x) = it.by_ref().take(b as usize).last() {
                    o.item(d(x));
                }
            }
            OP_COUNT => {
                let c = it.by_ref().take(b as usize).count();
                o.num(c as u64);
            }
            OP_FOLD => {
                let (c, h) = it.by_ref().take(b as usize).fold((0u64, 0u64), |(c, h), x| {
                    let dd = d(x);
                    (c + 1, h.rotate_left(7) ^ dd.hash ^ dd.len ^ ((dd.status as u64) << 56))
                });
                o.num(c);
                o.num(h);
            }
            OP_SKIP_NTH => {
                if let Some(x) = it.by_ref().skip(usz(a)).nth(b as usize) {
                    o.item(d(x));
                }
            }
            OP_FRESH => {
                it = fresh();
            }
            OP_FOR_BREAK => {
                // the usual idiom: a for loop over by_ref() left early
                let mut seen = 0u32;
                for x in it.by_ref() {
                    o.item(d(x));
                    seen += 1;
                    if seen >= b {
                        break;
                    }
                }
            }
            OP_SKIP_WHILE_LEN => {
                // skip_while / find style consumption: stop at the first item whose length is >= a
                let mut budget = b;
                while budget > 0 {
                    budget -= 1;
                    match it.next() {
                        Some(x) => {
                            let dd = d(x);
                            let stop = dd.len >= a as u64;
                            o.item(dd);
                            if stop {
                                break;
                            }
                        }
                        None => break,
                    }
                }
            }
            _ => {}
        }
        let st = state_nums(&it);
        for v in st {
            o.num(v);
        }
        let body = unsafe { core::slice::from_raw_parts(HBUF.as_ptr(), o.pos) };
        rec(b'h', &[&[op, o.truncated as u8], &o.nitems.to_le_bytes(), &o.nnums.to_le_bytes(), body]);
    }
}

fn histories(input: &[u8], mut off: usize) {
    let nhist = match u32_at(input, off) {
        Some(n) => n,
        None => return,
    };
    off += 4;
    for h in 0..nhist {
        let nops = match u32_at(input, off) {
            Some(n) => n as usize,
            None => die(3, b"start_probe: truncated history stream\n"),
        };
        off += 4;
        if off + nops * 9 > input.len() {
            die(3, b"start_probe: truncated history ops\n");
        }
        let ops = &input[off..off + nops * 9];
        off += nops * 9;
        run_history(h, 0, ops, tiny_std::env::args_os, |x: &'static UnixStr| desc_bytes(1, no_nul(x)));
        run_history(h, 1, ops, tiny_std::env::args, |x: Result<&'static str, tiny_std::Error>| match x {
            Ok(s) => desc_bytes(1, s.as_bytes()),
            Err(_) => desc_bytes(2, &[]),
        });
    }
}

fn aux_section() {
    // tiny-std's getters
    let uid = tiny_std::elf::aux::get_uid() as u64;
    let gid = tiny_std::elf::aux::get_gid() as u64;
    let rnd = tiny_std::elf::aux::get_random();
    let exf = tiny_std::elf::aux::get_exec_fn();
    let rb = rnd.unwrap_or(0).to_ne_bytes();
    let eb: &[u8] = match exf {
        Some(e) => no_nul(e),
        None => &[],
    };
    rec(
        b'G',
        &[
            &uid.to_le_bytes(),
            &gid.to_le_bytes(),
            &[rnd.is_some() as u8],
            &rb,
            &[exf.is_some() as u8],
            eb,
        ],
    );
    // independent reading of /proc/self/auxv
    let n = match read_file(b"/proc/self/auxv\0", unsafe { SMALL.as_mut_ptr() }, SMALL_CAP) {
        Some(n) => n,
        None => {
            rec(b'P', &[]);
            return;
        }
    };
    let raw = unsafe { core::slice::from_raw_parts(SMALL.as_ptr(), n) };
    rec(b'P', &[raw]);
    let mut at_random = 0usize;
    let mut at_execfn = 0usize;
    let mut i = 0;
    while i + 16 <= n {
        let mut k = [0u8; 8];
        let mut v = [0u8; 8];
        k.copy_from_slice(&raw[i..i + 8]);
        v.copy_from_slice(&raw[i + 8..i + 16]);
        let (k, v) = (u64::from_le_bytes(k), u64::from_le_bytes(v));
        if k == 0 {
            break;
        }
        if k == 25 {
            at_random = v as usize;
        }
        if k == 31 {
            at_execfn = v as usize;
        }
        i += 16;
    }
    let mut r16 = [0u8; 16];
    if at_random != 0 {
        unsafe { core::ptr::copy_nonoverlapping(at_random as *const u8, r16.as_mut_ptr(), 16) };
    }
    let es: &[u8] = if at_execfn != 0 { unsafe { cstr_bytes(at_execfn as *const u8) } } else { &[] };
    rec(b'p', &[&r16, es]);
}

/// field 28 (startstack) of /proc/self/stat = the stack pointer the kernel handed to `_start` (&argc)
fn start_stack() -> usize {
    let mut buf = [0u8; 1024];
    let n = match read_file(b"/proc/self/stat\0", buf.as_mut_ptr(), buf.len()) {
        Some(n) => n,
        None => return 0,
    };
    let s = &buf[..n];
    let mut close = None;
    for (i, b) in s.iter().enumerate() {
        if *b == b')' {
            close = Some(i);
        }
    }
    let mut i = match close {
        Some(c) => c + 1,
        None => return 0,
    };
    // token 0 after ')' is field 3
    let mut field = 2;
    let mut val: usize = 0;
    while i < n {
        if s[i] == b' ' {
            field += 1;
            i += 1;
            if field == 28 {
                while i < n && s[i].is_ascii_digit() {
                    val = val.wrapping_mul(10).wrapping_add((s[i] - b'0') as usize);
                    i += 1;
                }
                return val;
            }
            continue;
        }
        i += 1;
    }
    0
}

fn resolve_again() {
    let sp = start_stack();
    if sp == 0 || sp % 8 != 0 {
        rec(b'R', &[&[0u8], &(sp as u64).to_le_bytes()]);
        return;
    }
    let (env, aux) = unsafe { tiny_start::start::resolve(sp as *const u8, core::ptr::null()) };
    let f = |v: usize| (v as u64).to_le_bytes();
    rec(
        b'R',
        &[
            &[1u8],
            &f(sp),
            &env.arg_c.to_le_bytes(),
            &f(env.arg_v as usize),
            &f(env.env_p as usize),
            &f(aux.at_base),
            &f(aux.at_gid),
            &f(aux.at_uid),
            &f(aux.at_phdr),
            &f(aux.at_phent),
            &f(aux.at_phnum),
            &f(aux.at_random),
            &f(aux.at_secure),
            &f(aux.at_sysinfo_ehdr),
            &f(aux.at_execfn),
        ],
    );
    unsafe {
        let mut p = env.arg_v;
        let mut n = 0u64;
        while n < env.arg_c && !p.read().is_null() {
            rec(b'r', &[cstr_bytes(p.read())]);
            p = p.add(1);
            n += 1;
        }
        let mut p = env.env_p;
        let mut n = 0usize;
        while !p.read().is_null() && n < (1 << 20) {
            rec(b'E', &[cstr_bytes(p.read())]);
            p = p.add(1);
            n += 1;
        }
    }
}

#[repr(C)]
#[derive(Clone, Copy)]
struct Ts {
    s: i64,
    n: i64,
}

#[inline(always)]
fn sys_clock(clk: usize) -> Ts {
    let mut ts = Ts { s: 0, n: 0 };
    unsafe { sys3(SYS_CLOCK_GETTIME, clk, &mut ts as *mut Ts as usize, 0) };
    ts
}

#[inline(always)]
fn le(a: Ts, b: Ts) -> bool {
    a.s < b.s || (a.s == b.s && a.n <= b.n)
}

fn vdso_bracket(clk: u32, iters: u32) {
    use tiny_std::time::{Instant, MonotonicInstant, SystemTime};
    let mut fails = 0u32;
    let mut kinds = 0u32;
    let mut first = [0i64; 6];
    let mut last = Ts { s: 0, n: 0 };
    marker::begin(7, clk as i64, iters as i64);
    for i in 0..iters {
        let before = sys_clock(clk as usize);
        let (mid, kind) = if clk == 1 {
            if i & 1 == 0 {
                let t = Instant::now();
                let r: &rusl::platform::TimeSpec = t.as_ref();
                (Ts { s: r.seconds(), n: r.nanoseconds() }, 1u32)
            } else {
                let t = MonotonicInstant::now().as_instant();
                let r: &rusl::platform::TimeSpec = t.as_ref();
                (Ts { s: r.seconds(), n: r.nanoseconds() }, 2u32)
            }
        } else {
            let d = SystemTime::now().duration_since_unix_time();
            (Ts { s: d.as_secs() as i64, n: d.subsec_nanos() as i64 }, 4u32)
        };
        let after = sys_clock(clk as usize);
        last = mid;
        let ok = le(before, mid) && le(mid, after) && mid.n >= 0 && mid.n < 1_000_000_000;
        if !ok {
            if fails == 0 {
                first = [before.s, before.n, mid.s, mid.n, after.s, after.n];
            }
            fails += 1;
            kinds |= kind;
        }
    }
    marker::end(7, clk as i64, iters as i64, fails as i64, 0);
    let mut pl = [0u8; 16 + 48 + 16];
    pl[0..4].copy_from_slice(&clk.to_le_bytes());
    pl[4..8].copy_from_slice(&iters.to_le_bytes());
    pl[8..12].copy_from_slice(&fails.to_le_bytes());
    pl[12..16].copy_from_slice(&kinds.to_le_bytes());
    for (j, v) in first.iter().enumerate() {
        pl[16 + j * 8..24 + j * 8].copy_from_slice(&v.to_le_bytes());
    }
    pl[64..72].copy_from_slice(&last.s.to_le_bytes());
    pl[72..80].copy_from_slice(&last.n.to_le_bytes());
    rec(b'T', &[&pl]);
}

// ---- relocation self test: data that needs R_X86_64_RELATIVE fix-ups in a (static) PIE -----------
trait Shape {
    fn name(&self) -> &'static [u8];
    fn val(&self, x: u64) -> u64;
}
struct Sq;
struct Tri;
impl Shape for Sq {
    fn name(&self) -> &'static [u8] {
        b"square"
    }
    fn val(&self, x: u64) -> u64 {
        x.wrapping_mul(x)
    }
}
impl Shape for Tri {
    fn name(&self) -> &'static [u8] {
        b"triangle"
    }
    fn val(&self, x: u64) -> u64 {
        x.wrapping_mul(x + 1) / 2
    }
}
fn f_add(x: u64) -> u64 {
    x + 7
}
fn f_mul(x: u64) -> u64 {
    x * 3
}
fn f_xor(x: u64) -> u64 {
    x ^ 0x5a5a
}
static WORDS: [&[u8]; 5] = [b"alpha", b"beta", b"gamma", b"delta", b"epsilon"];
static FNS: [fn(u64) -> u64; 3] = [f_add, f_mul, f_xor];
static SHAPES: [&(dyn Shape + Sync); 2] = [&Sq, &Tri];
static mut CELL: u64 = 11;
static mut CELL_PTR: *mut u64 = unsafe { addr_of_mut!(CELL) };

fn reloc_selftest() {
    let mut acc: u64 = 5;
    put(&[b'S']);
    // fixed size payload assembled first
    let mut buf = [0u8; 256];
    let mut n = 0usize;
    for i in 0..core::hint::black_box(5usize) {
        let w = WORDS[core::hint::black_box(i)];
        buf[n..n + w.len()].copy_from_slice(w);
        n += w.len();
        buf[n] = b',';
        n += 1;
    }
    for i in 0..core::hint::black_box(3usize) {
        acc = FNS[core::hint::black_box(i)](acc);
    }
    for i in 0..core::hint::black_box(2usize) {
        let s = SHAPES[core::hint::black_box(i)];
        let w = s.name();
        buf[n..n + w.len()].copy_from_slice(w);
        n += w.len();
        buf[n] = b',';
        n += 1;
        acc = acc.wrapping_add(s.val(acc & 0xffff));
    }
    unsafe {
        let p = core::hint::black_box(CELL_PTR);
        *p += 31;
        acc = acc.wrapping_add(core::ptr::read_volatile(addr_of_mut!(CELL)));
    }
    buf[n..n + 8].copy_from_slice(&acc.to_le_bytes());
    n += 8;
    put(&(n as u32).to_le_bytes());
    put(&buf[..n]);
}

// ---- relocation bait + canaries ------------------------------------------------------------------
// Read-only tables whose words decode as R_X86_64_RELATIVE records (r_info == 8) under every plausible stride and
// phase, so that a relocation walk that runs past .rela.dyn (or strides wrongly) has something to bite on:
//  * BAIT_ALL8: every word is 8 -> {offset 8, RELATIVE, addend 8}: a write into the read-only ELF header -> SIGSEGV
//  * BAIT_RELA: {X, 8, addend} triples (24-byte stride), three rows whose phases differ by one word
//  * BAIT_REL:  {X, 8} pairs (16-byte stride), two rows whose phases differ by one word
// X runs over link-time offsets 0x40000 + i * 0x10000, which lie inside this probe's zero-initialised .bss
// buffers (6.6 MiB) in every link mode: a bogus relocation applied there leaves a non-zero word that main() finds
// before it has touched those buffers.
const NB: usize = 96;
const BAIT_ADDEND: u64 = 0x5151;
const fn bait_off(i: usize) -> u64 {
    0x40000 + (i as u64) * 0x10000
}
const RELA_ROW: usize = 3 * NB + 1;
const REL_ROW: usize = 2 * NB + 1;
const fn mk_rela() -> [u64; 3 * RELA_ROW] {
    let mut t = [0u64; 3 * RELA_ROW];
    let mut r = 0;
    while r < 3 {
        let mut i = 0;
        while i < NB {
            t[r * RELA_ROW + 3 * i] = bait_off(i);
            t[r * RELA_ROW + 3 * i + 1] = 8;
            t[r * RELA_ROW + 3 * i + 2] = BAIT_ADDEND;
            i += 1;
        }
        r += 1;
    }
    t
}
const fn mk_rel() -> [u64; 2 * REL_ROW] {
    let mut t = [0u64; 2 * REL_ROW];
    let mut r = 0;
    while r < 2 {
        let mut i = 0;
        while i < NB {
            t[r * REL_ROW + 2 * i] = bait_off(i);
            t[r * REL_ROW + 2 * i + 1] = 8;
            i += 1;
        }
        r += 1;
    }
    t
}
// short groups first (4 records + 1 pad word, so that the phase rotates every group): even a short over-run that
// starts right behind .rela.dyn meets every phase within a few hundred bytes
const HG: usize = 4;
const HEAD_RELA_GROUPS: usize = 6;
const HEAD_REL_GROUPS: usize = 4;
const HEAD_RELA: usize = HEAD_RELA_GROUPS * (3 * HG + 1);
const HEAD_REL: usize = HEAD_REL_GROUPS * (2 * HG + 1);
const fn mk_head_rela() -> [u64; HEAD_RELA] {
    let mut t = [0u64; HEAD_RELA];
    let mut g = 0;
    while g < HEAD_RELA_GROUPS {
        let mut i = 0;
        while i < HG {
            t[g * (3 * HG + 1) + 3 * i] = bait_off(g * HG + i);
            t[g * (3 * HG + 1) + 3 * i + 1] = 8;
            t[g * (3 * HG + 1) + 3 * i + 2] = BAIT_ADDEND;
            i += 1;
        }
        g += 1;
    }
    t
}
const fn mk_head_rel() -> [u64; HEAD_REL] {
    let mut t = [0u64; HEAD_REL];
    let mut g = 0;
    while g < HEAD_REL_GROUPS {
        let mut i = 0;
        while i < HG {
            t[g * (2 * HG + 1) + 2 * i] = bait_off(HEAD_RELA_GROUPS * HG + g * HG + i);
            t[g * (2 * HG + 1) + 2 * i + 1] = 8;
            i += 1;
        }
        g += 1;
    }
    t
}
#[repr(C)]
pub struct Bait {
    head_rela: [u64; HEAD_RELA],
    head_rel: [u64; HEAD_REL],
    all8: [u64; 1024],
    rela: [u64; 3 * RELA_ROW],
    rel: [u64; 2 * REL_ROW],
}
#[used]
#[no_mangle]
#[link_section = ".rodata.c07_bait"]
pub static C07_BAIT: Bait =
    Bait { head_rela: mk_head_rela(), head_rel: mk_head_rel(), all8: [8; 1024], rela: mk_rela(), rel: mk_rel() };
static BAIT_HEAD_RELA_EXPECT: [u64; HEAD_RELA] = mk_head_rela();
static BAIT_HEAD_REL_EXPECT: [u64; HEAD_REL] = mk_head_rel();
const DATA_CANARY_WORD: u64 = 0xC07C_07C0_7C07_C07C;
#[used]
#[no_mangle]
pub static mut C07_DATA_CANARY: [u64; 64] = [DATA_CANARY_WORD; 64];

extern "C" {
    static __ehdr_start: u8;
}

struct BaitReport {
    base: u64,
    checked: u32,
    skipped: u32,
    modified: u32,
    first_off: u64,
    first_val: u64,
    bait_ok: u8,
    data_ok: u8,
    bait_at: u64,
    data_at: u64,
    inbuf_at: u64,
}

/// Must run before main() touches any of its buffers.
fn bait_check() -> BaitReport {
    let base = unsafe { core::ptr::addr_of!(__ehdr_start) as usize };
    let bufs: [(usize, usize); 4] = unsafe {
        [
            (INBUF.as_ptr() as usize, IN_CAP),
            (KEYBUF.as_ptr() as usize, KEY_CAP),
            (OUTBUF.as_ptr() as usize, OUT_CAP),
            (SMALL.as_ptr() as usize, SMALL_CAP),
        ]
    };
    let mut rp = BaitReport {
        base: base as u64,
        checked: 0,
        skipped: 0,
        modified: 0,
        first_off: 0,
        first_val: 0,
        bait_ok: 1,
        data_ok: 1,
        bait_at: (core::ptr::addr_of!(C07_BAIT) as usize).wrapping_sub(base) as u64,
        data_at: (core::ptr::addr_of!(C07_DATA_CANARY) as usize).wrapping_sub(base) as u64,
        inbuf_at: (bufs[0].0).wrapping_sub(base) as u64,
    };
    for i in 0..NB {
        let a = base.wrapping_add(bait_off(i) as usize);
        let mut inside = false;
        for (s, l) in bufs {
            if a >= s && a + 8 <= s + l {
                inside = true;
            }
        }
        if !inside {
            rp.skipped += 1;
            continue;
        }
        rp.checked += 1;
        let v = unsafe { core::ptr::read_volatile(a as *const u64) };
        if v != 0 {
            if rp.modified == 0 {
                rp.first_off = bait_off(i);
                rp.first_val = v;
            }
            rp.modified += 1;
        }
    }
    // the tables themselves and the .data canary must still hold their link-time values
    let b = core::ptr::addr_of!(C07_BAIT);
    unsafe {
        for r in 0..3 {
            for i in 0..NB {
                let p = (*b).rela.as_ptr().add(r * RELA_ROW + 3 * i);
                if core::ptr::read_volatile(p) != bait_off(i)
                    || core::ptr::read_volatile(p.add(1)) != 8
                    || core::ptr::read_volatile(p.add(2)) != BAIT_ADDEND
                {
                    rp.bait_ok = 0;
                }
            }
        }
        for r in 0..2 {
            for i in 0..NB {
                let p = (*b).rel.as_ptr().add(r * REL_ROW + 2 * i);
                if core::ptr::read_volatile(p) != bait_off(i) || core::ptr::read_volatile(p.add(1)) != 8 {
                    rp.bait_ok = 0;
                }
            }
        }
        for i in 0..HEAD_RELA {
            if core::ptr::read_volatile((*b).head_rela.as_ptr().add(i)) != BAIT_HEAD_RELA_EXPECT[i] {
                rp.bait_ok = 0;
            }
        }
        for i in 0..HEAD_REL {
            if core::ptr::read_volatile((*b).head_rel.as_ptr().add(i)) != BAIT_HEAD_REL_EXPECT[i] {
                rp.bait_ok = 0;
            }
        }
        for i in 0..1024 {
            if core::ptr::read_volatile((*b).all8.as_ptr().add(i)) != 8 {
                rp.bait_ok = 0;
            }
        }
        let d = core::ptr::addr_of!(C07_DATA_CANARY) as *const u64;
        for i in 0..64 {
            if core::ptr::read_volatile(d.add(i)) != DATA_CANARY_WORD {
                rp.data_ok = 0;
            }
        }
    }
    rp
}

fn bait_record(rp: &BaitReport) {
    rec(
        b'B',
        &[
            &rp.base.to_le_bytes(),
            &rp.checked.to_le_bytes(),
            &rp.skipped.to_le_bytes(),
            &rp.modified.to_le_bytes(),
            &rp.first_off.to_le_bytes(),
            &rp.first_val.to_le_bytes(),
            &[rp.bait_ok, rp.data_ok],
            &rp.bait_at.to_le_bytes(),
            &rp.data_at.to_le_bytes(),
            &rp.inbuf_at.to_le_bytes(),
        ],
    );
}

#[no_mangle]
pub fn main() -> i32 {
    let bait = bait_check();
    let n = read_all(0, unsafe { INBUF.as_mut_ptr() }, IN_CAP);
    let input = unsafe { core::slice::from_raw_parts(INBUF.as_ptr(), n) };
    if n < 12 || &input[0..4] != b"C07I" {
        die(3, b"start_probe: bad input header on fd 0\n");
    }
    let iters = u32_at(input, 4).unwrap_or(0);
    let nkeys = u32_at(input, 8).unwrap_or(0);
    put(b"C07P");
    echo_args();
    let off = lookups(input, 12, nkeys);
    histories(input, off);
    aux_section();
    resolve_again();
    if iters > 0 {
        vdso_bracket(1, iters);
        vdso_bracket(0, iters);
    }
    reloc_selftest();
    bait_record(&bait);
    rec(b'Z', &[b"done"]);
    flush();
    0
}
