//! "Argument-domain" variants: the same operations as the plain scenarios, called with extreme or invalid
//! NON-descriptor arguments (timeouts, paths, buffer sizes, addresses, argv/env strings, ids) that make
//! tiny-std itself fail, or take an unusual path, possibly after it already holds a descriptor.
//! No system call needs to fail for these returns to be reached; the oracle is the usual one.
//!
//! Families (plan scenario field = family id + 1000 * param):
//!   arg_path      param = op * 32 + path kind          (PATH_OPS x PATH_KINDS, minus combinations that would
//!                                                        damage the machine: remove_dir_all("/") ...)
//!   arg_timeout   param = context * 16 + timeout index (every *_with_timeout / poll based call, epoll wait)
//!   arg_openopts  param = six OpenOptions booleans + 64 * (target exists)
//!   arg_peer      param = op * 16 + peer kind          (accept flavours / getsockname x raw-libc peers bound to
//!                                                        unnamed, autobind, abstract and 1/107/108 byte path addresses)
//!   arg_misc      param = index into MISC (buffers, counts, addresses, argv/env, uid/gid/pgroup, epoll, io_uring)
//! `fd_probe variants` lists "<family id> <param> <operation> <label>" for every valid combination.
use super::*;

// ------------------------------------------------------------------------------------------------ paths

pub const PATH_KINDS: &[&str] = &[
    "empty",
    "over_path_max",
    "long_component",
    "over_sun_path",
    "len108",
    "len107",
    "rel_missing",
    "rel_file",
    "dot",
    "root",
    "file_trailing_slash",
    "dir",
    "file",
    "missing_in_missing",
    "non_ascii",
    "interior_nul",
    "dangling_symlink",
    "symlink_loop",
    "through_file",
    "stale_socket",
    "live_socket",
    "dev_null",
    "creatable",
    "badexec",
    "double_slashes",
];

pub const PATH_OPS: &[&str] = &[
    "file_open",
    "openopts_create_write",
    "fs_read",
    "fs_read_to_string",
    "fs_write",
    "copy_file_src",
    "copy_file_dst",
    "file_copy_dst",
    "fs_metadata_exists",
    "dir_open_read",
    "create_dir_all",
    "create_dir",
    "remove_dir_all",
    "remove_dir",
    "remove_file",
    "rename_dst",
    "unix_connect",
    "unix_try_connect",
    "unix_bind",
    "spawn_program",
    "spawn_cwd",
    "openpty_name",
];
pub const PATH_NPARAMS: i64 = 32 * PATH_OPS.len() as i64;

fn path_allowed(op: &str, kind: &str) -> bool {
    let destructive = matches!(op, "remove_dir_all" | "remove_dir" | "remove_file" | "rename_dst");
    // never point a destructive call at something outside the scratch directory
    !(destructive && matches!(kind, "root" | "dev_null"))
}

fn path_bytes(kind: &str, d: &str) -> Vec<u8> {
    let fill = |total: usize| {
        let mut s = format!("{d}/");
        while s.len() < total {
            s.push('S');
        }
        s.into_bytes()
    };
    match kind {
        "empty" => Vec::new(),
        "over_path_max" => format!("{d}/{}", "x".repeat(5000)).into_bytes(),
        "long_component" => format!("{d}/{}", "y".repeat(300)).into_bytes(),
        "over_sun_path" => fill(120),
        "len108" => fill(108),
        "len107" => fill(107),
        "rel_missing" => b"nodir/x".to_vec(),
        "rel_file" => b"f".to_vec(),
        "dot" => b".".to_vec(),
        "root" => b"/".to_vec(),
        "file_trailing_slash" => format!("{d}/f/").into_bytes(),
        "dir" => format!("{d}/sub").into_bytes(),
        "file" => format!("{d}/f").into_bytes(),
        "missing_in_missing" => format!("{d}/no/such").into_bytes(),
        "non_ascii" => {
            let mut b = format!("{d}/p-").into_bytes();
            b.extend_from_slice("sökväg".as_bytes());
            b
        }
        "interior_nul" => {
            let mut b = format!("{d}/a").into_bytes();
            b.push(0);
            b.extend_from_slice(b"b");
            b
        }
        "dangling_symlink" => format!("{d}/dangling").into_bytes(),
        "symlink_loop" => format!("{d}/loop").into_bytes(),
        "through_file" => format!("{d}/f/x").into_bytes(),
        "stale_socket" => format!("{d}/stale.sock").into_bytes(),
        "live_socket" => format!("{d}/live.sock").into_bytes(),
        "dev_null" => b"/dev/null".to_vec(),
        "creatable" => format!("{d}/new").into_bytes(),
        "badexec" => format!("{d}/badexec").into_bytes(),
        _ => format!("{d}//sub///g").into_bytes(),
    }
}

fn pipes3(cmd: &mut Command) {
    cmd.stdin(Stdio::MakePipe).stdout(Stdio::MakePipe).stderr(Stdio::MakePipe);
}

pub fn s_arg_path(cx: &mut Cx) {
    use std::os::unix::fs::PermissionsExt as _;
    let (Some(op), Some(kind)) = (
        PATH_OPS.get((cx.param / 32) as usize).copied(),
        PATH_KINDS.get((cx.param % 32) as usize).copied(),
    ) else {
        cx.skip(9);
        return;
    };
    if !path_allowed(op, kind) {
        cx.skip(9);
        return;
    }
    let d = cx.fresh_dir();
    std::fs::write(format!("{d}/f"), b"content of f\n").unwrap();
    std::fs::write(format!("{d}/rn"), b"to be renamed\n").unwrap();
    std::fs::create_dir_all(format!("{d}/sub")).unwrap();
    std::fs::write(format!("{d}/sub/g"), b"g\n").unwrap();
    let _ = std::os::unix::fs::symlink("nope", format!("{d}/dangling"));
    let _ = std::os::unix::fs::symlink("loop", format!("{d}/loop"));
    std::fs::write(format!("{d}/badexec"), b"\x01\x02 not a program\n").unwrap();
    let _ = std::fs::set_permissions(format!("{d}/badexec"), std::fs::Permissions::from_mode(0o755));
    drop(std::os::unix::net::UnixListener::bind(format!("{d}/stale.sock")));
    let live = std::os::unix::net::UnixListener::bind(format!("{d}/live.sock")).ok();
    // relative kinds resolve inside the scratch directory
    let _ = std::env::set_current_dir(&d);
    let bytes = path_bytes(kind, &d);
    let mk = || UnixString::try_from_bytes(&bytes);
    let good_src = us(&format!("{d}/f"));
    let good_dst = us(&format!("{d}/copy-dst"));
    let rn = us(&format!("{d}/rn"));
    type R<T> = Result<T, tiny_std::Error>;
    match op {
        "file_open" => {
            cx.run(&[], || -> R<_> { File::open(&mk()?) }, no_raw);
        }
        "openopts_create_write" => {
            cx.run(
                &[],
                || -> R<_> {
                    let mut f = OpenOptions::new().write(true).create(true).truncate(true).open(&mk()?)?;
                    f.write_all(b"abc")?;
                    Ok(f)
                },
                no_raw,
            );
        }
        "fs_read" => {
            cx.run(&[], || -> R<_> { tfs::read(&mk()?) }, no_raw);
        }
        "fs_read_to_string" => {
            cx.run(&[], || -> R<_> { tfs::read_to_string(&mk()?) }, no_raw);
        }
        "fs_write" => {
            cx.run(&[], || -> R<_> { tfs::write(&mk()?, b"written") }, no_raw);
        }
        "copy_file_src" => {
            cx.run(&[], || -> R<_> { tfs::copy_file(&mk()?, &good_dst) }, no_raw);
        }
        "copy_file_dst" => {
            cx.run(&[], || -> R<_> { tfs::copy_file(&good_src, &mk()?) }, no_raw);
        }
        "file_copy_dst" => {
            let src = File::open(&good_src).expect("src");
            cx.run(&[], || -> R<_> { src.copy(&mk()?) }, no_raw);
            drop(src);
        }
        "fs_metadata_exists" => {
            cx.run(
                &[],
                || -> R<_> {
                    let p = mk()?;
                    let e = tfs::exists(&p)?;
                    let m = tfs::metadata(&p)?;
                    Ok((e, m.is_dir()))
                },
                no_raw,
            );
        }
        "dir_open_read" => {
            cx.run(
                &[],
                || -> R<_> {
                    let dir = Directory::open(&mk()?)?;
                    let mut n = 0usize;
                    for e in dir.read() {
                        let e = e?;
                        if n < 8 && !e.is_relative_reference() && e.file_type() == FileType::RegularFile {
                            drop(e.open_file());
                        }
                        n += 1;
                        if n > 200 {
                            break;
                        }
                    }
                    Ok((dir, n))
                },
                no_raw,
            );
        }
        "create_dir_all" => {
            cx.run(&[], || -> R<_> { tfs::create_dir_all(&mk()?) }, no_raw);
        }
        "create_dir" => {
            cx.run(&[], || -> R<_> { tfs::create_dir(&mk()?) }, no_raw);
        }
        "remove_dir_all" => {
            cx.run(&[], || -> R<_> { tfs::remove_dir_all(&mk()?) }, no_raw);
        }
        "remove_dir" => {
            cx.run(&[], || -> R<_> { tfs::remove_dir(&mk()?) }, no_raw);
        }
        "remove_file" => {
            cx.run(&[], || -> R<_> { tfs::remove_file(&mk()?) }, no_raw);
        }
        "rename_dst" => {
            cx.run(&[], || -> R<_> { tfs::rename(&rn, &mk()?) }, no_raw);
        }
        "unix_connect" => {
            cx.run(&[], || -> R<_> { UnixStream::connect(&mk()?) }, no_raw);
        }
        "unix_try_connect" => {
            cx.run(&[], || -> R<_> { UnixStream::try_connect(&mk()?) }, no_raw);
        }
        "unix_bind" => {
            cx.run(&[], || -> R<_> { UnixListener::bind(&mk()?) }, no_raw);
        }
        "spawn_program" => {
            cx.run(
                &[],
                || -> R<_> {
                    let p = mk()?;
                    let mut cmd = Command::new(&p)?;
                    pipes3(&mut cmd);
                    spawn_wait(&mut cmd)
                },
                no_raw,
            );
        }
        "spawn_cwd" => {
            cx.run(
                &[],
                || -> R<_> {
                    let p = mk()?;
                    let mut cmd = Command::new(TRUE_BIN)?;
                    pipes3(&mut cmd);
                    cmd.cwd(&p);
                    spawn_wait(&mut cmd)
                },
                no_raw,
            );
        }
        _ => {
            let ws = rusl::platform::WindowSize::new(24, 80, 0, 0);
            cx.run(
                &[],
                || -> R<_> {
                    let p = mk()?;
                    tiny_std::unix::misc::openpty::openpty(Some(&p), None, Some(&ws))
                },
                |h| [h.master.value(), h.slave.value(), -1, -1, -1, -1, -1, -1],
            );
        }
    }
    let _ = std::env::set_current_dir("/");
    drop(live);
}

// ------------------------------------------------------------------------------------------------ timeouts

/// (label, duration, "blocks practically forever when nothing is ready")
fn timeouts() -> [(&'static str, Duration, bool); 9] {
    [
        ("zero", Duration::ZERO, false),
        ("1ns", Duration::new(0, 1), false),
        ("2ms", Duration::from_millis(2), false),
        ("999999999ns", Duration::new(0, 999_999_999), true),
        ("u32max_secs", Duration::new(u64::from(u32::MAX), 0), true),
        ("i64max_secs", Duration::new(i64::MAX as u64, 0), true),
        ("i64max_secs_999999999ns", Duration::new(i64::MAX as u64, 999_999_999), true),
        // these two do not fit a kernel timespec: tiny-std must refuse them itself
        ("i64max_plus_1_secs", Duration::new(i64::MAX as u64 + 1, 0), false),
        ("Duration::MAX", Duration::MAX, false),
    ]
}

fn epoll_timeouts() -> [(&'static str, EpollTimeout, bool); 7] {
    [
        ("NoWait", EpollTimeout::NoWait, false),
        ("0ms", EpollTimeout::WaitMillis(0), false),
        ("1ms", EpollTimeout::WaitMillis(1), false),
        ("i32max_ms", EpollTimeout::WaitMillis(i32::MAX as u32), true),
        // larger than the kernel's int: refused by tiny-std itself while it holds the epoll descriptor
        ("i32max_plus_1_ms", EpollTimeout::WaitMillis(i32::MAX as u32 + 1), false),
        ("u32max_ms", EpollTimeout::WaitMillis(u32::MAX), false),
        ("WaitForever", EpollTimeout::WaitForever, true),
    ]
}

/// (operation, context, "something is ready, so a long timeout returns at once")
pub const TIMEOUT_CTX: &[(&str, &str, bool)] = &[
    ("unix_accept_with_timeout", "pending", true),
    ("unix_accept_with_timeout", "none", false),
    ("tcp_accept_with_timeout", "pending", true),
    ("tcp_accept_with_timeout", "none", false),
    ("tcp_connect_with_timeout", "listening", true),
    ("tcp_connect_with_timeout", "refused", true),
    ("tcp_read_with_timeout", "data", true),
    ("tcp_read_with_timeout", "nodata", false),
    ("tcp_read_with_timeout", "peer_closed", true),
    ("epoll_wait", "ready", true),
    ("epoll_wait", "idle", false),
];
pub const TIMEOUT_NPARAMS: i64 = 16 * TIMEOUT_CTX.len() as i64;

fn timeout_label(param: i64) -> Option<(&'static str, String)> {
    let (op, ctx, ready) = *TIMEOUT_CTX.get((param / 16) as usize)?;
    let t = (param % 16) as usize;
    let (tl, long) = if op == "epoll_wait" {
        let e = epoll_timeouts();
        let x = e.get(t)?;
        (x.0, x.2)
    } else {
        let e = timeouts();
        let x = e.get(t)?;
        (x.0, x.2)
    };
    if long && !ready {
        return None;
    }
    Some((op, format!("{ctx},{tl}")))
}

pub fn s_arg_timeout(cx: &mut Cx) {
    if timeout_label(cx.param).is_none() {
        cx.skip(9);
        return;
    }
    let (op, ctx, _) = TIMEOUT_CTX[(cx.param / 16) as usize];
    let t = (cx.param % 16) as usize;
    match op {
        "unix_accept_with_timeout" => {
            let to = timeouts()[t].1;
            let Some((mut l, c)) = unix_listener_with_client(cx, ctx == "pending") else { return };
            cx.run(&[], || l.accept_with_timeout(to), no_raw);
            drop(c);
        }
        "tcp_accept_with_timeout" => {
            let to = timeouts()[t].1;
            let Some((mut l, _a, c)) = tcp_listener_with_client(cx, ctx == "pending") else { return };
            cx.run(&[], || l.accept_with_timeout(to), no_raw);
            drop(c);
        }
        "tcp_connect_with_timeout" => {
            let to = timeouts()[t].1;
            if ctx == "listening" {
                let Some((l, a, _c)) = tcp_listener_with_client(cx, false) else { return };
                cx.run(&[], || TcpStream::connect_with_timeout(&a, to), no_raw);
                drop(l);
            } else {
                let l = std::net::TcpListener::bind("127.0.0.1:0").expect("std tcp listener");
                let port = l.local_addr().unwrap().port();
                drop(l);
                cx.run(&[], || TcpStream::connect_with_timeout(&SocketAddress::new(LO, port), to), no_raw);
            }
        }
        "tcp_read_with_timeout" => {
            let to = timeouts()[t].1;
            let Some((mut l, _a, c)) = tcp_listener_with_client(cx, true) else { return };
            let Ok(mut s) = l.accept() else {
                cx.skip(6);
                return;
            };
            let mut c = c;
            match ctx {
                "data" => {
                    let _ = c.as_mut().map(|c| c.write_all(b"ping"));
                    std::thread::sleep(Duration::from_millis(1));
                }
                "peer_closed" => drop(c.take()),
                _ => {}
            }
            let mut buf = [0u8; 8];
            // the stream is in the baseline: the call must not close it either
            cx.run(&[], || s.read_with_timeout(&mut buf, to), no_raw);
            drop((s, c));
        }
        _ => {
            let to = epoll_timeouts()[t].1;
            let (r, w) = std::io::pipe().expect("pipe");
            let rfd = fd_of(r.as_raw_fd());
            let mut w = w;
            if ctx == "ready" {
                let _ = w.write_all(b"x");
            }
            cx.run(
                &[],
                || {
                    let drv = EpollDriver::create(true)?;
                    drv.register(rfd, 7, EpollEventMask::EPOLLIN)?;
                    let mut evs = [EpollEvent::new(0, EpollEventMask::empty()); 4];
                    let n = drv.wait(&mut evs, to)?;
                    Ok::<_, tiny_std::Error>((drv, n))
                },
                no_raw,
            );
            drop((r, w));
        }
    }
}

// ------------------------------------------------------------------------------------------------ OpenOptions

pub const OPENOPTS_NPARAMS: i64 = 128;

fn openopts_label(param: i64) -> String {
    let b = |i: i64| (param >> i) & 1;
    format!(
        "r{}w{}a{}t{}c{}n{},{}",
        b(0),
        b(1),
        b(2),
        b(3),
        b(4),
        b(5),
        if param & 64 != 0 { "exists" } else { "missing" }
    )
}

pub fn s_arg_openopts(cx: &mut Cx) {
    let p = cx.param;
    let d = cx.fresh_dir();
    if p & 64 != 0 {
        std::fs::write(format!("{d}/t"), b"already here\n").unwrap();
    }
    let path = us(&format!("{d}/t"));
    let b = |i: i64| (p >> i) & 1 != 0;
    cx.run(
        &[],
        || {
            let mut f = OpenOptions::new()
                .read(b(0))
                .write(b(1))
                .append(b(2))
                .truncate(b(3))
                .create(b(4))
                .create_new(b(5))
                .open(&path)?;
            // use it both ways: one of the two fails on a one-way handle, with the file held
            let mut buf = [0u8; 4];
            let r = f.read(&mut buf);
            f.write_all(b"zz")?;
            r?;
            Ok::<_, tiny_std::Error>(f)
        },
        no_raw,
    );
}

// ------------------------------------------------------------------------------------------------ misc

type Misc = (&'static str, &'static str, fn(&mut Cx));

fn with_file(cx: &mut Cx, content: &[u8]) -> UnixString {
    let d = cx.fresh_dir();
    std::fs::write(format!("{d}/f"), content).unwrap();
    us(&format!("{d}/f"))
}

fn m_read_empty_buf(cx: &mut Cx) {
    let p = with_file(cx, b"hello");
    cx.run(
        &[],
        || {
            let mut f = File::open(&p)?;
            let n = f.read(&mut [])?;
            Ok::<_, tiny_std::Error>((f, n))
        },
        no_raw,
    );
}
fn m_read_exact_short(cx: &mut Cx) {
    let p = with_file(cx, b"hello");
    cx.run(
        &[],
        || {
            let mut f = File::open(&p)?;
            let mut b = [0u8; 100];
            f.read_exact(&mut b)?;
            Ok::<_, tiny_std::Error>(f)
        },
        no_raw,
    );
}
fn m_write_empty(cx: &mut Cx) {
    let d = cx.fresh_dir();
    let p = us(&format!("{d}/o"));
    cx.run(&[], || tfs::write(&p, b""), no_raw);
}
fn m_read_to_string_huge(cx: &mut Cx) {
    let p = with_file(cx, &vec![b'a'; 3 << 20]);
    cx.run(&[], || tfs::read_to_string(&p).map(|s| s.len()), no_raw);
}
fn getpw(cx: &mut Cx, uid: u32, len: usize) {
    let mut buf = vec![0u8; len];
    cx.run(
        &[],
        || tiny_std::unix::passwd::getpw_r::getpwuid_r(uid, &mut buf).map(|o| o.map(|p| p.uid)),
        no_raw,
    );
}
fn m_getpw_buf0(cx: &mut Cx) {
    getpw(cx, 0, 0);
}
fn m_getpw_buf1(cx: &mut Cx) {
    getpw(cx, 0, 1);
}
fn m_getpw_buf16(cx: &mut Cx) {
    getpw(cx, 0, 16);
}
fn m_getpw_buf_huge(cx: &mut Cx) {
    getpw(cx, 0, 1 << 20);
}
fn m_getpw_nobody_small(cx: &mut Cx) {
    getpw(cx, 65534, 64);
}
fn m_random_empty(cx: &mut Cx) {
    cx.run(&[], || tiny_std::unix::random::system_random(&mut []), no_raw);
}
fn m_random_large(cx: &mut Cx) {
    let mut b = vec![0u8; 1 << 16];
    cx.run(&[], || tiny_std::unix::random::system_random(&mut b), no_raw);
}

fn epoll_case(cx: &mut Cx, what: u8) {
    let (r, w) = std::io::pipe().expect("pipe");
    let rfd = fd_of(r.as_raw_fd());
    let f = std::fs::File::open("/etc/passwd").expect("passwd");
    let ffd = fd_of(f.as_raw_fd());
    cx.run(
        &[],
        || {
            let drv = EpollDriver::create(true)?;
            let mut evs = [EpollEvent::new(0, EpollEventMask::empty()); 2];
            match what {
                0 => {
                    drv.wait(&mut [], EpollTimeout::NoWait)?;
                }
                1 => drv.register(fd_of(9_999), 1, EpollEventMask::EPOLLIN)?,
                2 => {
                    drv.register(rfd, 1, EpollEventMask::EPOLLIN)?;
                    drv.register(rfd, 2, EpollEventMask::EPOLLIN)?;
                }
                3 => drv.unregister(rfd)?,
                4 => drv.modify(rfd, 1, EpollEventMask::EPOLLIN)?,
                5 => drv.register(ffd, 1, EpollEventMask::EPOLLIN)?,
                _ => {
                    drv.register(rfd, u64::MAX, EpollEventMask::empty())?;
                    drv.wait(&mut evs, EpollTimeout::NoWait)?;
                }
            }
            Ok::<_, tiny_std::Error>(drv)
        },
        no_raw,
    );
    drop((r, w, f));
}
fn m_epoll_empty_events(cx: &mut Cx) {
    epoll_case(cx, 0);
}
fn m_epoll_bad_fd(cx: &mut Cx) {
    epoll_case(cx, 1);
}
fn m_epoll_twice(cx: &mut Cx) {
    epoll_case(cx, 2);
}
fn m_epoll_unregister_unknown(cx: &mut Cx) {
    epoll_case(cx, 3);
}
fn m_epoll_modify_unknown(cx: &mut Cx) {
    epoll_case(cx, 4);
}
fn m_epoll_regular_file(cx: &mut Cx) {
    epoll_case(cx, 5);
}
fn m_epoll_empty_mask(cx: &mut Cx) {
    epoll_case(cx, 6);
}

fn uring(cx: &mut Cx, entries: u32, flags: u32, cpu: u32) {
    // no public constructor from raw bits: the flags type is a transparent wrapper around u32
    let fl = unsafe { core::mem::transmute::<u32, rusl::platform::IoUringParamFlags>(flags) };
    cx.run(&[], || rusl::io_uring::setup_io_uring(entries, fl, cpu, 0), no_raw);
}
fn m_uring_1(cx: &mut Cx) {
    uring(cx, 1, 0, 0);
}
fn m_uring_3(cx: &mut Cx) {
    uring(cx, 3, 0, 0);
}
fn m_uring_4096(cx: &mut Cx) {
    uring(cx, 4096, 0, 0);
}
fn m_uring_32768(cx: &mut Cx) {
    uring(cx, 32768, 0, 0);
}
fn m_uring_32769(cx: &mut Cx) {
    uring(cx, 32769, 0, 0);
}
fn m_uring_u32max(cx: &mut Cx) {
    uring(cx, u32::MAX, 0, 0);
}
fn m_uring_bad_flags(cx: &mut Cx) {
    uring(cx, 8, 0x8000_0000, 0);
}
fn m_uring_cqsize_flag(cx: &mut Cx) {
    uring(cx, 8, 1 << 3, 0);
}
fn m_uring_sqpoll_bad_cpu(cx: &mut Cx) {
    uring(cx, 8, (1 << 1) | (1 << 2), 99_999);
}
fn m_uring_sqe128_cqe32(cx: &mut Cx) {
    uring(cx, 8, (1 << 10) | (1 << 11), 0);
}

fn tcp_addr_case(cx: &mut Cx, ip: [u8; 4], port: u16, how: u8) {
    let a = SocketAddress::new(Ip::V4(ip), port);
    match how {
        0 => {
            cx.run(&[], || TcpStream::connect_with_timeout(&a, Duration::from_millis(20)), no_raw);
        }
        1 => {
            cx.run(
                &[],
                || match TcpStream::try_connect(&a)? {
                    TcpTryConnect::Connected(c) => Ok::<_, tiny_std::Error>(Some(c)),
                    TcpTryConnect::InProgress(p) => match p.try_connect()? {
                        TcpTryConnect::Connected(c) => Ok(Some(c)),
                        TcpTryConnect::InProgress(_p) => Ok(None),
                    },
                },
                no_raw,
            );
        }
        _ => {
            cx.run(&[], || TcpListener::bind(&a), no_raw);
        }
    }
}
fn m_tcp_connect_port0(cx: &mut Cx) {
    tcp_addr_case(cx, [127, 0, 0, 1], 0, 0);
}
fn m_tcp_try_connect_port0(cx: &mut Cx) {
    tcp_addr_case(cx, [127, 0, 0, 1], 0, 1);
}
fn m_tcp_connect_any(cx: &mut Cx) {
    tcp_addr_case(cx, [0, 0, 0, 0], 9, 0);
}
fn m_tcp_connect_broadcast(cx: &mut Cx) {
    tcp_addr_case(cx, [255, 255, 255, 255], 80, 0);
}
fn m_tcp_try_connect_broadcast(cx: &mut Cx) {
    tcp_addr_case(cx, [255, 255, 255, 255], 80, 1);
}
fn m_tcp_connect_unroutable(cx: &mut Cx) {
    tcp_addr_case(cx, [192, 0, 2, 1], 80, 0);
}
fn m_tcp_try_connect_unroutable(cx: &mut Cx) {
    tcp_addr_case(cx, [192, 0, 2, 1], 80, 1);
}
fn m_tcp_connect_reserved(cx: &mut Cx) {
    tcp_addr_case(cx, [240, 0, 0, 1], 80, 0);
}
fn m_tcp_connect_multicast(cx: &mut Cx) {
    tcp_addr_case(cx, [224, 0, 0, 1], 80, 0);
}
fn m_tcp_bind_nonlocal(cx: &mut Cx) {
    tcp_addr_case(cx, [192, 0, 2, 1], 0, 2);
}
fn m_tcp_bind_broadcast(cx: &mut Cx) {
    tcp_addr_case(cx, [255, 255, 255, 255], 0, 2);
}
fn m_tcp_bind_multicast(cx: &mut Cx) {
    tcp_addr_case(cx, [224, 0, 0, 1], 0, 2);
}
fn m_tcp_bind_any(cx: &mut Cx) {
    tcp_addr_case(cx, [0, 0, 0, 0], 0, 2);
}

fn spawn_case(cx: &mut Cx, conf: impl FnOnce(&mut Command<'_>)) {
    cx.run(
        &[],
        || {
            let mut cmd = Command::new(TRUE_BIN)?;
            pipes3(&mut cmd);
            conf(&mut cmd);
            spawn_wait(&mut cmd)
        },
        no_raw,
    );
}
fn m_spawn_arg_nul(cx: &mut Cx) {
    // the conversion is the caller's first step: it fails before anything is opened
    cx.run(
        &[],
        || {
            let arg = UnixString::try_from_bytes(b"a\0b")?;
            let mut cmd = Command::new(TRUE_BIN)?;
            pipes3(&mut cmd);
            cmd.arg(&arg);
            spawn_wait(&mut cmd)
        },
        no_raw,
    );
}
fn m_spawn_env_nul(cx: &mut Cx) {
    cx.run(
        &[],
        || {
            let mut cmd = Command::new(TRUE_BIN)?;
            pipes3(&mut cmd);
            cmd.env(UnixString::try_from_bytes(b"A=1\0B=2")?);
            spawn_wait(&mut cmd)
        },
        no_raw,
    );
}
fn m_spawn_env_no_eq(cx: &mut Cx) {
    spawn_case(cx, |c| {
        c.env(us("NOEQUALS")).env(us("")).env(us("=x"));
    });
}
fn m_spawn_many_args(cx: &mut Cx) {
    let arg = us("x");
    let argr: &UnixStr = &arg;
    cx.run(
        &[],
        || {
            let mut cmd = Command::new(TRUE_BIN)?;
            pipes3(&mut cmd);
            for _ in 0..3000 {
                cmd.arg(argr);
            }
            spawn_wait(&mut cmd)
        },
        no_raw,
    );
}
fn m_spawn_huge_arg(cx: &mut Cx) {
    // larger than MAX_ARG_STRLEN: execve fails with E2BIG in the child, after the pipes exist
    let arg = us(&"h".repeat(200_000));
    let argr: &UnixStr = &arg;
    cx.run(
        &[],
        || {
            let mut cmd = Command::new(TRUE_BIN)?;
            pipes3(&mut cmd);
            cmd.arg(argr);
            spawn_wait(&mut cmd)
        },
        no_raw,
    );
}
fn m_spawn_uid_max(cx: &mut Cx) {
    spawn_case(cx, |c| {
        c.uid(u32::MAX);
    });
}
fn m_spawn_uid_nobody(cx: &mut Cx) {
    spawn_case(cx, |c| {
        c.uid(65_534);
    });
}
fn m_spawn_gid_max(cx: &mut Cx) {
    spawn_case(cx, |c| {
        c.gid(u32::MAX);
    });
}
fn m_spawn_gid_nobody_uid_nobody(cx: &mut Cx) {
    spawn_case(cx, |c| {
        c.gid(65_534).uid(65_534);
    });
}
fn m_spawn_pgroup_bad(cx: &mut Cx) {
    spawn_case(cx, |c| {
        c.pgroup(i32::MAX);
    });
}
fn m_spawn_pgroup_negative(cx: &mut Cx) {
    spawn_case(cx, |c| {
        c.pgroup(-1);
    });
}
fn m_spawn_pgroup_zero(cx: &mut Cx) {
    spawn_case(cx, |c| {
        c.pgroup(0);
    });
}
fn m_spawn_pre_exec_err(cx: &mut Cx) {
    spawn_case(cx, |c| unsafe {
        c.pre_exec(|| Err(tiny_std::Error::Uncategorized("pre_exec says no")));
    });
}

fn m_pipe2_bad_flags(cx: &mut Cx) {
    cx.run(
        &[],
        || rusl::unistd::pipe2(OpenFlags::O_APPEND | OpenFlags::O_CREAT),
        |p| [p.in_pipe.value(), p.out_pipe.value(), -1, -1, -1, -1, -1, -1],
    );
}
fn m_open_directory_flag_on_file(cx: &mut Cx) {
    let p = with_file(cx, b"x");
    cx.run(
        &[],
        || rusl::unistd::open(&p, OpenFlags::O_RDONLY | OpenFlags::O_DIRECTORY),
        |f| [f.value(), -1, -1, -1, -1, -1, -1, -1],
    );
}
fn m_open_tmpfile(cx: &mut Cx) {
    let d = cx.fresh_dir();
    let p = us(&d);
    cx.run(
        &[],
        || rusl::unistd::open_mode(&p, OpenFlags::O_TMPFILE | OpenFlags::O_RDWR, tfs::Mode::from(0o600)),
        |f| [f.value(), -1, -1, -1, -1, -1, -1, -1],
    );
}
fn m_unix_io_empty(cx: &mut Cx) {
    let d = cx.fresh_dir();
    let path = format!("{d}/s");
    let Ok(mut l) = UnixListener::bind(&us(&path)) else {
        cx.skip(1);
        return;
    };
    let p = us(&path);
    cx.run(
        &[],
        || {
            let mut c = UnixStream::connect(&p)?;
            let mut s = l.accept()?;
            let a = c.write(&[])?;
            c.write_all(b"q")?;
            let b = s.read(&mut [])?;
            Ok::<_, tiny_std::Error>((c, s, a, b))
        },
        no_raw,
    );
}
fn m_tcp_io_large_write(cx: &mut Cx) {
    let Some((mut l, a, _c)) = tcp_listener_with_client(cx, false) else { return };
    let big = vec![7u8; 4 << 20];
    cx.run(
        &[],
        || {
            let mut c = TcpStream::connect(&a)?;
            let s = l.accept()?;
            // one call: a partial write, never a blocking loop
            let n = c.write(&big)?;
            Ok::<_, tiny_std::Error>((c, s, n))
        },
        no_raw,
    );
}
fn m_sendmsg_closed_fd(cx: &mut Cx) {
    let mut sv = [-1i32; 2];
    if unsafe { socketpair(1, 1 | 0o2_000_000, 0, sv.as_mut_ptr()) } != 0 {
        cx.skip(5);
        return;
    }
    let fds = [fd_of(9_998), fd_of(9_999)];
    let (tx, rx) = (fd_of(sv[0]), fd_of(sv[1]));
    let mut ctrl = Aligned([0; 256]);
    let mut data = [0u8; 16];
    cx.run(
        &[],
        || {
            let io_out = [IoSlice::new(b"")];
            let snd = MsgHdrBorrow::create_send(None, &io_out, Some(ControlMessageSend::ScmRights(&fds)));
            let r = rusl::network::sendmsg(tx, &snd, 0);
            // nothing was sent: a non-blocking receive must report nothing either
            let mut io = [IoSliceMut::new(&mut data)];
            let mut hdr = MsgHdrBorrow::create_recv(&mut io, Some(&mut ctrl.0[..64]));
            let _ = rusl::network::recvmsg(rx, &mut hdr, 0x40);
            let got = reported_fds(&hdr);
            r.map(|_| got)
        },
        |g| *g,
    );
    unsafe {
        close(sv[0]);
        close(sv[1]);
    }
}

pub const MISC: &[Misc] = &[
    ("file_read", "empty_buffer", m_read_empty_buf),
    ("file_read_exact", "longer_than_file", m_read_exact_short),
    ("fs_write", "empty_data", m_write_empty),
    ("fs_read_to_string", "3MiB", m_read_to_string_huge),
    ("getpwuid_r", "buffer_0", m_getpw_buf0),
    ("getpwuid_r", "buffer_1", m_getpw_buf1),
    ("getpwuid_r", "buffer_16", m_getpw_buf16),
    ("getpwuid_r", "buffer_1MiB", m_getpw_buf_huge),
    ("getpwuid_r", "uid_nobody_buffer_64", m_getpw_nobody_small),
    ("system_random", "empty_buffer", m_random_empty),
    ("system_random", "64KiB", m_random_large),
    ("epoll", "wait_empty_event_buffer", m_epoll_empty_events),
    ("epoll", "register_closed_fd", m_epoll_bad_fd),
    ("epoll", "register_twice", m_epoll_twice),
    ("epoll", "unregister_unknown", m_epoll_unregister_unknown),
    ("epoll", "modify_unknown", m_epoll_modify_unknown),
    ("epoll", "register_regular_file", m_epoll_regular_file),
    ("epoll", "empty_mask_max_id", m_epoll_empty_mask),
    ("io_uring", "entries_1", m_uring_1),
    ("io_uring", "entries_3", m_uring_3),
    ("io_uring", "entries_4096", m_uring_4096),
    ("io_uring", "entries_32768", m_uring_32768),
    ("io_uring", "entries_32769", m_uring_32769),
    ("io_uring", "entries_u32max", m_uring_u32max),
    ("io_uring", "unknown_flag", m_uring_bad_flags),
    ("io_uring", "cqsize_flag_without_size", m_uring_cqsize_flag),
    ("io_uring", "sqpoll_affinity_bad_cpu", m_uring_sqpoll_bad_cpu),
    ("io_uring", "sqe128_cqe32", m_uring_sqe128_cqe32),
    ("tcp_connect_with_timeout", "port_0", m_tcp_connect_port0),
    ("tcp_try_connect", "port_0", m_tcp_try_connect_port0),
    ("tcp_connect_with_timeout", "addr_any", m_tcp_connect_any),
    ("tcp_connect_with_timeout", "broadcast", m_tcp_connect_broadcast),
    ("tcp_try_connect", "broadcast", m_tcp_try_connect_broadcast),
    ("tcp_connect_with_timeout", "unroutable", m_tcp_connect_unroutable),
    ("tcp_try_connect", "unroutable", m_tcp_try_connect_unroutable),
    ("tcp_connect_with_timeout", "reserved_class_e", m_tcp_connect_reserved),
    ("tcp_connect_with_timeout", "multicast", m_tcp_connect_multicast),
    ("tcp_bind", "non_local_address", m_tcp_bind_nonlocal),
    ("tcp_bind", "broadcast", m_tcp_bind_broadcast),
    ("tcp_bind", "multicast", m_tcp_bind_multicast),
    ("tcp_bind", "addr_any", m_tcp_bind_any),
    ("spawn", "arg_interior_nul", m_spawn_arg_nul),
    ("spawn", "env_interior_nul", m_spawn_env_nul),
    ("spawn", "env_without_equals", m_spawn_env_no_eq),
    ("spawn", "3000_args", m_spawn_many_args),
    ("spawn", "arg_200000_bytes", m_spawn_huge_arg),
    ("spawn", "uid_u32max", m_spawn_uid_max),
    ("spawn", "uid_nobody", m_spawn_uid_nobody),
    ("spawn", "gid_u32max", m_spawn_gid_max),
    ("spawn", "gid_uid_nobody", m_spawn_gid_nobody_uid_nobody),
    ("spawn", "pgroup_i32max", m_spawn_pgroup_bad),
    ("spawn", "pgroup_negative", m_spawn_pgroup_negative),
    ("spawn", "pgroup_zero", m_spawn_pgroup_zero),
    ("spawn", "pre_exec_returns_err", m_spawn_pre_exec_err),
    ("rusl_pipe2", "invalid_flags", m_pipe2_bad_flags),
    ("rusl_open", "o_directory_on_file", m_open_directory_flag_on_file),
    ("rusl_open", "o_tmpfile", m_open_tmpfile),
    ("unix_stream_io", "empty_write_and_read", m_unix_io_empty),
    ("tcp_stream_io", "4MiB_single_write", m_tcp_io_large_write),
    ("sendmsg_scm_rights", "closed_descriptors", m_sendmsg_closed_fd),
];

pub fn s_arg_misc(cx: &mut Cx) {
    match MISC.get(cx.param as usize) {
        Some((_, _, f)) => f(cx),
        None => cx.skip(9),
    }
}

// ------------------------------------------------------------------------------------------------ unusual peers

/// Peers written with raw libc calls (not rusl), bound to addresses rusl itself never produces; the kernel
/// writes them into the address buffer of accept4 / getsockname.
pub const PEER_KINDS: &[&str] = &[
    "unnamed",
    "autobind",
    "abstract_1",
    "abstract_5",
    "abstract_50",
    "abstract_107_full",
    "path_1",
    "path_50",
    "path_107",
    "path_108_no_nul",
];
pub const PEER_OPS: &[&str] = &[
    "unix_accept",
    "unix_accept_with_timeout",
    "unix_try_accept",
    "rusl_accept_unix",
    "rusl_get_unix_sock_name",
];
pub const PEER_NPARAMS: i64 = 16 * PEER_OPS.len() as i64;

/// (sockaddr_un bytes, address length handed to bind); length 0 = do not bind
/// `salt` varies the name bytes: abstract names live in one namespace shared by all probe processes
fn peer_addr(kind: &str, salt: u64) -> ([u8; 110], u32) {
    let mut a = [0u8; 110];
    a[0] = 1; // AF_UNIX, little endian u16
    let fill = |a: &mut [u8; 110], from: usize, n: usize| {
        let mut x = salt.wrapping_mul(0x9E37_79B9_7F4A_7C15) | 1;
        for b in &mut a[from..from + n] {
            x ^= x << 13;
            x ^= x >> 7;
            x ^= x << 17;
            *b = b'!' + (x % 90) as u8;
        }
    };
    let len = match kind {
        "unnamed" => 0,
        "autobind" => 2,
        "abstract_1" => {
            fill(&mut a, 3, 1);
            2 + 1 + 1
        }
        "abstract_5" => {
            fill(&mut a, 3, 5);
            2 + 1 + 5
        }
        "abstract_50" => {
            fill(&mut a, 3, 50);
            2 + 1 + 50
        }
        "abstract_107_full" => {
            fill(&mut a, 3, 107);
            110
        }
        "path_1" => {
            fill(&mut a, 2, 1);
            2 + 1 + 1
        }
        "path_50" => {
            fill(&mut a, 2, 50);
            2 + 50 + 1
        }
        "path_107" => {
            fill(&mut a, 2, 107);
            110
        }
        _ => {
            // sun_path filled completely, no terminator: the kernel reports a length of 111 for this peer
            fill(&mut a, 2, 108);
            110
        }
    };
    (a, len)
}

pub fn s_arg_peer(cx: &mut Cx) {
    let (Some(op), Some(kind)) = (
        PEER_OPS.get((cx.param / 16) as usize).copied(),
        PEER_KINDS.get((cx.param % 16) as usize).copied(),
    ) else {
        cx.skip(9);
        return;
    };
    let d = cx.fresh_dir();
    // path peers bind relative names inside the scratch directory (a 108 byte absolute path would not fit)
    let _ = std::env::set_current_dir(&d);
    let Ok(mut l) = UnixListener::bind(&us("srv")) else {
        cx.skip(1);
        let _ = std::env::set_current_dir("/");
        return;
    };
    let lfd = {
        const _: () = assert!(core::mem::size_of::<UnixListener>() == 4);
        unsafe { *(core::ptr::from_ref(&l).cast::<i32>()) }
    };
    let mut srv = [0u8; 110];
    srv[0] = 1;
    srv[2..5].copy_from_slice(b"srv");
    let c = unsafe { socket(1, 1 | 0o2_000_000, 0) };
    // a short abstract name may be taken by another probe process at this moment: try other bytes
    let mut bound = false;
    for attempt in 0..40u64 {
        let salt = (cx.pid as u64) << 20 ^ cx.serial << 8 ^ attempt;
        let (addr, alen) = peer_addr(kind, salt);
        if alen == 0 || unsafe { bind(c, addr.as_ptr(), alen) } == 0 {
            bound = true;
            break;
        }
    }
    let ok = c >= 0 && bound && unsafe { connect(c, srv.as_ptr(), 6) } == 0;
    if !ok {
        cx.skip(7);
        unsafe {
            close(c);
        }
        let _ = std::env::set_current_dir("/");
        return;
    }
    match op {
        "unix_accept" => {
            cx.run(&[], || l.accept(), no_raw);
        }
        "unix_accept_with_timeout" => {
            cx.run(&[], || l.accept_with_timeout(Duration::from_millis(50)), no_raw);
        }
        "unix_try_accept" => {
            cx.run(&[], || l.try_accept(), no_raw);
        }
        "rusl_accept_unix" => {
            cx.run(
                &[],
                || rusl::network::accept_unix(fd_of(lfd), SocketFlags::SOCK_CLOEXEC).map(|(fd, _peer)| fd),
                |f| [f.value(), -1, -1, -1, -1, -1, -1, -1],
            );
        }
        _ => {
            // reads the kernel-written address of the unusually bound socket itself; creates nothing
            cx.run(&[], || rusl::network::get_unix_sock_name(fd_of(c)).map(|_| ()), no_raw);
        }
    }
    unsafe {
        close(c);
    }
    drop(l);
    let _ = std::env::set_current_dir("/");
}

/// `fd_probe variants`: "<family name> <param> <operation> <label>" for every valid combination
pub fn print_variants() {
    for p in 0..PATH_NPARAMS {
        if let (Some(op), Some(kind)) = (PATH_OPS.get((p / 32) as usize), PATH_KINDS.get((p % 32) as usize)) {
            if path_allowed(op, kind) {
                println!("arg_path {p} {op} {kind}");
            }
        }
    }
    for p in 0..TIMEOUT_NPARAMS {
        if let Some((op, l)) = timeout_label(p) {
            println!("arg_timeout {p} {op} {l}");
        }
    }
    for p in 0..OPENOPTS_NPARAMS {
        println!("arg_openopts {p} openopts {}", openopts_label(p));
    }
    for (p, (op, l, _)) in MISC.iter().enumerate() {
        println!("arg_misc {p} {op} {l}");
    }
    for p in 0..PEER_NPARAMS {
        if let (Some(op), Some(kind)) = (PEER_OPS.get((p / 16) as usize), PEER_KINDS.get((p % 16) as usize)) {
            println!("arg_peer {p} {op} peer_{kind}");
        }
    }
}
