//! fd_probe — C12 tracee: runs descriptor-creating tiny-std / rusl operations inside BEGIN..END windows
//! under sysmon, one window per case, with the baseline descriptor table re-taken per case.
//!
//! usage: fd_probe list                       -> "<id> <name> <number of parameter values>" per scenario
//!                                               (plan scenario field = id + 1000 * parameter)
//!        fd_probe variants                   -> "<family> <param> <operation> <label>" for the argument-domain families
//!        fd_probe batch <plan> <scratch>     -> plan lines: `<scenario id> <case id> <scope> <nr> <k> <ret> [<count> [<scope2> <nr2> <k2> <ret2> [<low mask>]]]`
//!                                               (scope -1: no injection)
//!
//! Per case (see `Cx::run`):
//!   set-up (outside the window)            temp files, peers, listeners; everything stays open across the window
//!   SNAPFD(1)                              baseline = /proc/<pid>/fd
//!   REPORT(10, fd)                         for every descriptor passed in for consumption (Stdio::RawFd)
//!   BEGIN(scenario, case)  [INJECT]        the tracer fails the k-th call `nr` (of this process or of children forked later)
//!   <operation>                            only tiny-std / rusl code (plus allocator traffic)
//!   DISARM, REPORT(11, is_err, errno)      end of the operation's own system calls
//!   REPORT(12, fd) + close                 raw descriptors the operation handed over (openpty, pipe)
//!   drop(result)                           owned results (File, UnixStream, Child pipes, IoUring ...)
//!   END(scenario, case, is_err, errno)
//!   SNAPFD(2)                              must equal the baseline (minus consumed descriptors)
//!   close whatever the case leaked         (after it has been recorded) so that leaks do not pile up
//!   tear-down (outside the window)
#[path = "/verif/engines/sysmon/marker.rs"]
mod marker;
mod args;

use std::io::Write as _;
use std::os::fd::{AsRawFd as _, IntoRawFd as _};
use std::time::Duration;

use rusl::platform::{
    AddressFamily, ControlMessageSend, Fd, IoSlice, IoSliceMut, MsgHdrBorrow, OpenFlags, SocketAddressUnix,
    SocketFlags, SocketOptions, SocketType,
};
use tiny_std::fs::{self as tfs, Directory, File, FileType, OpenOptions};
use tiny_std::io::{Read as _, Write as _};
use tiny_std::linux::epoll::{EpollDriver, EpollEvent, EpollEventMask, EpollTimeout};
use tiny_std::net::{Ip, SocketAddress, TcpListener, TcpStream, TcpTryConnect, UnixListener, UnixStream};
use tiny_std::process::{Command, Stdio};
use tiny_std::{UnixStr, UnixString};

extern "C" {
    fn getpid() -> i32;
    fn _exit(c: i32) -> !;
    fn close(fd: i32) -> i32;
    fn opendir(name: *const u8) -> *mut u8;
    fn readdir(d: *mut u8) -> *const u8;
    fn dirfd(d: *mut u8) -> i32;
    fn closedir(d: *mut u8) -> i32;
    fn socketpair(domain: i32, ty: i32, proto: i32, sv: *mut i32) -> i32;
    fn socket(domain: i32, ty: i32, proto: i32) -> i32;
    fn bind(fd: i32, addr: *const u8, len: u32) -> i32;
    fn connect(fd: i32, addr: *const u8, len: u32) -> i32;
    fn dup2(old: i32, new: i32) -> i32;
    fn fcntl(fd: i32, cmd: i32, arg: i32) -> i32;
}

/// Open descriptors of this process (without the one used for listing). Only used OUTSIDE the window,
/// to close what a case leaked after it has been charged for it (so that leaks do not pile up and slow
/// down or starve later cases: ptys, descriptor numbers).
fn list_fds() -> Vec<i32> {
    let mut v = Vec::with_capacity(64);
    unsafe {
        let d = opendir(b"/proc/self/fd\0".as_ptr());
        if d.is_null() {
            return v;
        }
        let own = dirfd(d);
        loop {
            let e = readdir(d);
            if e.is_null() {
                break;
            }
            // struct dirent64: d_ino u64, d_off i64, d_reclen u16, d_type u8, d_name [u8]
            let name = std::ffi::CStr::from_ptr(e.add(19).cast());
            if let Some(n) = name.to_str().ok().and_then(|s| s.parse::<i32>().ok()) {
                if n != own {
                    v.push(n);
                }
            }
        }
        closedir(d);
    }
    v
}

const R_CONSUME: i64 = 10;
const R_OPDONE: i64 = 11;
const R_HANDED: i64 = 12;
const R_SKIP: i64 = 13;

trait ErrCode {
    fn code(&self) -> i64;
}
impl ErrCode for tiny_std::Error {
    fn code(&self) -> i64 {
        match self {
            tiny_std::Error::Os { code, .. } => i64::from(code.raw()),
            tiny_std::Error::Timeout => -2,
            tiny_std::Error::Uncategorized(_) => -1,
        }
    }
}
impl ErrCode for rusl::Error {
    fn code(&self) -> i64 {
        self.code.map_or(-1, |c| i64::from(c.raw()))
    }
}

#[derive(Clone, Copy)]
struct Inj {
    scope: i64,
    nr: i64,
    k: i64,
    ret: i64,
    count: i64,
}

struct Cx {
    pid: i32,
    scratch: String,
    scenario: i64,
    param: i64,
    case: i64,
    inj: Option<Inj>,
    inj2: Option<Inj>,
    /// bit i set: descriptor i (0, 1, 2) is closed for the duration of the window
    low: i64,
    saved: [i32; 3],
    serial: u64,
}

type NoRaw<T> = fn(&T) -> [i32; 8];
fn no_raw<T>(_: &T) -> [i32; 8] {
    [-1; 8]
}

impl Cx {
    /// One observed window around `op`. `consume`: descriptors whose ownership the call takes.
    /// `raw`: raw descriptors contained in the value handed back (closed here, after being reported).
    fn run<T, E: ErrCode>(
        &mut self,
        consume: &[i32],
        op: impl FnOnce() -> Result<T, E>,
        raw: impl FnOnce(&T) -> [i32; 8],
    ) -> bool {
        // "low descriptors free" mode: the process runs like a daemon with stdin/stdout/stderr closed, so
        // that what the operation opens lands on 0..=2 (markers are system calls, they need no descriptor)
        for i in 0..3 {
            if self.low & (1 << i) != 0 {
                unsafe {
                    close(i);
                }
            }
        }
        let before = list_fds();
        marker::snap_fd(1);
        for c in consume {
            marker::report(R_CONSUME, i64::from(*c), 0, 0, 0);
        }
        marker::begin(self.scenario, self.case, 0);
        if let Some(i) = self.inj {
            marker::inject(i.scope, i.nr, i.k, i.ret, i.count);
        }
        if let Some(i) = self.inj2 {
            marker::inject(i.scope, i.nr, i.k, i.ret, i.count);
        }
        let r = op();
        // "post" injections (the call is executed, the caller is told it failed: what close() does on EINTR) stay
        // armed until END: the closes that OwnedFd::drop issues for the handed-back value belong to the repository
        if !self.inj.is_some_and(|i| i.scope & marker::SCOPE_POST != 0) {
            marker::disarm();
        }
        let (is_err, code) = match &r {
            Ok(_) => (0, 0),
            Err(e) => (1, e.code()),
        };
        marker::report(R_OPDONE, is_err, code, 0, 0);
        // a forked child that came back into caller code (do_spawn's `?` in the child) must not run the rest
        if unsafe { getpid() } != self.pid {
            unsafe { _exit(97) }
        }
        if let Ok(v) = &r {
            for fd in raw(v) {
                if fd >= 0 {
                    marker::report(R_HANDED, i64::from(fd), 0, 0, 0);
                    unsafe {
                        close(fd);
                    }
                }
            }
        }
        drop(r);
        marker::end(self.scenario, self.case, is_err, code, 0);
        marker::snap_fd(2);
        for fd in list_fds() {
            if !before.contains(&fd) {
                unsafe {
                    close(fd);
                }
            }
        }
        for i in 0..3 {
            if self.low & (1 << i) != 0 {
                unsafe {
                    dup2(self.saved[i as usize], i);
                }
            }
        }
        is_err != 0
    }

    fn skip(&self, why: i64) {
        marker::report(R_SKIP, self.scenario, self.case, why, 0);
    }

    fn fresh_dir(&mut self) -> String {
        self.serial += 1;
        let d = format!("{}/d{}", self.scratch, self.serial);
        let _ = std::fs::remove_dir_all(&d);
        std::fs::create_dir_all(&d).expect("scratch dir");
        d
    }
}

fn us(s: &str) -> UnixString {
    UnixString::try_from_str(s).expect("unix string")
}
fn ub(b: &[u8]) -> UnixString {
    UnixString::try_from_bytes(b).expect("unix string")
}
fn fd_of(n: i32) -> Fd {
    Fd::try_new(n).expect("fd")
}
fn devnull_fd() -> i32 {
    std::fs::OpenOptions::new()
        .read(true)
        .write(true)
        .open("/dev/null")
        .expect("/dev/null")
        .into_raw_fd()
}

// ---------------------------------------------------------------- fs

fn s_file_open(cx: &mut Cx) {
    let d = cx.fresh_dir();
    std::fs::write(format!("{d}/f"), b"hello").unwrap();
    let p = us(&format!("{d}/f"));
    cx.run(&[], || File::open(&p), no_raw);
}

fn s_file_open_missing(cx: &mut Cx) {
    let d = cx.fresh_dir();
    let p = us(&format!("{d}/nope"));
    cx.run(&[], || File::open(&p), no_raw);
}

fn s_openopts_create(cx: &mut Cx) {
    let d = cx.fresh_dir();
    let p = us(&format!("{d}/new"));
    cx.run(
        &[],
        || {
            let mut f = OpenOptions::new().write(true).create(true).truncate(true).open(&p)?;
            f.write_all(b"abc")?;
            Ok::<_, tiny_std::Error>(f)
        },
        no_raw,
    );
}

fn s_openopts_create_new_exists(cx: &mut Cx) {
    let d = cx.fresh_dir();
    std::fs::write(format!("{d}/f"), b"x").unwrap();
    let p = us(&format!("{d}/f"));
    cx.run(&[], || OpenOptions::new().write(true).create_new(true).open(&p), no_raw);
}

fn s_openopts_append_rw(cx: &mut Cx) {
    let d = cx.fresh_dir();
    std::fs::write(format!("{d}/f"), b"x").unwrap();
    let p = us(&format!("{d}/f"));
    cx.run(
        &[],
        || {
            let mut f = OpenOptions::new().read(true).append(true).open(&p)?;
            f.write_all(b"tail")?;
            let md = f.metadata()?;
            let _ = md.len();
            f.set_nonblocking()?;
            Ok::<_, tiny_std::Error>(f)
        },
        no_raw,
    );
}

fn s_openopts_bad(cx: &mut Cx) {
    let d = cx.fresh_dir();
    let p = us(&format!("{d}/f"));
    cx.run(&[], || OpenOptions::new().create(true).open(&p), no_raw);
}

fn s_fs_read(cx: &mut Cx) {
    let d = cx.fresh_dir();
    std::fs::write(format!("{d}/f"), vec![b'a'; 5000]).unwrap();
    let p = us(&format!("{d}/f"));
    cx.run(&[], || tfs::read(&p), no_raw);
}

fn s_fs_read_to_string(cx: &mut Cx) {
    let d = cx.fresh_dir();
    std::fs::write(format!("{d}/f"), "héllo wörld\n".repeat(20)).unwrap();
    let p = us(&format!("{d}/f"));
    cx.run(&[], || tfs::read_to_string(&p), no_raw);
}

fn s_fs_read_to_string_bad_utf8(cx: &mut Cx) {
    let d = cx.fresh_dir();
    std::fs::write(format!("{d}/f"), [b'a', 0xff, 0xfe, b'b']).unwrap();
    let p = us(&format!("{d}/f"));
    cx.run(&[], || tfs::read_to_string(&p), no_raw);
}

fn s_fs_write(cx: &mut Cx) {
    let d = cx.fresh_dir();
    let p = us(&format!("{d}/out"));
    let data = vec![b'z'; 3000];
    cx.run(&[], || tfs::write(&p, &data), no_raw);
}

fn s_fs_write_into_missing_dir(cx: &mut Cx) {
    let d = cx.fresh_dir();
    let p = us(&format!("{d}/no/such/out"));
    cx.run(&[], || tfs::write(&p, b"data"), no_raw);
}

fn s_file_copy(cx: &mut Cx) {
    let d = cx.fresh_dir();
    std::fs::write(format!("{d}/src"), vec![b'c'; 9000]).unwrap();
    let src = File::open(&us(&format!("{d}/src"))).expect("src");
    let dst = us(&format!("{d}/dst"));
    cx.run(&[], || src.copy(&dst), no_raw);
    drop(src);
}

fn s_fs_copy_file(cx: &mut Cx) {
    let d = cx.fresh_dir();
    std::fs::write(format!("{d}/src"), vec![b'c'; 100]).unwrap();
    let src = us(&format!("{d}/src"));
    let dst = us(&format!("{d}/dst"));
    cx.run(&[], || tfs::copy_file(&src, &dst), no_raw);
}

fn s_fs_copy_file_bad_dest(cx: &mut Cx) {
    let d = cx.fresh_dir();
    std::fs::write(format!("{d}/src"), vec![b'c'; 100]).unwrap();
    let src = us(&format!("{d}/src"));
    let dst = us(&format!("{d}/missing/dst"));
    cx.run(&[], || tfs::copy_file(&src, &dst), no_raw);
}

fn s_fs_metadata_exists(cx: &mut Cx) {
    let d = cx.fresh_dir();
    std::fs::write(format!("{d}/f"), b"1").unwrap();
    let p = us(&format!("{d}/f"));
    let q = us(&format!("{d}/absent"));
    cx.run(
        &[],
        || {
            let m = tfs::metadata(&p)?;
            let _ = m.is_file();
            let a = tfs::exists(&p)?;
            let b = tfs::exists(&q)?;
            Ok::<_, tiny_std::Error>((a, b))
        },
        no_raw,
    );
}

fn make_tree(d: &str) {
    std::fs::create_dir_all(format!("{d}/t/a/b")).unwrap();
    std::fs::create_dir_all(format!("{d}/t/c")).unwrap();
    std::fs::write(format!("{d}/t/f1"), b"1").unwrap();
    std::fs::write(format!("{d}/t/a/f2"), b"2").unwrap();
    std::fs::write(format!("{d}/t/a/b/f3"), b"3").unwrap();
}

fn s_dir_open(cx: &mut Cx) {
    let d = cx.fresh_dir();
    let p = us(&d);
    cx.run(&[], || Directory::open(&p), no_raw);
}

fn s_dir_open_missing(cx: &mut Cx) {
    let d = cx.fresh_dir();
    let p = us(&format!("{d}/nope"));
    cx.run(&[], || Directory::open(&p), no_raw);
}

fn s_dir_read(cx: &mut Cx) {
    let d = cx.fresh_dir();
    make_tree(&d);
    for i in 0..30 {
        std::fs::write(format!("{d}/t/long-file-name-to-fill-the-getdents-buffer-{i:04}"), b"").unwrap();
    }
    let p = us(&format!("{d}/t"));
    cx.run(
        &[],
        || {
            let dir = Directory::open(&p)?;
            let mut n = 0usize;
            for e in dir.read() {
                let e = e?;
                let _ = e.file_name()?;
                n += 1;
            }
            Ok::<_, tiny_std::Error>((dir, n))
        },
        no_raw,
    );
}

fn s_dir_remove_all(cx: &mut Cx) {
    let d = cx.fresh_dir();
    make_tree(&d);
    let p = us(&format!("{d}/t"));
    cx.run(
        &[],
        || {
            let dir = Directory::open(&p)?;
            dir.remove_all()?;
            Ok::<_, tiny_std::Error>(dir)
        },
        no_raw,
    );
}

fn s_create_dir_all(cx: &mut Cx) {
    let d = cx.fresh_dir();
    let p = us(&format!("{d}/x/y/z/w"));
    cx.run(&[], || tfs::create_dir_all(&p), no_raw);
}

fn s_remove_dir_all(cx: &mut Cx) {
    let d = cx.fresh_dir();
    make_tree(&d);
    let p = us(&format!("{d}/t"));
    cx.run(&[], || tfs::remove_dir_all(&p), no_raw);
}

fn s_remove_dir_all_missing(cx: &mut Cx) {
    let d = cx.fresh_dir();
    let p = us(&format!("{d}/nope"));
    cx.run(&[], || tfs::remove_dir_all(&p), no_raw);
}

fn s_direntry_open(cx: &mut Cx) {
    let d = cx.fresh_dir();
    make_tree(&d);
    let p = us(&format!("{d}/t"));
    cx.run(
        &[],
        || {
            let dir = Directory::open(&p)?;
            let mut files: Vec<File> = Vec::new();
            let mut dirs: Vec<Directory> = Vec::new();
            for e in dir.read() {
                let e = e?;
                if e.is_relative_reference() {
                    continue;
                }
                match e.file_type() {
                    FileType::RegularFile => files.push(e.open_file()?),
                    FileType::Directory => {
                        let sub = e.open_dir()?;
                        for se in sub.read() {
                            let se = se?;
                            if se.file_type() == FileType::RegularFile {
                                files.push(se.open_file()?);
                            }
                        }
                        dirs.push(sub);
                    }
                    _ => {}
                }
            }
            Ok::<_, tiny_std::Error>((dir, files, dirs))
        },
        no_raw,
    );
}

fn s_direntry_open_wrong_kind(cx: &mut Cx) {
    let d = cx.fresh_dir();
    make_tree(&d);
    let p = us(&format!("{d}/t"));
    cx.run(
        &[],
        || {
            let dir = Directory::open(&p)?;
            let mut held: Vec<File> = Vec::new();
            for e in dir.read() {
                let e = e?;
                if e.is_relative_reference() {
                    continue;
                }
                if e.file_type() == FileType::Directory {
                    // must fail without opening anything
                    held.push(e.open_file()?);
                } else {
                    let _ = e.open_dir().is_err();
                }
            }
            Ok::<_, tiny_std::Error>((dir, held))
        },
        no_raw,
    );
}

fn s_system_random(cx: &mut Cx) {
    let mut buf = [0u8; 16];
    cx.run(&[], || tiny_std::unix::random::system_random(&mut buf), no_raw);
}

// ---------------------------------------------------------------- unix sockets

fn s_unix_connect(cx: &mut Cx) {
    let d = cx.fresh_dir();
    let path = format!("{d}/s");
    let l = std::os::unix::net::UnixListener::bind(&path).expect("std listener");
    let p = us(&path);
    cx.run(&[], || UnixStream::connect(&p), no_raw);
    drop(l);
}

fn s_unix_connect_nolistener(cx: &mut Cx) {
    let d = cx.fresh_dir();
    let p = us(&format!("{d}/nobody"));
    cx.run(&[], || UnixStream::connect(&p), no_raw);
}

fn long_path(d: &str) -> UnixString {
    let mut s = format!("{d}/");
    while s.len() < 140 {
        s.push('L');
    }
    us(&s)
}
fn nonascii_path(d: &str) -> UnixString {
    let mut b = format!("{d}/s-").into_bytes();
    b.extend_from_slice("sökväg".as_bytes());
    ub(&b)
}

fn s_unix_connect_long(cx: &mut Cx) {
    let d = cx.fresh_dir();
    let p = long_path(&d);
    cx.run(&[], || UnixStream::connect(&p), no_raw);
}

fn s_unix_connect_nonascii(cx: &mut Cx) {
    let d = cx.fresh_dir();
    let p = nonascii_path(&d);
    cx.run(&[], || UnixStream::connect(&p), no_raw);
}

fn s_unix_try_connect(cx: &mut Cx) {
    let d = cx.fresh_dir();
    let path = format!("{d}/s");
    let l = std::os::unix::net::UnixListener::bind(&path).expect("std listener");
    let p = us(&path);
    cx.run(&[], || UnixStream::try_connect(&p), no_raw);
    drop(l);
}

fn s_unix_try_connect_long(cx: &mut Cx) {
    let d = cx.fresh_dir();
    let p = long_path(&d);
    cx.run(&[], || UnixStream::try_connect(&p), no_raw);
}

fn s_unix_try_connect_nonascii(cx: &mut Cx) {
    let d = cx.fresh_dir();
    let p = nonascii_path(&d);
    cx.run(&[], || UnixStream::try_connect(&p), no_raw);
}

fn s_unix_bind(cx: &mut Cx) {
    let d = cx.fresh_dir();
    let p = us(&format!("{d}/s"));
    cx.run(&[], || UnixListener::bind(&p), no_raw);
}

fn s_unix_bind_long(cx: &mut Cx) {
    let d = cx.fresh_dir();
    let p = long_path(&d);
    cx.run(&[], || UnixListener::bind(&p), no_raw);
}

fn s_unix_bind_nonascii(cx: &mut Cx) {
    let d = cx.fresh_dir();
    let p = nonascii_path(&d);
    cx.run(&[], || UnixListener::bind(&p), no_raw);
}

fn s_unix_bind_inuse(cx: &mut Cx) {
    let d = cx.fresh_dir();
    let path = format!("{d}/s");
    let l = std::os::unix::net::UnixListener::bind(&path).expect("std listener");
    let p = us(&path);
    cx.run(&[], || UnixListener::bind(&p), no_raw);
    drop(l);
}

fn unix_listener_with_client(cx: &mut Cx, pending: bool) -> Option<(UnixListener, Option<std::os::unix::net::UnixStream>)> {
    let d = cx.fresh_dir();
    let path = format!("{d}/s");
    let Ok(l) = UnixListener::bind(&us(&path)) else {
        cx.skip(1);
        return None;
    };
    let c = if pending {
        match std::os::unix::net::UnixStream::connect(&path) {
            Ok(c) => Some(c),
            Err(_) => {
                cx.skip(2);
                return None;
            }
        }
    } else {
        None
    };
    Some((l, c))
}

fn s_unix_accept(cx: &mut Cx) {
    let Some((mut l, c)) = unix_listener_with_client(cx, true) else { return };
    cx.run(&[], || l.accept(), no_raw);
    drop(c);
}

fn s_unix_try_accept(cx: &mut Cx) {
    let Some((mut l, c)) = unix_listener_with_client(cx, true) else { return };
    cx.run(&[], || l.try_accept(), no_raw);
    drop(c);
}

fn s_unix_try_accept_none(cx: &mut Cx) {
    let Some((mut l, _c)) = unix_listener_with_client(cx, false) else { return };
    cx.run(&[], || l.try_accept(), no_raw);
}

fn s_unix_accept_timeout(cx: &mut Cx) {
    let Some((mut l, c)) = unix_listener_with_client(cx, true) else { return };
    cx.run(&[], || l.accept_with_timeout(Duration::from_millis(200)), no_raw);
    drop(c);
}

fn s_unix_accept_timeout_expires(cx: &mut Cx) {
    let Some((mut l, _c)) = unix_listener_with_client(cx, false) else { return };
    cx.run(&[], || l.accept_with_timeout(Duration::from_millis(3)), no_raw);
}

fn s_unix_stream_io(cx: &mut Cx) {
    // connect + accept + one round trip: reads/writes on non-blocking sockets with their ppoll fallback
    let d = cx.fresh_dir();
    let path = format!("{d}/s");
    let Ok(mut l) = UnixListener::bind(&us(&path)) else {
        cx.skip(1);
        return;
    };
    let p = us(&path);
    cx.run(
        &[],
        || {
            let mut c = UnixStream::connect(&p)?;
            let mut s = l.accept()?;
            c.write_all(b"ping")?;
            let mut b = [0u8; 4];
            s.read_exact(&mut b)?;
            Ok::<_, tiny_std::Error>((c, s))
        },
        no_raw,
    );
}

// ---------------------------------------------------------------- tcp

const LO: Ip = Ip::V4([127, 0, 0, 1]);

fn s_tcp_bind(cx: &mut Cx) {
    cx.run(&[], || TcpListener::bind(&SocketAddress::new(LO, 0)), no_raw);
}

fn s_tcp_bind_local_addr(cx: &mut Cx) {
    cx.run(
        &[],
        || {
            let l = TcpListener::bind(&SocketAddress::new(LO, 0))?;
            let a = l.local_addr()?;
            Ok::<_, tiny_std::Error>((l, a))
        },
        no_raw,
    );
}

fn s_tcp_bind_inuse(cx: &mut Cx) {
    let l = std::net::TcpListener::bind("127.0.0.1:0").expect("std tcp listener");
    let port = l.local_addr().unwrap().port();
    cx.run(&[], || TcpListener::bind(&SocketAddress::new(LO, port)), no_raw);
    drop(l);
}

fn tcp_listener_with_client(cx: &mut Cx, pending: bool) -> Option<(TcpListener, SocketAddress, Option<std::net::TcpStream>)> {
    let Ok(l) = TcpListener::bind(&SocketAddress::new(LO, 0)) else {
        cx.skip(1);
        return None;
    };
    let Ok(addr) = l.local_addr() else {
        cx.skip(3);
        return None;
    };
    // SocketAddress has no accessor for the port: ask the kernel
    let port = match rusl::network::get_inet_sock_name(fd_of(raw_of_tcp_listener(&l))) {
        Ok(n) => n.ipv4_addr().1,
        Err(_) => {
            cx.skip(3);
            return None;
        }
    };
    let c = if pending {
        match std::net::TcpStream::connect(("127.0.0.1", port)) {
            Ok(c) => Some(c),
            Err(_) => {
                cx.skip(2);
                return None;
            }
        }
    } else {
        None
    };
    Some((l, addr, c))
}

/// `TcpListener` has no `AsRawFd`; it is a transparent wrapper chain around one i32
fn raw_of_tcp_listener(l: &TcpListener) -> i32 {
    const _: () = assert!(core::mem::size_of::<TcpListener>() == 4);
    unsafe { *(core::ptr::from_ref(l).cast::<i32>()) }
}

fn s_tcp_accept(cx: &mut Cx) {
    let Some((mut l, _a, c)) = tcp_listener_with_client(cx, true) else { return };
    cx.run(&[], || l.accept(), no_raw);
    drop(c);
}

fn s_tcp_try_accept(cx: &mut Cx) {
    let Some((mut l, _a, c)) = tcp_listener_with_client(cx, true) else { return };
    cx.run(&[], || l.try_accept(), no_raw);
    drop(c);
}

fn s_tcp_try_accept_none(cx: &mut Cx) {
    let Some((mut l, _a, _c)) = tcp_listener_with_client(cx, false) else { return };
    cx.run(&[], || l.try_accept(), no_raw);
}

fn s_tcp_accept_timeout(cx: &mut Cx) {
    let Some((mut l, _a, c)) = tcp_listener_with_client(cx, true) else { return };
    cx.run(&[], || l.accept_with_timeout(Duration::from_millis(200)), no_raw);
    drop(c);
}

fn s_tcp_accept_timeout_expires(cx: &mut Cx) {
    let Some((mut l, _a, _c)) = tcp_listener_with_client(cx, false) else { return };
    cx.run(&[], || l.accept_with_timeout(Duration::from_millis(3)), no_raw);
}

fn s_tcp_connect(cx: &mut Cx) {
    let Some((l, a, _c)) = tcp_listener_with_client(cx, false) else { return };
    cx.run(&[], || TcpStream::connect(&a), no_raw);
    drop(l);
}

fn s_tcp_connect_timeout(cx: &mut Cx) {
    let Some((l, a, _c)) = tcp_listener_with_client(cx, false) else { return };
    cx.run(&[], || TcpStream::connect_with_timeout(&a, Duration::from_millis(200)), no_raw);
    drop(l);
}

fn s_tcp_connect_refused(cx: &mut Cx) {
    let l = std::net::TcpListener::bind("127.0.0.1:0").expect("std tcp listener");
    let port = l.local_addr().unwrap().port();
    drop(l);
    cx.run(&[], || TcpStream::connect(&SocketAddress::new(LO, port)), no_raw);
}

fn s_tcp_try_connect(cx: &mut Cx) {
    let Some((l, a, _c)) = tcp_listener_with_client(cx, false) else { return };
    cx.run(&[], || TcpStream::try_connect(&a), no_raw);
    drop(l);
}

fn s_tcp_try_connect_refused(cx: &mut Cx) {
    let l = std::net::TcpListener::bind("127.0.0.1:0").expect("std tcp listener");
    let port = l.local_addr().unwrap().port();
    drop(l);
    cx.run(
        &[],
        || match TcpStream::try_connect(&SocketAddress::new(LO, port))? {
            TcpTryConnect::Connected(c) => Ok::<_, tiny_std::Error>(Some(c)),
            TcpTryConnect::InProgress(p) => match p.try_connect()? {
                TcpTryConnect::Connected(c) => Ok(Some(c)),
                TcpTryConnect::InProgress(_p) => Ok(None),
            },
        },
        no_raw,
    );
}

fn s_tcp_inprogress_try(cx: &mut Cx) {
    let Some((l, a, _c)) = tcp_listener_with_client(cx, false) else { return };
    cx.run(
        &[],
        || {
            let mut cur = TcpStream::try_connect(&a)?;
            for _ in 0..4 {
                match cur {
                    TcpTryConnect::Connected(c) => return Ok::<_, tiny_std::Error>(TcpTryConnect::Connected(c)),
                    TcpTryConnect::InProgress(p) => cur = p.try_connect()?,
                }
            }
            Ok(cur)
        },
        no_raw,
    );
    drop(l);
}

fn s_tcp_inprogress_blocking(cx: &mut Cx) {
    let Some((l, a, _c)) = tcp_listener_with_client(cx, false) else { return };
    cx.run(
        &[],
        || match TcpStream::try_connect(&a)? {
            TcpTryConnect::Connected(c) => Ok::<_, tiny_std::Error>(c),
            TcpTryConnect::InProgress(p) => p.connect_blocking(),
        },
        no_raw,
    );
    drop(l);
}

fn s_tcp_stream_io(cx: &mut Cx) {
    let Some((mut l, a, _c)) = tcp_listener_with_client(cx, false) else { return };
    cx.run(
        &[],
        || {
            let mut c = TcpStream::connect(&a)?;
            let mut s = l.accept()?;
            c.write_all(b"ping")?;
            let mut b = [0u8; 4];
            let n = s.read_with_timeout(&mut b, Duration::from_millis(200))?;
            Ok::<_, tiny_std::Error>((c, s, n))
        },
        no_raw,
    );
}

// ---------------------------------------------------------------- process

const TRUE_BIN: &UnixStr = UnixStr::from_str_checked("/bin/true\0");
const MISSING_BIN: &UnixStr = UnixStr::from_str_checked("/nonexistent/c12-no-such-binary\0");
const TMP: &UnixStr = UnixStr::from_str_checked("/tmp\0");

fn spawn_wait(cmd: &mut Command) -> Result<(tiny_std::process::Child, i32), tiny_std::Error> {
    let mut ch = cmd.spawn()?;
    let st = ch.wait()?;
    Ok((ch, st))
}

fn s_spawn_inherit(cx: &mut Cx) {
    let mut cmd = Command::new(TRUE_BIN).unwrap();
    cx.run(&[], || spawn_wait(&mut cmd), no_raw);
}

fn s_spawn_inherit_explicit(cx: &mut Cx) {
    let mut cmd = Command::new(TRUE_BIN).unwrap();
    cmd.stdin(Stdio::Inherit).stdout(Stdio::Inherit).stderr(Stdio::Inherit);
    cx.run(&[], || spawn_wait(&mut cmd), no_raw);
}

fn s_spawn_null(cx: &mut Cx) {
    let mut cmd = Command::new(TRUE_BIN).unwrap();
    cmd.stdin(Stdio::Null).stdout(Stdio::Null).stderr(Stdio::Null);
    cx.run(&[], || spawn_wait(&mut cmd), no_raw);
}

fn s_spawn_pipe(cx: &mut Cx) {
    let mut cmd = Command::new(TRUE_BIN).unwrap();
    cmd.stdin(Stdio::MakePipe).stdout(Stdio::MakePipe).stderr(Stdio::MakePipe);
    cx.run(&[], || spawn_wait(&mut cmd), no_raw);
}

fn s_spawn_pipe_no_wait(cx: &mut Cx) {
    // spawn only; the Child (with its three pipes) is handed back and dropped, reaped outside the window
    let mut cmd = Command::new(TRUE_BIN).unwrap();
    cmd.stdin(Stdio::MakePipe).stdout(Stdio::MakePipe).stderr(Stdio::MakePipe);
    let mut pid = 0;
    cx.run(
        &[],
        || {
            let ch = cmd.spawn()?;
            pid = ch.get_pid();
            Ok::<_, tiny_std::Error>(ch)
        },
        no_raw,
    );
    if pid > 0 {
        let _ = rusl::process::wait_pid(pid, rusl::platform::WaitPidFlags::empty());
    }
}

fn s_spawn_rawfd(cx: &mut Cx) {
    let (a, b, c) = (devnull_fd(), devnull_fd(), devnull_fd());
    let mut cmd = Command::new(TRUE_BIN).unwrap();
    cmd.stdin(Stdio::RawFd(fd_of(a))).stdout(Stdio::RawFd(fd_of(b))).stderr(Stdio::RawFd(fd_of(c)));
    cx.run(&[a, b, c], || spawn_wait(&mut cmd), no_raw);
    // an early failure may leave later descriptors unconsumed (never wrapped): not ours to judge, tidy up
    unsafe {
        close(a);
        close(b);
        close(c);
    }
}

fn s_spawn_mixed(cx: &mut Cx) {
    let c = devnull_fd();
    let mut cmd = Command::new(TRUE_BIN).unwrap();
    cmd.stdin(Stdio::MakePipe).stdout(Stdio::Null).stderr(Stdio::RawFd(fd_of(c)));
    cmd.cwd(TMP);
    cx.run(&[c], || spawn_wait(&mut cmd), no_raw);
    unsafe {
        close(c);
    }
}

fn s_spawn_missing_bin(cx: &mut Cx) {
    let mut cmd = Command::new(MISSING_BIN).unwrap();
    cmd.stdin(Stdio::MakePipe).stdout(Stdio::Null);
    cx.run(&[], || spawn_wait(&mut cmd), no_raw);
}

fn s_spawn_args_env(cx: &mut Cx) {
    let mut cmd = Command::new(TRUE_BIN).unwrap();
    let arg = us("--version");
    cmd.arg(&arg).env(us("A=1")).env(us("B=2")).stdout(Stdio::Null);
    cx.run(&[], || spawn_wait(&mut cmd), no_raw);
}

/// every combination of the four Stdio modes on stdin/stdout/stderr (param = in + 4*out + 16*err)
fn s_spawn_combo(cx: &mut Cx) {
    let p = cx.param;
    let mut consumed: Vec<i32> = Vec::new();
    let mut mode = |m: i64| match m {
        0 => Stdio::Inherit,
        1 => Stdio::Null,
        2 => Stdio::MakePipe,
        _ => {
            let fd = devnull_fd();
            consumed.push(fd);
            Stdio::RawFd(fd_of(fd))
        }
    };
    let (i, o, e) = (mode(p % 4), mode((p / 4) % 4), mode((p / 16) % 4));
    let mut cmd = Command::new(TRUE_BIN).unwrap();
    cmd.stdin(i).stdout(o).stderr(e);
    cx.run(&consumed, || spawn_wait(&mut cmd), no_raw);
    for fd in consumed {
        unsafe {
            close(fd);
        }
    }
}

/// fs::read over file sizes around the adaptive read buffer's steps
fn s_fs_read_size(cx: &mut Cx) {
    const SIZES: [usize; 8] = [0, 1, 31, 32, 33, 4096, 8193, 150_000];
    let d = cx.fresh_dir();
    std::fs::write(format!("{d}/f"), vec![b'q'; SIZES[(cx.param as usize) % SIZES.len()]]).unwrap();
    let p = us(&format!("{d}/f"));
    cx.run(&[], || tfs::read(&p), no_raw);
}

// ---------------------------------------------------------------- descriptor passing (SCM_RIGHTS)

#[repr(align(8))]
struct Aligned([u8; 256]);

/// What `control_messages()` reports is the hand-over: exactly those descriptors are closed by the probe.
fn reported_fds(hdr: &MsgHdrBorrow<'_>) -> [i32; 8] {
    // the iterator borrows the header for its own lifetime parameter
    let hdr: &MsgHdrBorrow<'_> = unsafe { &*core::ptr::from_ref(hdr) };
    let mut got = [-1; 8];
    let mut i = 0;
    for m in hdr.control_messages() {
        match m {
            ControlMessageSend::ScmRights(fds) => {
                for f in fds {
                    if i < got.len() {
                        got[i] = f.value();
                        i += 1;
                    }
                }
            }
        }
    }
    got
}

/// sendmsg(ScmRights of n descriptors) over a socketpair, recvmsg with a control buffer of a given size
/// (param = n index * 14 + size index; n index 7 = a control message carrying zero descriptors).
/// Sizes walk below / at / above CMSG_LEN = 16+4n and CMSG_SPACE, including sizes that truncate the batch.
fn s_recvmsg_scm_rights(cx: &mut Cx) {
    const SIZES: [usize; 14] = [0, 8, 16, 19, 20, 24, 28, 30, 32, 36, 40, 44, 48, 128];
    let nidx = ((cx.param / 14) % 8) as usize;
    let size = SIZES[(cx.param % 14) as usize];
    let n = if nidx == 7 { 0 } else { nidx };
    let mut sv = [-1i32; 2];
    if unsafe { socketpair(1, 1 | 0o2_000_000, 0, sv.as_mut_ptr()) } != 0 {
        cx.skip(5);
        return;
    }
    let sent: Vec<i32> = (0..n).map(|_| devnull_fd()).collect();
    let sent_fds: Vec<Fd> = sent.iter().map(|f| fd_of(*f)).collect();
    let mut ctrl = Aligned([0; 256]);
    let mut data = [0u8; 64];
    let (tx, rx) = (fd_of(sv[0]), fd_of(sv[1]));
    cx.run(
        &[],
        || {
            let io_out = [IoSlice::new(b"Hello")];
            let cm = if n > 0 || nidx == 7 {
                Some(ControlMessageSend::ScmRights(&sent_fds))
            } else {
                None
            };
            let snd = MsgHdrBorrow::create_send(None, &io_out, cm);
            rusl::network::sendmsg(tx, &snd, 0)?;
            let mut io = [IoSliceMut::new(&mut data)];
            let cbuf = if size > 0 { Some(&mut ctrl.0[..size]) } else { None };
            let mut hdr = MsgHdrBorrow::create_recv(&mut io, cbuf);
            rusl::network::recvmsg(rx, &mut hdr, 0)?;
            Ok::<_, rusl::Error>(reported_fds(&hdr))
        },
        |g| *g,
    );
    unsafe {
        close(sv[0]);
        close(sv[1]);
        for f in sent {
            close(f);
        }
    }
}

/// the same over sockets made by rusl inside the window: socket/bind/listen/connect/accept + two batches
fn s_scm_rights_stream(cx: &mut Cx) {
    let d = cx.fresh_dir();
    let path = us(&format!("{d}/s"));
    let sent = [devnull_fd(), devnull_fd(), devnull_fd()];
    let sent_fds = [fd_of(sent[0]), fd_of(sent[1]), fd_of(sent[2])];
    let mut ctrl = Aligned([0; 256]);
    let mut ctrl2 = Aligned([0; 256]);
    let mut data = [0u8; 64];
    let mut data2 = [0u8; 64];
    cx.run(
        &[],
        || {
            use rusl::network as net;
            let mut held = [-1i32; 8];
            let r = (|| {
                let opts = SocketOptions::new(SocketType::SOCK_STREAM, SocketFlags::SOCK_CLOEXEC);
                let srv = net::socket(AddressFamily::AF_UNIX, opts, 0)?;
                held[0] = srv.value();
                let addr = SocketAddressUnix::try_from_unix(&path)?;
                net::bind_unix(srv, &addr)?;
                net::listen(srv, fd_of(4))?;
                let cl = net::socket(AddressFamily::AF_UNIX, opts, 0)?;
                held[1] = cl.value();
                net::connect_unix(cl, &addr)?;
                let acc = net::accept_unix(srv, SocketFlags::SOCK_CLOEXEC)?.0;
                held[2] = acc.value();
                let io_out = [IoSlice::new(b"Hello")];
                let snd = MsgHdrBorrow::create_send(None, &io_out, Some(ControlMessageSend::ScmRights(&sent_fds[..1])));
                net::sendmsg(cl, &snd, 0)?;
                let snd2 = MsgHdrBorrow::create_send(None, &io_out, Some(ControlMessageSend::ScmRights(&sent_fds[1..])));
                net::sendmsg(cl, &snd2, 0)?;
                // first batch with an exactly sized control buffer (CMSG_LEN(4) = 20), second with room to spare
                let mut io = [IoSliceMut::new(&mut data[..5])];
                let mut hdr = MsgHdrBorrow::create_recv(&mut io, Some(&mut ctrl.0[..20]));
                net::recvmsg(acc, &mut hdr, 0)?;
                let a = reported_fds(&hdr);
                held[3] = a[0];
                let mut io2 = [IoSliceMut::new(&mut data2)];
                let mut hdr2 = MsgHdrBorrow::create_recv(&mut io2, Some(&mut ctrl2.0[..64]));
                net::recvmsg(acc, &mut hdr2, 0)?;
                let b = reported_fds(&hdr2);
                held[4] = b[0];
                held[5] = b[1];
                Ok::<_, rusl::Error>(())
            })();
            // raw rusl descriptors have no owner: whatever was obtained so far is the caller's to close
            match r {
                Ok(()) => Ok(held),
                Err(e) => {
                    for fd in held {
                        if fd >= 0 {
                            let _ = rusl::unistd::close(fd_of(fd));
                        }
                    }
                    Err(e)
                }
            }
        },
        |h| *h,
    );
    unsafe {
        for f in sent {
            close(f);
        }
    }
}

// ---------------------------------------------------------------- epoll, passwd, pty, io_uring, pipes

fn s_epoll(cx: &mut Cx) {
    let (r, w) = std::io::pipe().expect("pipe");
    let rfd = fd_of(r.as_raw_fd());
    let mut w = w;
    let _ = w.write_all(b"x");
    cx.run(
        &[],
        || {
            let drv = EpollDriver::create(true)?;
            drv.register(rfd, 7, EpollEventMask::EPOLLIN)?;
            let mut evs = [EpollEvent::new(0, EpollEventMask::empty()); 4];
            let n = drv.wait(&mut evs, EpollTimeout::NoWait)?;
            drv.modify(rfd, 8, EpollEventMask::EPOLLIN | EpollEventMask::EPOLLOUT)?;
            let m = drv.wait(&mut evs, EpollTimeout::WaitMillis(1))?;
            drv.unregister(rfd)?;
            Ok::<_, tiny_std::Error>((drv, n, m))
        },
        no_raw,
    );
    drop((r, w));
}

fn s_epoll_nocloexec(cx: &mut Cx) {
    cx.run(&[], || EpollDriver::create(false), no_raw);
}

fn s_getpwuid(cx: &mut Cx) {
    let mut buf = vec![0u8; 4096];
    cx.run(
        &[],
        || tiny_std::unix::passwd::getpw_r::getpwuid_r(0, &mut buf).map(|o| o.map(|p| p.uid)),
        no_raw,
    );
}

fn s_openpty(cx: &mut Cx) {
    cx.run(
        &[],
        || tiny_std::unix::misc::openpty::openpty(None, None, None),
        |h| [h.master.value(), h.slave.value(), -1, -1, -1, -1, -1, -1],
    );
}

fn s_openpty_attrs(cx: &mut Cx) {
    // a valid termios from a scratch pty (outside the window)
    let tio = match tiny_std::unix::misc::openpty::openpty(None, None, None) {
        Ok(h) => {
            let t = rusl::termios::tcgetattr(h.slave);
            unsafe {
                close(h.master.value());
                close(h.slave.value());
            }
            match t {
                Ok(t) => t,
                Err(_) => {
                    cx.skip(4);
                    return;
                }
            }
        }
        Err(_) => {
            cx.skip(4);
            return;
        }
    };
    let ws = rusl::platform::WindowSize::new(24, 80, 0, 0);
    cx.run(
        &[],
        || tiny_std::unix::misc::openpty::openpty(None, Some(&tio), Some(&ws)),
        |h| [h.master.value(), h.slave.value(), -1, -1, -1, -1, -1, -1],
    );
}

fn s_openpty_bad_name(cx: &mut Cx) {
    let d = cx.fresh_dir();
    let name = us(&format!("{d}/no-such-slave"));
    cx.run(
        &[],
        || tiny_std::unix::misc::openpty::openpty(Some(&name), None, None),
        |h| [h.master.value(), h.slave.value(), -1, -1, -1, -1, -1, -1],
    );
}

fn s_io_uring(cx: &mut Cx) {
    cx.run(
        &[],
        || rusl::io_uring::setup_io_uring(8, rusl::platform::IoUringParamFlags::empty(), 0, 0),
        no_raw,
    );
}

fn s_io_uring_bad_entries(cx: &mut Cx) {
    cx.run(
        &[],
        || rusl::io_uring::setup_io_uring(0, rusl::platform::IoUringParamFlags::empty(), 0, 0),
        no_raw,
    );
}

fn s_rusl_pipe(cx: &mut Cx) {
    cx.run(&[], rusl::unistd::pipe, |p| [p.in_pipe.value(), p.out_pipe.value(), -1, -1, -1, -1, -1, -1]);
}

fn s_rusl_pipe2(cx: &mut Cx) {
    cx.run(
        &[],
        || rusl::unistd::pipe2(OpenFlags::O_CLOEXEC | OpenFlags::O_NONBLOCK),
        |p| [p.in_pipe.value(), p.out_pipe.value(), -1, -1, -1, -1, -1, -1],
    );
}

fn s_rusl_open_close(cx: &mut Cx) {
    let d = cx.fresh_dir();
    std::fs::write(format!("{d}/f"), b"1").unwrap();
    let p = us(&format!("{d}/f"));
    cx.run(
        &[],
        || rusl::unistd::open(&p, OpenFlags::O_RDONLY | OpenFlags::O_CLOEXEC),
        |f| [f.value(), -1, -1, -1, -1, -1, -1, -1],
    );
}

/// (name, number of parameter values, body)
type Scn = (&'static str, i64, fn(&mut Cx));
const SCENARIOS: &[Scn] = &[
    ("file_open", 1, s_file_open),
    ("file_open_missing", 1, s_file_open_missing),
    ("openopts_create", 1, s_openopts_create),
    ("openopts_create_new_exists", 1, s_openopts_create_new_exists),
    ("openopts_append_rw", 1, s_openopts_append_rw),
    ("openopts_bad", 1, s_openopts_bad),
    ("fs_read", 1, s_fs_read),
    ("fs_read_to_string", 1, s_fs_read_to_string),
    ("fs_read_to_string_bad_utf8", 1, s_fs_read_to_string_bad_utf8),
    ("fs_write", 1, s_fs_write),
    ("fs_write_into_missing_dir", 1, s_fs_write_into_missing_dir),
    ("file_copy", 1, s_file_copy),
    ("fs_copy_file", 1, s_fs_copy_file),
    ("fs_copy_file_bad_dest", 1, s_fs_copy_file_bad_dest),
    ("fs_metadata_exists", 1, s_fs_metadata_exists),
    ("dir_open", 1, s_dir_open),
    ("dir_open_missing", 1, s_dir_open_missing),
    ("dir_read", 1, s_dir_read),
    ("dir_remove_all", 1, s_dir_remove_all),
    ("create_dir_all", 1, s_create_dir_all),
    ("remove_dir_all", 1, s_remove_dir_all),
    ("remove_dir_all_missing", 1, s_remove_dir_all_missing),
    ("direntry_open", 1, s_direntry_open),
    ("direntry_open_wrong_kind", 1, s_direntry_open_wrong_kind),
    ("system_random", 1, s_system_random),
    ("unix_connect", 1, s_unix_connect),
    ("unix_connect_nolistener", 1, s_unix_connect_nolistener),
    ("unix_connect_long", 1, s_unix_connect_long),
    ("unix_connect_nonascii", 1, s_unix_connect_nonascii),
    ("unix_try_connect", 1, s_unix_try_connect),
    ("unix_try_connect_long", 1, s_unix_try_connect_long),
    ("unix_try_connect_nonascii", 1, s_unix_try_connect_nonascii),
    ("unix_bind", 1, s_unix_bind),
    ("unix_bind_long", 1, s_unix_bind_long),
    ("unix_bind_nonascii", 1, s_unix_bind_nonascii),
    ("unix_bind_inuse", 1, s_unix_bind_inuse),
    ("unix_accept", 1, s_unix_accept),
    ("unix_try_accept", 1, s_unix_try_accept),
    ("unix_try_accept_none", 1, s_unix_try_accept_none),
    ("unix_accept_timeout", 1, s_unix_accept_timeout),
    ("unix_accept_timeout_expires", 1, s_unix_accept_timeout_expires),
    ("unix_stream_io", 1, s_unix_stream_io),
    ("tcp_bind", 1, s_tcp_bind),
    ("tcp_bind_local_addr", 1, s_tcp_bind_local_addr),
    ("tcp_bind_inuse", 1, s_tcp_bind_inuse),
    ("tcp_accept", 1, s_tcp_accept),
    ("tcp_try_accept", 1, s_tcp_try_accept),
    ("tcp_try_accept_none", 1, s_tcp_try_accept_none),
    ("tcp_accept_timeout", 1, s_tcp_accept_timeout),
    ("tcp_accept_timeout_expires", 1, s_tcp_accept_timeout_expires),
    ("tcp_connect", 1, s_tcp_connect),
    ("tcp_connect_timeout", 1, s_tcp_connect_timeout),
    ("tcp_connect_refused", 1, s_tcp_connect_refused),
    ("tcp_try_connect", 1, s_tcp_try_connect),
    ("tcp_try_connect_refused", 1, s_tcp_try_connect_refused),
    ("tcp_inprogress_try", 1, s_tcp_inprogress_try),
    ("tcp_inprogress_blocking", 1, s_tcp_inprogress_blocking),
    ("tcp_stream_io", 1, s_tcp_stream_io),
    ("spawn_inherit", 1, s_spawn_inherit),
    ("spawn_inherit_explicit", 1, s_spawn_inherit_explicit),
    ("spawn_null", 1, s_spawn_null),
    ("spawn_pipe", 1, s_spawn_pipe),
    ("spawn_pipe_no_wait", 1, s_spawn_pipe_no_wait),
    ("spawn_rawfd", 1, s_spawn_rawfd),
    ("spawn_mixed", 1, s_spawn_mixed),
    ("spawn_missing_bin", 1, s_spawn_missing_bin),
    ("spawn_args_env", 1, s_spawn_args_env),
    ("epoll", 1, s_epoll),
    ("epoll_nocloexec", 1, s_epoll_nocloexec),
    ("getpwuid_r", 1, s_getpwuid),
    ("openpty", 1, s_openpty),
    ("openpty_attrs", 1, s_openpty_attrs),
    ("openpty_bad_name", 1, s_openpty_bad_name),
    ("io_uring", 1, s_io_uring),
    ("io_uring_bad_entries", 1, s_io_uring_bad_entries),
    ("rusl_pipe", 1, s_rusl_pipe),
    ("rusl_pipe2", 1, s_rusl_pipe2),
    ("rusl_open", 1, s_rusl_open_close),
    ("spawn_combo", 64, s_spawn_combo),
    ("fs_read_size", 8, s_fs_read_size),
    ("recvmsg_scm_rights", 112, s_recvmsg_scm_rights),
    ("scm_rights_stream", 1, s_scm_rights_stream),
    // argument-domain variants (args.rs); `fd_probe variants` lists the valid parameter values
    ("arg_path", args::PATH_NPARAMS, args::s_arg_path),
    ("arg_timeout", args::TIMEOUT_NPARAMS, args::s_arg_timeout),
    ("arg_openopts", args::OPENOPTS_NPARAMS, args::s_arg_openopts),
    ("arg_misc", args::MISC.len() as i64, args::s_arg_misc),
    ("arg_peer", args::PEER_NPARAMS, args::s_arg_peer),
];

fn main() {
    let args: Vec<String> = std::env::args().collect();
    match args.get(1).map(String::as_str) {
        Some("list") => {
            for (i, (n, np, _)) in SCENARIOS.iter().enumerate() {
                println!("{i} {n} {np}");
            }
        }
        Some("variants") => args::print_variants(),
        Some("batch") => {
            let plan = std::fs::read_to_string(&args[2]).expect("plan file");
            let scratch = args[3].clone();
            std::fs::create_dir_all(&scratch).expect("scratch");
            let mut cx = Cx {
                pid: unsafe { getpid() },
                scratch,
                scenario: 0,
                param: 0,
                case: 0,
                inj: None,
                inj2: None,
                low: 0,
                // copies of the standard streams above everything the scenarios use
                saved: [0, 1, 2].map(|i| unsafe { fcntl(i, 1030, 900) }),
                serial: 0,
            };
            // warm std's lazily initialised bits before any window
            let _ = std::io::stdout().flush();
            let mut ran = 0;
            for line in plan.lines() {
                let f: Vec<i64> = line.split_whitespace().filter_map(|x| x.parse().ok()).collect();
                if f.len() < 6 {
                    continue;
                }
                // scenario field = id + 1000 * parameter (parametrised scenario families)
                cx.scenario = f[0];
                cx.param = f[0] / 1000;
                cx.case = f[1];
                cx.inj = if f[2] < 0 {
                    None
                } else {
                    Some(Inj { scope: f[2], nr: f[3], k: f[4], ret: f[5], count: f.get(6).copied().unwrap_or(1).max(1) })
                };
                cx.inj2 = if f.len() >= 11 && f[7] >= 0 {
                    Some(Inj { scope: f[7], nr: f[8], k: f[9], ret: f[10], count: 1 })
                } else {
                    None
                };
                cx.low = f.get(11).copied().unwrap_or(0) & 7;
                let Some((_, _, func)) = SCENARIOS.get((f[0] % 1000) as usize) else { continue };
                func(&mut cx);
                ran += 1;
                if cx.serial % 16 == 0 {
                    let _ = std::fs::remove_dir_all(&cx.scratch);
                    let _ = std::fs::create_dir_all(&cx.scratch);
                }
            }
            let _ = std::fs::remove_dir_all(&cx.scratch);
            println!("fd_probe: ran {ran} cases");
        }
        _ => {
            eprintln!("usage: fd_probe list | batch <plan> <scratch>");
            std::process::exit(2);
        }
    }
}
