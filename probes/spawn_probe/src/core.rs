// Shared body of the C13 probes (std-linked `spawn_probe` and no-libc `spawn_probe_nolibc`).
// no_std + alloc only. Everything that is *not* under test (reading the case file, fstat, getpid,
// opening RawFd files) uses the raw system calls below, not rusl/tiny-std wrappers.
//
// Case file: one line = one `Command` value; space separated `key=value` tokens (byte strings hex encoded) are
// BUILDER CALLS executed in the order written, `spawn=<case id>` spawns with what has been configured so far
// (a line without `spawn=` spawns once at its end with case id `id`; several `spawn=` re-use the Command):
//   id=<n> bin=<hex>  arg=<hex> (one Command::arg)  args=<hex|->,<hex|->.. (one Command::args batch, may be empty)
//   env=<hex> / envs=<..,..> likewise   cwd=<hex> uid=<n> gid=<n> pg=<n|-1 (probe's own pgid)>
//   in=|out=|err= <i|n|p|r<hexpath>|w<hexpath>|b<hexpath>|s<stream>|x<fd>>   (absent = not configured)
//       r/w/b: Stdio::RawFd of a file opened here read-only / write-append / read-write; s<k>: the very same
//       descriptor as stream k (k < this stream); x<fd>: that descriptor number as is (0-2 = the caller's own
//       standard streams, which the spawn takes over and closes: they are saved and restored around the case)
//   pre=<n> adds n succeeding pre-exec closures, prefail=<errno> one that returns Err(errno), prenocode=1 one that returns an
//   error without OS code, preyield=1 one that calls sched_yield and fails with its errno if that is refused (indices run on;
//   every closure issues REPORT(K_PREEXEC, case, index, errno|-1|0) when it runs)
//   inj=<scope>,<nr>,<k>,<ret>,<count> armed right before the next spawn   payload=<hex>
//   wait2=1 (wait twice)  trywait=1 (poll try_wait)  holdstdin=1 (wait() is called while the Child still owns its
//   stdin pipe: closing it is wait's job)  closefd=<0|1|2> (the caller's descriptor is closed for the following spawns
//   and restored at the end of the line)
//   With several spawns per line the helper's dump `<bin>.dump` is renamed to `<bin>.dump.<case id>` after each.
//
// Markers (REPORT a-field): see the K_* constants; the driver (checks/c13.py) reads them from the sysmon log.
use alloc::boxed::Box;
use alloc::vec::Vec;
use core::sync::atomic::{AtomicI64, Ordering};
use rusl::error::Errno;
use rusl::platform::Fd;
use rusl::string::unix_str::{UnixStr, UnixString};
use tiny_std::Error;
use tiny_std::io::{Read, Write};
use tiny_std::process::{Command, Stdio};
use tiny_std::unix::fd::AsRawFd;

use crate::marker;

pub const SCENARIO: i64 = 13;
pub const K_BASE_STDIO: i64 = 100; // (fd, dev, ino, 0)
pub const K_RETURNED: i64 = 101; // (case, kind: 1 ok / 0 os error / -1 uncategorized / -2 timeout, code, 0)
pub const K_CHILD_PID: i64 = 102; // (case, Child::get_pid, 0, 0)
pub const K_PIPE: i64 = 103; // (case, stream, dev, ino) of the pipe end the probe holds
pub const K_WAITED: i64 = 104; // (case, kind, status-or-code, 0)
pub const K_PREEXEC: i64 = 105; // (case, closure index, 0, 0) — issued inside the forked child
pub const K_STDIN_WRITE: i64 = 106; // (case, bytes written or -1, 0, 0)
pub const K_BASE_FD: i64 = 107; // (fd, 0,0,0): descriptor open without CLOEXEC at probe start
pub const K_RAWFD: i64 = 108; // (case, stream, dev, ino) of the descriptor handed to Stdio::RawFd
pub const K_BASE_PROC: i64 = 109; // (pid, pgid, uid, gid)
pub const K_PIPE_READ: i64 = 110; // (case, stream, total bytes or -1, 0); bytes follow as BYTES tag 1000+stream
pub const K_SECOND_WAIT: i64 = 111; // (case, kind, status-or-code, 0) second wait() on the same child
pub const K_SPAWN_ENTER: i64 = 112; // (case, 0,0,0) immediately before Command::spawn (and before injections are armed)
pub const K_PARSE_ERR: i64 = 199; // (line number)

mod sys {
    #[inline(always)]
    pub unsafe fn sc6(nr: usize, a: usize, b: usize, c: usize, d: usize, e: usize, f: usize) -> isize {
        let ret: isize;
        core::arch::asm!(
            "syscall",
            inlateout("rax") nr as isize => ret,
            in("rdi") a, in("rsi") b, in("rdx") c, in("r10") d, in("r8") e, in("r9") f,
            lateout("rcx") _, lateout("r11") _,
            options(nostack)
        );
        ret
    }
    /// SIGPIPE -> SIG_IGN (a write into a pipe whose reader is gone must come back as EPIPE)
    pub fn ignore_sigpipe() {
        let act: [u64; 4] = [1, 0, 0, 0];
        unsafe {
            sc6(13, 13, act.as_ptr() as usize, 0, 8, 0, 0);
        }
    }
    pub fn sleep_us(us: u64) {
        let ts: [u64; 2] = [us / 1_000_000, (us % 1_000_000) * 1000];
        unsafe {
            sc6(35, ts.as_ptr() as usize, 0, 0, 0, 0, 0);
        }
    }
    pub fn getpid() -> i64 {
        unsafe { sc6(39, 0, 0, 0, 0, 0, 0) as i64 }
    }
    pub fn getpgid() -> i64 {
        unsafe { sc6(121, 0, 0, 0, 0, 0, 0) as i64 }
    }
    pub fn getuid() -> i64 {
        unsafe { sc6(102, 0, 0, 0, 0, 0, 0) as i64 }
    }
    pub fn getgid() -> i64 {
        unsafe { sc6(104, 0, 0, 0, 0, 0, 0) as i64 }
    }
    pub fn exit_group(code: i32) -> ! {
        unsafe {
            sc6(231, code as usize, 0, 0, 0, 0, 0);
        }
        loop {}
    }
    /// path must be NUL terminated
    pub fn open(path: &[u8], flags: usize, mode: usize) -> isize {
        unsafe { sc6(2, path.as_ptr() as usize, flags, mode, 0, 0, 0) }
    }
    pub fn read(fd: isize, buf: &mut [u8]) -> isize {
        unsafe { sc6(0, fd as usize, buf.as_mut_ptr() as usize, buf.len(), 0, 0, 0) }
    }
    pub fn close(fd: isize) -> isize {
        unsafe { sc6(3, fd as usize, 0, 0, 0, 0, 0) }
    }
    pub fn dupfd_cloexec(fd: isize, min: usize) -> isize {
        unsafe { sc6(72, fd as usize, 1030, min, 0, 0, 0) }
    }
    pub fn dup3(old: isize, new: isize) -> isize {
        unsafe { sc6(292, old as usize, new as usize, 0, 0, 0, 0) }
    }
    /// both NUL terminated
    pub fn rename(from: &[u8], to: &[u8]) -> isize {
        unsafe { sc6(82, from.as_ptr() as usize, to.as_ptr() as usize, 0, 0, 0, 0) }
    }
    pub fn fcntl_getfd(fd: isize) -> isize {
        unsafe { sc6(72, fd as usize, 1, 0, 0, 0, 0) }
    }
    /// (dev, ino, mode) or None
    pub fn fstat(fd: isize) -> Option<(u64, u64, u32)> {
        let mut st = [0u64; 18];
        let r = unsafe { sc6(5, fd as usize, st.as_mut_ptr() as usize, 0, 0, 0, 0) };
        if r < 0 {
            None
        } else {
            Some((st[0], st[1], st[3] as u32))
        }
    }
}

fn unhex(s: &[u8]) -> Option<Vec<u8>> {
    if s.len() % 2 != 0 {
        return None;
    }
    let mut v = Vec::with_capacity(s.len() / 2 + 1);
    let d = |c: u8| -> Option<u8> {
        match c {
            b'0'..=b'9' => Some(c - b'0'),
            b'a'..=b'f' => Some(c - b'a' + 10),
            _ => None,
        }
    };
    let mut i = 0;
    while i < s.len() {
        v.push(d(s[i])? << 4 | d(s[i + 1])?);
        i += 2;
    }
    Some(v)
}

fn num(s: &[u8]) -> Option<i64> {
    let (neg, s) = if let Some(b'-') = s.first() { (true, &s[1..]) } else { (false, s) };
    if s.is_empty() {
        return None;
    }
    let mut v: i64 = 0;
    for c in s {
        if !c.is_ascii_digit() {
            return None;
        }
        v = v.checked_mul(10)?.checked_add((*c - b'0') as i64)?;
    }
    Some(if neg { -v } else { v })
}

/// NUL-terminated copy
fn cstr(mut v: Vec<u8>) -> Vec<u8> {
    v.push(0);
    v
}

static CUR_CASE: AtomicI64 = AtomicI64::new(-1);

#[derive(Clone)]
enum Io {
    Inherit,
    Null,
    Pipe,
    FileR(Vec<u8>), // NUL terminated path
    FileW(Vec<u8>),
    FileRW(Vec<u8>),
    Share(usize),
    Raw(i32),
}

enum Op {
    Arg(usize),
    Args(usize, usize), // range in Line::args
    Env(usize),
    Envs(usize, usize),
    Cwd(usize),
    Uid(i64),
    Gid(i64),
    Pg(i64),
    Io(usize, Io),
    Pre(i64),
    PreFail(i64),
    PreNoCode,
    PreYield,
    Inj([i64; 5]),
    Payload(usize),
    Wait2(bool),
    TryWait(bool),
    HoldStdin(bool),
    CloseFd(i64),
    Spawn(i64),
}

struct Line {
    id: i64,
    bin: Vec<u8>,
    args: Vec<Vec<u8>>,
    envs: Vec<Vec<u8>>,
    paths: Vec<Vec<u8>>,
    payloads: Vec<Vec<u8>>,
    ops: Vec<Op>,
    spawn_ids: Vec<i64>,
}

fn parse_io(v: &[u8]) -> Option<Io> {
    match v.first()? {
        b'i' => Some(Io::Inherit),
        b'n' => Some(Io::Null),
        b'p' => Some(Io::Pipe),
        b'r' => Some(Io::FileR(cstr(unhex(&v[1..])?))),
        b'w' => Some(Io::FileW(cstr(unhex(&v[1..])?))),
        b'b' => Some(Io::FileRW(cstr(unhex(&v[1..])?))),
        b's' => Some(Io::Share(num(&v[1..])? as usize)),
        b'x' => Some(Io::Raw(num(&v[1..])? as i32)),
        _ => None,
    }
}

/// `a,b,c` with `-` for the empty string; the empty value is the empty batch
fn parse_batch(v: &[u8], into: &mut Vec<Vec<u8>>) -> Option<(usize, usize)> {
    let start = into.len();
    if !v.is_empty() {
        for part in v.split(|b| *b == b',') {
            if part == b"-" {
                into.push(cstr(Vec::new()));
            } else {
                into.push(cstr(unhex(part)?));
            }
        }
    }
    Some((start, into.len()))
}

fn parse_line(line: &[u8]) -> Option<Line> {
    let mut c = Line {
        id: -1,
        bin: Vec::new(),
        args: Vec::new(),
        envs: Vec::new(),
        paths: Vec::new(),
        payloads: Vec::new(),
        ops: Vec::new(),
        spawn_ids: Vec::new(),
    };
    for tok in line.split(|b| *b == b' ') {
        if tok.is_empty() {
            continue;
        }
        let eq = tok.iter().position(|b| *b == b'=')?;
        let (k, v) = (&tok[..eq], &tok[eq + 1..]);
        match k {
            b"id" => c.id = num(v)?,
            b"bin" => c.bin = cstr(unhex(v)?),
            b"arg" => {
                c.args.push(cstr(unhex(v)?));
                c.ops.push(Op::Arg(c.args.len() - 1));
            }
            b"args" => {
                let (a, b) = parse_batch(v, &mut c.args)?;
                c.ops.push(Op::Args(a, b));
            }
            b"env" => {
                c.envs.push(cstr(unhex(v)?));
                c.ops.push(Op::Env(c.envs.len() - 1));
            }
            b"envs" => {
                let (a, b) = parse_batch(v, &mut c.envs)?;
                c.ops.push(Op::Envs(a, b));
            }
            b"cwd" => {
                c.paths.push(cstr(unhex(v)?));
                c.ops.push(Op::Cwd(c.paths.len() - 1));
            }
            b"uid" => c.ops.push(Op::Uid(num(v)?)),
            b"gid" => c.ops.push(Op::Gid(num(v)?)),
            b"pg" => c.ops.push(Op::Pg(num(v)?)),
            b"in" => c.ops.push(Op::Io(0, parse_io(v)?)),
            b"out" => c.ops.push(Op::Io(1, parse_io(v)?)),
            b"err" => c.ops.push(Op::Io(2, parse_io(v)?)),
            b"pre" => c.ops.push(Op::Pre(num(v)?)),
            b"prefail" => c.ops.push(Op::PreFail(num(v)?)),
            b"prenocode" => c.ops.push(Op::PreNoCode),
            b"preyield" => c.ops.push(Op::PreYield),
            b"inj" => {
                let mut a = [0i64; 5];
                let mut n = 0;
                for part in v.split(|b| *b == b',') {
                    if n >= 5 {
                        return None;
                    }
                    a[n] = num(part)?;
                    n += 1;
                }
                if n != 5 {
                    return None;
                }
                c.ops.push(Op::Inj(a));
            }
            b"payload" => {
                c.payloads.push(unhex(v)?);
                c.ops.push(Op::Payload(c.payloads.len() - 1));
            }
            b"wait2" => c.ops.push(Op::Wait2(num(v)? != 0)),
            b"trywait" => c.ops.push(Op::TryWait(num(v)? != 0)),
            b"holdstdin" => c.ops.push(Op::HoldStdin(num(v)? != 0)),
            b"closefd" => c.ops.push(Op::CloseFd(num(v)?)),
            b"spawn" => {
                let id = num(v)?;
                c.spawn_ids.push(id);
                c.ops.push(Op::Spawn(id));
            }
            _ => return None,
        }
    }
    if c.id < 0 || c.bin.is_empty() {
        return None;
    }
    if c.spawn_ids.is_empty() {
        c.spawn_ids.push(c.id);
        c.ops.push(Op::Spawn(c.id));
    }
    Some(c)
}

fn err_fields(e: &Error) -> (i64, i64) {
    match e {
        Error::Os { code, .. } => (0, code.raw() as i64),
        Error::Uncategorized(_) => (-1, 0),
        Error::Timeout => (-2, 0),
    }
}

fn read_file(path: &[u8]) -> Option<Vec<u8>> {
    let fd = sys::open(path, 0o2000000, 0); // O_RDONLY|O_CLOEXEC
    if fd < 0 {
        return None;
    }
    let mut out = Vec::new();
    let mut buf = [0u8; 8192];
    loop {
        let n = sys::read(fd, &mut buf);
        if n == -4 {
            continue;
        }
        if n < 0 {
            sys::close(fd);
            return None;
        }
        if n == 0 {
            break;
        }
        out.extend_from_slice(&buf[..n as usize]);
    }
    sys::close(fd);
    Some(out)
}

/// `path`: NUL terminated path of the case file. Returns the process exit code.
pub fn run(path: &[u8]) -> i32 {
    if !marker::traced() {
        return 3;
    }
    let Some(text) = read_file(path) else {
        return 4;
    };
    sys::ignore_sigpipe();
    let root_pid = sys::getpid();
    let own_pgid = sys::getpgid();
    marker::report(K_BASE_PROC, root_pid, own_pgid, sys::getuid(), sys::getgid());
    for fd in 0..3 {
        if let Some((dev, ino, _)) = sys::fstat(fd) {
            marker::report(K_BASE_STDIO, fd as i64, dev as i64, ino as i64, 0);
        }
    }
    for fd in 3..1024 {
        let fl = sys::fcntl_getfd(fd);
        if fl >= 0 && fl & 1 == 0 {
            marker::report(K_BASE_FD, fd as i64, 0, 0, 0);
        }
    }
    let mut bad = 0;
    for (lineno, line) in text.split(|b| *b == b'\n').enumerate() {
        if line.is_empty() || line[0] == b'#' {
            continue;
        }
        match parse_line(line) {
            Some(c) => run_line(&c, root_pid, own_pgid),
            None => {
                bad += 1;
                marker::report(K_PARSE_ERR, lineno as i64, 0, 0, 0);
            }
        }
    }
    if bad > 0 {
        5
    } else {
        0
    }
}

/// State that lives across the builder calls and spawns of one line
struct St {
    raw: [Option<i32>; 3],
    raw_id: [Option<(u64, u64)>; 3],
    raw_owned: [bool; 3], // opened here (file), to be closed here if the spawn did not take it over
    saved: [isize; 3],    // CLOEXEC copies of the caller's own 0-2 that were handed over or closed
    payload: usize,       // index + 1 into Line::payloads, 0 = none
    wait2: bool,
    try_wait: bool,
    hold_stdin: bool,
    inj: Vec<[i64; 5]>,
    closures: i64,
}

fn save_std(st: &mut St, n: i32) {
    if (0..3).contains(&n) && st.saved[n as usize] < 0 {
        st.saved[n as usize] = sys::dupfd_cloexec(n as isize, 500);
    }
}

fn restore_std(st: &mut St) {
    for n in 0..3 {
        if st.saved[n] >= 0 {
            sys::dup3(st.saved[n], n as isize);
            sys::close(st.saved[n]);
            st.saved[n] = -1;
        }
    }
}

fn run_line(c: &Line, root_pid: i64, own_pgid: i64) {
    let Ok(bin) = UnixStr::try_from_bytes(&c.bin) else {
        marker::report(K_PARSE_ERR, -c.id, 10, 0, 0);
        return;
    };
    let mut arg_refs: Vec<&UnixStr> = Vec::with_capacity(c.args.len());
    for a in &c.args {
        match UnixStr::try_from_bytes(a) {
            Ok(u) => arg_refs.push(u),
            Err(_) => {
                marker::report(K_PARSE_ERR, -c.id, 11, 0, 0);
                return;
            }
        }
    }
    let mut path_refs: Vec<&UnixStr> = Vec::with_capacity(c.paths.len());
    for a in &c.paths {
        match UnixStr::try_from_bytes(a) {
            Ok(u) => path_refs.push(u),
            Err(_) => {
                marker::report(K_PARSE_ERR, -c.id, 13, 0, 0);
                return;
            }
        }
    }
    let mut env_strings: Vec<Option<UnixString>> = Vec::with_capacity(c.envs.len());
    for e in &c.envs {
        match UnixString::try_from_bytes(e) {
            Ok(u) => env_strings.push(Some(u)),
            Err(_) => {
                marker::report(K_PARSE_ERR, -c.id, 12, 0, 0);
                return;
            }
        }
    }
    let multi = c.spawn_ids.len() > 1;
    let mut spawn_ix = 0usize;
    let mut st = St {
        raw: [None, None, None],
        raw_id: [None, None, None],
        raw_owned: [false, false, false],
        saved: [-1, -1, -1],
        payload: 0,
        wait2: false,
        try_wait: false,
        hold_stdin: false,
        inj: Vec::new(),
        closures: 0,
    };
    let mut id = c.spawn_ids[0];
    CUR_CASE.store(id, Ordering::Relaxed);
    marker::begin(SCENARIO, id, 0);
    let Ok(mut cmd) = Command::new(bin) else {
        marker::report(K_PARSE_ERR, -id, 14, 0, 0);
        marker::end(SCENARIO, id, 0, 0, 0);
        return;
    };
    for op in &c.ops {
        match op {
            Op::Arg(i) => {
                cmd.arg(arg_refs[*i]);
            }
            Op::Args(a, b) => {
                cmd.args(arg_refs[*a..*b].iter().copied());
            }
            Op::Env(i) => {
                if let Some(e) = env_strings[*i].take() {
                    cmd.env(e);
                }
            }
            Op::Envs(a, b) => {
                let mut batch = Vec::with_capacity(*b - *a);
                for i in *a..*b {
                    if let Some(e) = env_strings[i].take() {
                        batch.push(e);
                    }
                }
                cmd.envs(batch.into_iter());
            }
            Op::Cwd(i) => {
                cmd.cwd(path_refs[*i]);
            }
            Op::Uid(u) => {
                cmd.uid(*u as u32);
            }
            Op::Gid(g) => {
                cmd.gid(*g as u32);
            }
            Op::Pg(p) => {
                cmd.pgroup(if *p == -1 { own_pgid as i32 } else { *p as i32 });
            }
            Op::Io(s, io) => {
                let s = *s;
                let st_io = match io {
                    Io::Inherit => Stdio::Inherit,
                    Io::Null => Stdio::Null,
                    Io::Pipe => Stdio::MakePipe,
                    _ => {
                        // descriptors handed over with Stdio::RawFd: files are opened here, CLOEXEC
                        let (fd, owned) = match io {
                            Io::FileR(p) => (sys::open(p, 0o2000000, 0), true),
                            Io::FileW(p) => (sys::open(p, 0o2000000 | 0o1 | 0o100 | 0o2000, 0o666), true), // WRONLY|CREAT|APPEND
                            Io::FileRW(p) => (sys::open(p, 0o2000000 | 0o2 | 0o100, 0o666), true), // RDWR|CREAT
                            Io::Share(k) if *k < 3 => (st.raw[*k].map_or(-1, |fd| fd as isize), false),
                            Io::Raw(n) => {
                                // the caller's own 0-2 are taken over (and closed) by the spawn: keep a copy
                                save_std(&mut st, *n);
                                (*n as isize, false)
                            }
                            _ => (-1, false),
                        };
                        if fd < 0 {
                            marker::report(K_PARSE_ERR, -id, s as i64, fd as i64, 0);
                            continue;
                        }
                        st.raw[s] = Some(fd as i32);
                        st.raw_owned[s] = owned;
                        if let Some((dev, ino, _)) = sys::fstat(fd) {
                            marker::report(K_RAWFD, id, s as i64, dev as i64, ino as i64);
                            st.raw_id[s] = Some((dev, ino));
                        }
                        match Fd::try_new(fd as i32) {
                            Ok(fd) => Stdio::RawFd(fd),
                            Err(_) => continue,
                        }
                    }
                };
                match s {
                    0 => cmd.stdin(st_io),
                    1 => cmd.stdout(st_io),
                    _ => cmd.stderr(st_io),
                };
            }
            Op::Pre(n) => {
                for _ in 0..*n {
                    let idx = st.closures;
                    st.closures += 1;
                    let f: Box<dyn FnMut() -> tiny_std::Result<()> + Send + Sync> = Box::new(move || {
                        marker::report(K_PREEXEC, CUR_CASE.load(Ordering::Relaxed), idx, 0, 0);
                        Ok(())
                    });
                    unsafe {
                        cmd.pre_exec(f);
                    }
                }
            }
            Op::PreFail(code) => {
                let idx = st.closures;
                st.closures += 1;
                let code = *code;
                let f: Box<dyn FnMut() -> tiny_std::Result<()> + Send + Sync> = Box::new(move || {
                    marker::report(K_PREEXEC, CUR_CASE.load(Ordering::Relaxed), idx, code, 0);
                    Err(Error::Os {
                        msg: "c13 pre-exec closure",
                        code: Errno::new(code as i32),
                    })
                });
                unsafe {
                    cmd.pre_exec(f);
                }
            }
            Op::PreNoCode => {
                // a closure failing with an error that carries no OS code (reported with code -1 in the marker)
                let idx = st.closures;
                st.closures += 1;
                let f: Box<dyn FnMut() -> tiny_std::Result<()> + Send + Sync> = Box::new(move || {
                    marker::report(K_PREEXEC, CUR_CASE.load(Ordering::Relaxed), idx, -1, 0);
                    Err(Error::Uncategorized("c13 pre-exec closure without code"))
                });
                unsafe {
                    cmd.pre_exec(f);
                }
            }
            Op::PreYield => {
                // a closure that issues a system call of its own (sched_yield) and fails with its errno when it is refused
                let idx = st.closures;
                st.closures += 1;
                let f: Box<dyn FnMut() -> tiny_std::Result<()> + Send + Sync> = Box::new(move || {
                    marker::report(K_PREEXEC, CUR_CASE.load(Ordering::Relaxed), idx, 0, 1);
                    let r = unsafe { sys::sc6(24, 0, 0, 0, 0, 0, 0) };
                    if r < 0 {
                        Err(Error::Os {
                            msg: "c13 pre-exec closure: sched_yield refused",
                            code: Errno::new((-r) as i32),
                        })
                    } else {
                        Ok(())
                    }
                });
                unsafe {
                    cmd.pre_exec(f);
                }
            }
            Op::Inj(j) => st.inj.push(*j),
            Op::Payload(i) => st.payload = *i + 1,
            Op::Wait2(b) => st.wait2 = *b,
            Op::TryWait(b) => st.try_wait = *b,
            Op::HoldStdin(b) => st.hold_stdin = *b,
            Op::CloseFd(n) => {
                if (0..3).contains(n) {
                    save_std(&mut st, *n as i32);
                    sys::close(*n as isize);
                }
            }
            Op::Spawn(_) => {
                let empty: Vec<u8> = Vec::new();
                let payload: &[u8] = if st.payload > 0 { &c.payloads[st.payload - 1] } else { &empty };
                spawn_and_observe(&mut cmd, id, root_pid, &mut st, payload);
                if multi {
                    // the next spawn of the same Command execs the same program: move this dump out of the way
                    let mut from = c.bin[..c.bin.len() - 1].to_vec();
                    from.extend_from_slice(b".dump");
                    let mut to = from.clone();
                    to.push(b'.');
                    let mut digits = [0u8; 20];
                    let mut n = id;
                    let mut k = 0;
                    loop {
                        digits[k] = b'0' + (n % 10) as u8;
                        k += 1;
                        n /= 10;
                        if n == 0 {
                            break;
                        }
                    }
                    while k > 0 {
                        k -= 1;
                        to.push(digits[k]);
                    }
                    from.push(0);
                    to.push(0);
                    sys::rename(&from, &to);
                }
                marker::end(SCENARIO, id, 0, 0, 0);
                spawn_ix += 1;
                if spawn_ix < c.spawn_ids.len() {
                    id = c.spawn_ids[spawn_ix];
                    CUR_CASE.store(id, Ordering::Relaxed);
                    marker::begin(SCENARIO, id, 0);
                }
            }
        }
    }
    restore_std(&mut st);
}

fn report_wait(kind_marker: i64, id: i64, r: tiny_std::Result<i32>, extra: i64) {
    match r {
        Ok(st) => marker::report(kind_marker, id, 1, st as i64, extra),
        Err(e) => {
            let (k, code) = err_fields(&e);
            marker::report(kind_marker, id, k, code, extra);
        }
    }
}

fn spawn_and_observe(cmd: &mut Command, id: i64, root_pid: i64, st: &mut St, payload: &[u8]) {
    // everything the caller does from here to the RETURNED marker happens inside Command::spawn
    marker::report(K_SPAWN_ENTER, id, 0, 0, 0);
    for j in st.inj.drain(..) {
        marker::inject(j[0], j[1], j[2], j[3], j[4]);
    }

    let res = cmd.spawn();

    match &res {
        Ok(_) => marker::report(K_RETURNED, id, 1, 0, 0),
        Err(e) => {
            let (k, code) = err_fields(e);
            marker::report(K_RETURNED, id, k, code, 0);
        }
    }
    if sys::getpid() != root_pid {
        // spawn returned in a process that is not the caller: contain it (the marker above is the evidence)
        sys::exit_group(77);
    }
    marker::disarm();
    // a RawFd descriptor is owned by the spawn and normally closed by it; when spawn failed before
    // taking it over it is still ours: close it if (and only if) it still designates the same file
    for s in 0..3 {
        if let (true, Some(fd)) = (st.raw_owned[s], st.raw[s]) {
            if let (Some(now), Some(was)) = (sys::fstat(fd as isize), st.raw_id[s]) {
                if (now.0, now.1) == was {
                    sys::close(fd as isize);
                }
            }
        }
        st.raw_owned[s] = false;
    }
    if let Ok(mut child) = res {
        marker::report(K_CHILD_PID, id, child.get_pid() as i64, 0, 0);
        if let Some(p) = &child.stdin {
            if let Some((dev, ino, _)) = sys::fstat(p.borrow_fd().as_raw_fd().value() as isize) {
                marker::report(K_PIPE, id, 0, dev as i64, ino as i64);
            }
        }
        if let Some(p) = &child.stdout {
            if let Some((dev, ino, _)) = sys::fstat(p.borrow_fd().as_raw_fd().value() as isize) {
                marker::report(K_PIPE, id, 1, dev as i64, ino as i64);
            }
        }
        if let Some(p) = &child.stderr {
            if let Some((dev, ino, _)) = sys::fstat(p.borrow_fd().as_raw_fd().value() as isize) {
                marker::report(K_PIPE, id, 2, dev as i64, ino as i64);
            }
        }
        let hold = st.hold_stdin && !st.try_wait && child.stdin.is_some();
        if let Some(p) = child.stdin.as_mut() {
            let mut off = 0usize;
            let mut ok = true;
            while off < payload.len() {
                match p.write(&payload[off..]) {
                    Ok(0) | Err(_) => {
                        ok = false;
                        break;
                    }
                    Ok(n) => off += n,
                }
            }
            marker::report(K_STDIN_WRITE, id, if ok { off as i64 } else { -1 }, i64::from(hold), 0);
        }
        if hold {
            // the Child still owns its stdin pipe: closing it (EOF for the program) is wait()'s job.
            // The helper writes its few output bytes only after EOF, they fit into the pipe buffers.
            report_wait(K_WAITED, id, child.wait(), 0);
        } else {
            drop(child.stdin.take()); // EOF for the helper
        }
        for (ix, pipe) in [child.stdout.take(), child.stderr.take()].into_iter().enumerate() {
            let Some(mut p) = pipe else { continue };
            let mut acc = Vec::new();
            let mut buf = [0u8; 4096];
            let mut ok = true;
            loop {
                match p.read(&mut buf) {
                    Ok(0) => break,
                    Ok(n) => acc.extend_from_slice(&buf[..n]),
                    Err(e) if e.matches_errno(Errno::EINTR) => {}
                    Err(_) => {
                        ok = false;
                        break;
                    }
                }
                if acc.len() > (1 << 20) {
                    ok = false;
                    break;
                }
            }
            marker::report(K_PIPE_READ, id, ix as i64 + 1, if ok { acc.len() as i64 } else { -1 }, 0);
            marker::bytes(acc.as_ptr(), acc.len(), 1000 + ix as i64 + 1);
        }
        if hold {
            // already waited
        } else if st.try_wait {
            // poll with try_wait until it reports the status; e-field = number of `None` answers
            let mut nones: i64 = 0;
            loop {
                match child.try_wait() {
                    Ok(Some(status)) => {
                        marker::report(K_WAITED, id, 1, status as i64, nones);
                        break;
                    }
                    Ok(None) => {
                        nones += 1;
                        if nones > 20_000 {
                            marker::report(K_WAITED, id, -3, 0, nones);
                            break;
                        }
                        sys::sleep_us(500);
                    }
                    Err(e) => {
                        let (k, code) = err_fields(&e);
                        marker::report(K_WAITED, id, k, code, nones);
                        break;
                    }
                }
            }
        } else {
            report_wait(K_WAITED, id, child.wait(), 0);
        }
        if st.wait2 {
            report_wait(K_SECOND_WAIT, id, child.wait(), 0);
        }
    }
    st.raw = [None, None, None];
    st.raw_id = [None, None, None];
    restore_std(st);
}
