// Shared body of the C13 probes (std-linked `spawn_probe` and no-libc `spawn_probe_nolibc`).
// no_std + alloc only. Everything that is *not* under test (reading the case file, fstat, getpid,
// opening RawFd files) uses the raw system calls below, not rusl/tiny-std wrappers.
//
// Case file: one case per line, space separated `key=value` tokens (byte strings hex encoded):
//   id=<n> bin=<hex> arg=<hex>* env=<hex>* cwd=<hex> uid=<n> gid=<n> pg=<n|-1 (probe's own pgid)>
//   in=|out=|err= <i|n|p|r<hexpath>|w<hexpath>|b<hexpath>|s<stream>|x<fd>>   (absent = not configured)
//       r/w/b: Stdio::RawFd of a file opened here read-only / write-append / read-write; s<k>: the very same
//       descriptor as stream k (k < this stream); x<fd>: that descriptor number as is (0-2 = the caller's own
//       standard streams, which the spawn takes over and closes: they are saved and restored around the case)
//   pre=<count of succeeding closures>  prefail=<index>:<errno>   (closure <index> returns Err(errno))
//   inj=<scope>,<nr>,<k>,<ret>,<count>*   payload=<hex>   wait2=1 (wait twice)   trywait=1 (poll try_wait)
//
// Markers (REPORT a-field): see the K_* constants; the driver (checks/c13.py) reads them from the sysmon log.
use alloc::boxed::Box;
use alloc::vec::Vec;
use rusl::error::Errno;
use rusl::platform::Fd;
use rusl::string::unix_str::{UnixStr, UnixString};
use tiny_std::Error;
use tiny_std::io::{Read, Write};
use tiny_std::process::{Command, Stdio};
use tiny_std::unix::fd::AsRawFd;

use crate::marker;

pub const SCENARIO: i64 = 13;
pub const K_BASE_STDIO: i64 = 100; // (fd, dev, ino, 0)
pub const K_RETURNED: i64 = 101; // (case, kind: 1 ok / 0 os error / -1 uncategorized / -2 timeout, code, 0)
pub const K_CHILD_PID: i64 = 102; // (case, Child::get_pid, 0, 0)
pub const K_PIPE: i64 = 103; // (case, stream, dev, ino) of the pipe end the probe holds
pub const K_WAITED: i64 = 104; // (case, kind, status-or-code, 0)
pub const K_PREEXEC: i64 = 105; // (case, closure index, 0, 0) — issued inside the forked child
pub const K_STDIN_WRITE: i64 = 106; // (case, bytes written or -1, 0, 0)
pub const K_BASE_FD: i64 = 107; // (fd, 0,0,0): descriptor open without CLOEXEC at probe start
pub const K_RAWFD: i64 = 108; // (case, stream, dev, ino) of the descriptor handed to Stdio::RawFd
pub const K_BASE_PROC: i64 = 109; // (pid, pgid, uid, gid)
pub const K_PIPE_READ: i64 = 110; // (case, stream, total bytes or -1, 0); bytes follow as BYTES tag 1000+stream
pub const K_SECOND_WAIT: i64 = 111; // (case, kind, status-or-code, 0) second wait() on the same child
pub const K_PARSE_ERR: i64 = 199; // (line number)

mod sys {
    #[inline(always)]
    pub unsafe fn sc6(nr: usize, a: usize, b: usize, c: usize, d: usize, e: usize, f: usize) -> isize {
        let ret: isize;
        core::arch::asm!(
            "syscall",
            inlateout("rax") nr as isize => ret,
            in("rdi") a, in("rsi") b, in("rdx") c, in("r10") d, in("r8") e, in("r9") f,
            lateout("rcx") _, lateout("r11") _,
            options(nostack)
        );
        ret
    }
    /// SIGPIPE -> SIG_IGN (a write into a pipe whose reader is gone must come back as EPIPE)
    pub fn ignore_sigpipe() {
        let act: [u64; 4] = [1, 0, 0, 0];
        unsafe {
            sc6(13, 13, act.as_ptr() as usize, 0, 8, 0, 0);
        }
    }
    pub fn sleep_us(us: u64) {
        let ts: [u64; 2] = [us / 1_000_000, (us % 1_000_000) * 1000];
        unsafe {
            sc6(35, ts.as_ptr() as usize, 0, 0, 0, 0, 0);
        }
    }
    pub fn getpid() -> i64 {
        unsafe { sc6(39, 0, 0, 0, 0, 0, 0) as i64 }
    }
    pub fn getpgid() -> i64 {
        unsafe { sc6(121, 0, 0, 0, 0, 0, 0) as i64 }
    }
    pub fn getuid() -> i64 {
        unsafe { sc6(102, 0, 0, 0, 0, 0, 0) as i64 }
    }
    pub fn getgid() -> i64 {
        unsafe { sc6(104, 0, 0, 0, 0, 0, 0) as i64 }
    }
    pub fn exit_group(code: i32) -> ! {
        unsafe {
            sc6(231, code as usize, 0, 0, 0, 0, 0);
        }
        loop {}
    }
    /// path must be NUL terminated
    pub fn open(path: &[u8], flags: usize, mode: usize) -> isize {
        unsafe { sc6(2, path.as_ptr() as usize, flags, mode, 0, 0, 0) }
    }
    pub fn read(fd: isize, buf: &mut [u8]) -> isize {
        unsafe { sc6(0, fd as usize, buf.as_mut_ptr() as usize, buf.len(), 0, 0, 0) }
    }
    pub fn close(fd: isize) -> isize {
        unsafe { sc6(3, fd as usize, 0, 0, 0, 0, 0) }
    }
    pub fn dupfd_cloexec(fd: isize, min: usize) -> isize {
        unsafe { sc6(72, fd as usize, 1030, min, 0, 0, 0) }
    }
    pub fn dup3(old: isize, new: isize) -> isize {
        unsafe { sc6(292, old as usize, new as usize, 0, 0, 0, 0) }
    }
    pub fn fcntl_getfd(fd: isize) -> isize {
        unsafe { sc6(72, fd as usize, 1, 0, 0, 0, 0) }
    }
    /// (dev, ino, mode) or None
    pub fn fstat(fd: isize) -> Option<(u64, u64, u32)> {
        let mut st = [0u64; 18];
        let r = unsafe { sc6(5, fd as usize, st.as_mut_ptr() as usize, 0, 0, 0, 0) };
        if r < 0 {
            None
        } else {
            Some((st[0], st[1], st[3] as u32))
        }
    }
}

fn unhex(s: &[u8]) -> Option<Vec<u8>> {
    if s.len() % 2 != 0 {
        return None;
    }
    let mut v = Vec::with_capacity(s.len() / 2 + 1);
    let d = |c: u8| -> Option<u8> {
        match c {
            b'0'..=b'9' => Some(c - b'0'),
            b'a'..=b'f' => Some(c - b'a' + 10),
            _ => None,
        }
    };
    let mut i = 0;
    while i < s.len() {
        v.push(d(s[i])? << 4 | d(s[i + 1])?);
        i += 2;
    }
    Some(v)
}

fn num(s: &[u8]) -> Option<i64> {
    let (neg, s) = if let Some(b'-') = s.first() { (true, &s[1..]) } else { (false, s) };
    if s.is_empty() {
        return None;
    }
    let mut v: i64 = 0;
    for c in s {
        if !c.is_ascii_digit() {
            return None;
        }
        v = v.checked_mul(10)?.checked_add((*c - b'0') as i64)?;
    }
    Some(if neg { -v } else { v })
}

/// NUL-terminated copy
fn cstr(mut v: Vec<u8>) -> Vec<u8> {
    v.push(0);
    v
}

#[derive(Clone)]
enum Io {
    Unset,
    Inherit,
    Null,
    Pipe,
    FileR(Vec<u8>), // NUL terminated path
    FileW(Vec<u8>),
    FileRW(Vec<u8>),
    Share(usize),
    Raw(i32),
}

struct Case {
    id: i64,
    bin: Vec<u8>,
    args: Vec<Vec<u8>>,
    envs: Vec<Vec<u8>>,
    cwd: Option<Vec<u8>>,
    uid: Option<i64>,
    gid: Option<i64>,
    pg: Option<i64>,
    io: [Io; 3],
    pre: i64,
    prefail: Option<(i64, i64)>,
    inj: Vec<[i64; 5]>,
    payload: Vec<u8>,
    wait_twice: bool,
    try_wait: bool,
}

fn parse_io(v: &[u8]) -> Option<Io> {
    match v.first()? {
        b'i' => Some(Io::Inherit),
        b'n' => Some(Io::Null),
        b'p' => Some(Io::Pipe),
        b'r' => Some(Io::FileR(cstr(unhex(&v[1..])?))),
        b'w' => Some(Io::FileW(cstr(unhex(&v[1..])?))),
        b'b' => Some(Io::FileRW(cstr(unhex(&v[1..])?))),
        b's' => Some(Io::Share(num(&v[1..])? as usize)),
        b'x' => Some(Io::Raw(num(&v[1..])? as i32)),
        _ => None,
    }
}

fn parse_case(line: &[u8]) -> Option<Case> {
    let mut c = Case {
        id: -1,
        bin: Vec::new(),
        args: Vec::new(),
        envs: Vec::new(),
        cwd: None,
        uid: None,
        gid: None,
        pg: None,
        io: [Io::Unset, Io::Unset, Io::Unset],
        pre: 0,
        prefail: None,
        inj: Vec::new(),
        payload: Vec::new(),
        wait_twice: false,
        try_wait: false,
    };
    for tok in line.split(|b| *b == b' ') {
        if tok.is_empty() {
            continue;
        }
        let eq = tok.iter().position(|b| *b == b'=')?;
        let (k, v) = (&tok[..eq], &tok[eq + 1..]);
        match k {
            b"id" => c.id = num(v)?,
            b"bin" => c.bin = cstr(unhex(v)?),
            b"arg" => c.args.push(cstr(unhex(v)?)),
            b"env" => c.envs.push(cstr(unhex(v)?)),
            b"cwd" => c.cwd = Some(cstr(unhex(v)?)),
            b"uid" => c.uid = Some(num(v)?),
            b"gid" => c.gid = Some(num(v)?),
            b"pg" => c.pg = Some(num(v)?),
            b"in" => c.io[0] = parse_io(v)?,
            b"out" => c.io[1] = parse_io(v)?,
            b"err" => c.io[2] = parse_io(v)?,
            b"pre" => c.pre = num(v)?,
            b"prefail" => {
                let p = v.iter().position(|b| *b == b':')?;
                c.prefail = Some((num(&v[..p])?, num(&v[p + 1..])?));
            }
            b"inj" => {
                let mut a = [0i64; 5];
                let mut n = 0;
                for part in v.split(|b| *b == b',') {
                    if n >= 5 {
                        return None;
                    }
                    a[n] = num(part)?;
                    n += 1;
                }
                if n != 5 {
                    return None;
                }
                c.inj.push(a);
            }
            b"payload" => c.payload = unhex(v)?,
            b"wait2" => c.wait_twice = num(v)? != 0,
            b"trywait" => c.try_wait = num(v)? != 0,
            _ => return None,
        }
    }
    if c.id < 0 || c.bin.is_empty() {
        return None;
    }
    Some(c)
}

fn err_fields(e: &Error) -> (i64, i64) {
    match e {
        Error::Os { code, .. } => (0, code.raw() as i64),
        Error::Uncategorized(_) => (-1, 0),
        Error::Timeout => (-2, 0),
    }
}

fn read_file(path: &[u8]) -> Option<Vec<u8>> {
    let fd = sys::open(path, 0o2000000, 0); // O_RDONLY|O_CLOEXEC
    if fd < 0 {
        return None;
    }
    let mut out = Vec::new();
    let mut buf = [0u8; 8192];
    loop {
        let n = sys::read(fd, &mut buf);
        if n == -4 {
            continue;
        }
        if n < 0 {
            sys::close(fd);
            return None;
        }
        if n == 0 {
            break;
        }
        out.extend_from_slice(&buf[..n as usize]);
    }
    sys::close(fd);
    Some(out)
}

/// `path`: NUL terminated path of the case file. Returns the process exit code.
pub fn run(path: &[u8]) -> i32 {
    if !marker::traced() {
        return 3;
    }
    let Some(text) = read_file(path) else {
        return 4;
    };
    sys::ignore_sigpipe();
    let root_pid = sys::getpid();
    let own_pgid = sys::getpgid();
    marker::report(K_BASE_PROC, root_pid, own_pgid, sys::getuid(), sys::getgid());
    for fd in 0..3 {
        if let Some((dev, ino, _)) = sys::fstat(fd) {
            marker::report(K_BASE_STDIO, fd as i64, dev as i64, ino as i64, 0);
        }
    }
    for fd in 3..1024 {
        let fl = sys::fcntl_getfd(fd);
        if fl >= 0 && fl & 1 == 0 {
            marker::report(K_BASE_FD, fd as i64, 0, 0, 0);
        }
    }
    let mut bad = 0;
    for (lineno, line) in text.split(|b| *b == b'\n').enumerate() {
        if line.is_empty() || line[0] == b'#' {
            continue;
        }
        match parse_case(line) {
            Some(c) => run_case(&c, root_pid, own_pgid),
            None => {
                bad += 1;
                marker::report(K_PARSE_ERR, lineno as i64, 0, 0, 0);
            }
        }
    }
    if bad > 0 {
        5
    } else {
        0
    }
}

fn run_case(c: &Case, root_pid: i64, own_pgid: i64) {
    let id = c.id;
    // descriptors handed over with Stdio::RawFd: opened here, CLOEXEC, before anything is armed
    let mut raw: [Option<i32>; 3] = [None, None, None];
    let mut raw_id: [Option<(u64, u64)>; 3] = [None, None, None];
    for s in 0..3 {
        let fd = match &c.io[s] {
            Io::FileR(p) => sys::open(p, 0o2000000, 0),
            Io::FileW(p) => sys::open(p, 0o2000000 | 0o1 | 0o100 | 0o2000, 0o666), // WRONLY|CREAT|APPEND|CLOEXEC
            Io::FileRW(p) => sys::open(p, 0o2000000 | 0o2 | 0o100, 0o666), // RDWR|CREAT|CLOEXEC
            Io::Share(k) if *k < s => match raw[*k] {
                Some(fd) => fd as isize,
                None => -1,
            },
            Io::Raw(n) => *n as isize,
            _ => continue,
        };
        if fd < 0 {
            marker::report(K_PARSE_ERR, -id, s as i64, fd as i64, 0);
            return;
        }
        raw[s] = Some(fd as i32);
        if let Some((dev, ino, _)) = sys::fstat(fd) {
            marker::report(K_RAWFD, id, s as i64, dev as i64, ino as i64);
            raw_id[s] = Some((dev, ino));
        }
    }
    // the caller's own standard descriptors handed over as RawFd are closed by the spawn (ownership transfer):
    // keep a CLOEXEC copy to put them back afterwards
    let mut saved: [isize; 3] = [-1, -1, -1];
    for s in 0..3 {
        if let Io::Raw(n) = &c.io[s] {
            if (0..3).contains(n) && saved[*n as usize] < 0 {
                saved[*n as usize] = sys::dupfd_cloexec(*n as isize, 500);
            }
        }
    }
    let Ok(bin) = UnixStr::try_from_bytes(&c.bin) else {
        marker::report(K_PARSE_ERR, -id, 10, 0, 0);
        return;
    };
    let mut arg_refs: Vec<&UnixStr> = Vec::with_capacity(c.args.len());
    for a in &c.args {
        match UnixStr::try_from_bytes(a) {
            Ok(u) => arg_refs.push(u),
            Err(_) => {
                marker::report(K_PARSE_ERR, -id, 11, 0, 0);
                return;
            }
        }
    }
    let mut env_strings: Vec<UnixString> = Vec::with_capacity(c.envs.len());
    for e in &c.envs {
        match UnixString::try_from_bytes(e) {
            Ok(u) => env_strings.push(u),
            Err(_) => {
                marker::report(K_PARSE_ERR, -id, 12, 0, 0);
                return;
            }
        }
    }
    let cwd_ref = match &c.cwd {
        Some(p) => match UnixStr::try_from_bytes(p) {
            Ok(u) => Some(u),
            Err(_) => {
                marker::report(K_PARSE_ERR, -id, 13, 0, 0);
                return;
            }
        },
        None => None,
    };

    marker::begin(SCENARIO, id, 0);
    let Ok(mut cmd) = Command::new(bin) else {
        marker::report(K_PARSE_ERR, -id, 14, 0, 0);
        marker::end(SCENARIO, id, 0, 0, 0);
        return;
    };
    // arguments alternately one by one and in bulk, as the two entry points share the vector upkeep
    if id % 2 == 0 {
        for a in &arg_refs {
            cmd.arg(a);
        }
    } else {
        cmd.args(arg_refs.iter().copied());
    }
    if id % 3 == 0 {
        cmd.envs(env_strings.into_iter());
    } else {
        for e in env_strings {
            cmd.env(e);
        }
    }
    if let Some(d) = cwd_ref {
        cmd.cwd(d);
    }
    if let Some(u) = c.uid {
        cmd.uid(u as u32);
    }
    if let Some(g) = c.gid {
        cmd.gid(g as u32);
    }
    if let Some(p) = c.pg {
        cmd.pgroup(if p == -1 { own_pgid as i32 } else { p as i32 });
    }
    for s in 0..3 {
        let st = match &c.io[s] {
            Io::Unset => continue,
            Io::Inherit => Stdio::Inherit,
            Io::Null => Stdio::Null,
            Io::Pipe => Stdio::MakePipe,
            Io::FileR(_) | Io::FileW(_) | Io::FileRW(_) | Io::Share(_) | Io::Raw(_) => match Fd::try_new(raw[s].unwrap_or(-1)) {
                Ok(fd) => Stdio::RawFd(fd),
                Err(_) => continue,
            },
        };
        match s {
            0 => cmd.stdin(st),
            1 => cmd.stdout(st),
            _ => cmd.stderr(st),
        };
    }
    let total_closures = c.pre + i64::from(c.prefail.is_some());
    for idx in 0..total_closures {
        let fail = match c.prefail {
            Some((at, code)) if at == idx => Some(code),
            _ => None,
        };
        let f: Box<dyn FnMut() -> tiny_std::Result<()> + Send + Sync> = Box::new(move || {
            marker::report(K_PREEXEC, id, idx, fail.unwrap_or(0), 0);
            match fail {
                Some(code) => Err(Error::Os {
                    msg: "c13 pre-exec closure",
                    code: Errno::new(code as i32),
                }),
                None => Ok(()),
            }
        });
        unsafe {
            cmd.pre_exec(f);
        }
    }
    for j in &c.inj {
        marker::inject(j[0], j[1], j[2], j[3], j[4]);
    }

    let res = cmd.spawn();

    match &res {
        Ok(_) => marker::report(K_RETURNED, id, 1, 0, 0),
        Err(e) => {
            let (k, code) = err_fields(e);
            marker::report(K_RETURNED, id, k, code, 0);
        }
    }
    if sys::getpid() != root_pid {
        // spawn returned in a process that is not the caller: contain it (the marker above is the evidence)
        sys::exit_group(77);
    }
    marker::disarm();
    for n in 0..3 {
        if saved[n] >= 0 {
            sys::dup3(saved[n], n as isize);
            sys::close(saved[n]);
        }
    }
    // a RawFd descriptor is owned by the spawn and normally closed by it; when spawn failed before
    // taking it over it is still ours: close it if (and only if) it still designates the same file
    for s in 0..3 {
        if let (Io::FileR(_) | Io::FileW(_) | Io::FileRW(_), Some(fd)) = (&c.io[s], raw[s]) {
            if let (Some(now), Some(was)) = (sys::fstat(fd as isize), raw_id[s]) {
                if (now.0, now.1) == was {
                    sys::close(fd as isize);
                }
            }
        }
    }
    if let Ok(mut child) = res {
        marker::report(K_CHILD_PID, id, child.get_pid() as i64, 0, 0);
        if let Some(p) = &child.stdin {
            if let Some((dev, ino, _)) = sys::fstat(p.borrow_fd().as_raw_fd().value() as isize) {
                marker::report(K_PIPE, id, 0, dev as i64, ino as i64);
            }
        }
        if let Some(p) = &child.stdout {
            if let Some((dev, ino, _)) = sys::fstat(p.borrow_fd().as_raw_fd().value() as isize) {
                marker::report(K_PIPE, id, 1, dev as i64, ino as i64);
            }
        }
        if let Some(p) = &child.stderr {
            if let Some((dev, ino, _)) = sys::fstat(p.borrow_fd().as_raw_fd().value() as isize) {
                marker::report(K_PIPE, id, 2, dev as i64, ino as i64);
            }
        }
        if let Some(mut p) = child.stdin.take() {
            let mut off = 0usize;
            let mut ok = true;
            while off < c.payload.len() {
                match p.write(&c.payload[off..]) {
                    Ok(0) | Err(_) => {
                        ok = false;
                        break;
                    }
                    Ok(n) => off += n,
                }
            }
            marker::report(K_STDIN_WRITE, id, if ok { off as i64 } else { -1 }, 0, 0);
            drop(p); // EOF for the helper
        }
        let mut outs: [Option<Vec<u8>>; 2] = [None, None];
        for (ix, pipe) in [child.stdout.take(), child.stderr.take()].into_iter().enumerate() {
            let Some(mut p) = pipe else { continue };
            let mut acc = Vec::new();
            let mut buf = [0u8; 4096];
            let mut ok = true;
            loop {
                match p.read(&mut buf) {
                    Ok(0) => break,
                    Ok(n) => acc.extend_from_slice(&buf[..n]),
                    Err(e) if e.matches_errno(Errno::EINTR) => {}
                    Err(_) => {
                        ok = false;
                        break;
                    }
                }
                if acc.len() > (1 << 20) {
                    ok = false;
                    break;
                }
            }
            marker::report(K_PIPE_READ, id, ix as i64 + 1, if ok { acc.len() as i64 } else { -1 }, 0);
            marker::bytes(acc.as_ptr(), acc.len(), 1000 + ix as i64 + 1);
            outs[ix] = Some(acc);
        }
        if c.try_wait {
            // poll with try_wait until it reports the status; e-field = number of `None` answers
            let mut nones: i64 = 0;
            loop {
                match child.try_wait() {
                    Ok(Some(st)) => {
                        marker::report(K_WAITED, id, 1, st as i64, nones);
                        break;
                    }
                    Ok(None) => {
                        nones += 1;
                        if nones > 20_000 {
                            marker::report(K_WAITED, id, -3, 0, nones);
                            break;
                        }
                        sys::sleep_us(500);
                    }
                    Err(e) => {
                        let (k, code) = err_fields(&e);
                        marker::report(K_WAITED, id, k, code, nones);
                        break;
                    }
                }
            }
        } else {
            match child.wait() {
                Ok(st) => marker::report(K_WAITED, id, 1, st as i64, 0),
                Err(e) => {
                    let (k, code) = err_fields(&e);
                    marker::report(K_WAITED, id, k, code, 0);
                }
            }
        }
        if c.wait_twice {
            match child.wait() {
                Ok(st) => marker::report(K_SECOND_WAIT, id, 1, st as i64, 0),
                Err(e) => {
                    let (k, code) = err_fields(&e);
                    marker::report(K_SECOND_WAIT, id, k, code, 0);
                }
            }
        }
    }
    marker::end(SCENARIO, id, 0, 0, 0);
}
