//! spawn_probe — std-linked probe for C13 (tiny-std built WITHOUT the `start` feature).
//! usage (under sysmon): spawn_probe <case file>     — see core.rs for the case format and the markers.
extern crate alloc;

#[path = "/verif/engines/sysmon/marker.rs"]
mod marker;
#[path = "core.rs"]
mod core_;

fn main() {
    use std::os::unix::ffi::OsStrExt;
    let Some(path) = std::env::args_os().nth(1) else {
        eprintln!("usage: spawn_probe <case file>");
        std::process::exit(2);
    };
    let mut p = path.as_bytes().to_vec();
    p.push(0);
    let rc = core_::run(&p);
    std::process::exit(rc);
}
