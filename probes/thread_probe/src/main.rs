//! thread_probe — no-libc probe for C05/C06 (tiny-std threads).
//!
//! argv: thread_probe <scenario> <seed> <n> [quarantine 0|1]
//! scenarios: cells | mixed | churn | fault_clone | fault_mmap | heapres | spurious
//!
//! Monitors inside the probe:
//!  * a counting / quarantining global allocator wrapping the repository's Dlmalloc (live multiset,
//!    double free, foreign free, layout mismatch, write-after-free via poison re-check)
//!  * per-closure run counters, tagged results, a plain (non-atomic) buffer filled by the closure
//!    just before returning (visibility after join)
//!  * H3 point callback: counts which side released the join state, injects seeded delays
//! Reports '@@' lines on stdout (see /verif/lib/vlib.py) and markers for sysmon.
#![no_std]
#![no_main]
#![allow(static_mut_refs)]
extern crate alloc;

use alloc::vec::Vec;
use core::alloc::{GlobalAlloc, Layout};
use core::sync::atomic::{AtomicBool, AtomicU32, AtomicU64, AtomicUsize, Ordering};
use core::time::Duration;
use tiny_std::allocator::dlmalloc::Dlmalloc;
use tiny_std::println;
use tiny_std::thread::JoinHandle;

#[path = "/verif/engines/sysmon/marker.rs"]
mod marker;

// ------------------------------------------------------------------------------------------
// monitor allocator
// ------------------------------------------------------------------------------------------
struct Mon;
#[global_allocator]
static GLOBAL: Mon = Mon;

static LOCK: AtomicBool = AtomicBool::new(false);
static mut DL: Dlmalloc = Dlmalloc::new();

const TAB: usize = 1 << 16;
const EMPTY: usize = 0;
const TOMB: usize = 1;
#[derive(Copy, Clone)]
struct Ent {
    ptr: usize,
    size: usize,
    align: usize,
}
static mut TABLE: [Ent; TAB] = [Ent {
    ptr: 0,
    size: 0,
    align: 0,
}; TAB];
static mut LIVE_COUNT: usize = 0;
static mut LIVE_BYTES: usize = 0;
static mut N_ALLOC: u64 = 0;
static mut N_FREE: u64 = 0;
static mut TOMBS: usize = 0;

const QMAX: usize = 512;
static mut QUAR: [Ent; QMAX] = [Ent {
    ptr: 0,
    size: 0,
    align: 0,
}; QMAX];
static mut QHEAD: usize = 0;
static mut QLEN: usize = 0;
static QUAR_ON: AtomicBool = AtomicBool::new(true);
static mut POISON_CHECKS: u64 = 0;

const E_DOUBLE_FREE: u32 = 1;
const E_FOREIGN_FREE: u32 = 2;
const E_LAYOUT: u32 = 3;
const E_POISON: u32 = 4;
const E_TABLE_FULL: u32 = 5;
#[derive(Copy, Clone)]
struct ErrEnt {
    kind: u32,
    ptr: usize,
    size: usize,
    align: usize,
    x: usize,
    y: usize,
}
static mut ERRS: [ErrEnt; 32] = [ErrEnt {
    kind: 0,
    ptr: 0,
    size: 0,
    align: 0,
    x: 0,
    y: 0,
}; 32];
static mut NERR: usize = 0;

fn lock() {
    let mut spins = 0u32;
    while LOCK
        .compare_exchange_weak(false, true, Ordering::Acquire, Ordering::Relaxed)
        .is_err()
    {
        core::hint::spin_loop();
        spins += 1;
        if spins > 200 {
            spins = 0;
            unsafe {
                sc_yield();
            }
        }
    }
}
fn unlock() {
    LOCK.store(false, Ordering::Release);
}
unsafe fn sc_yield() {
    let _r: usize;
    core::arch::asm!("syscall", inlateout("rax") 24usize => _r, lateout("rcx") _, lateout("r11") _, options(nostack));
}

unsafe fn err(kind: u32, ptr: usize, size: usize, align: usize, x: usize, y: usize) {
    if NERR < ERRS.len() {
        ERRS[NERR] = ErrEnt {
            kind,
            ptr,
            size,
            align,
            x,
            y,
        };
        NERR += 1;
    }
}

#[inline]
fn hash(p: usize) -> usize {
    ((p >> 3).wrapping_mul(0x9E37_79B9_7F4A_7C15usize) >> 20) & (TAB - 1)
}
unsafe fn tab_insert(ptr: usize, size: usize, align: usize) {
    if LIVE_COUNT + TOMBS > TAB - TAB / 4 {
        // rebuild without tombstones would need scratch space; just refuse (inconclusive)
        err(E_TABLE_FULL, ptr, size, align, LIVE_COUNT, TOMBS);
        return;
    }
    let mut i = hash(ptr);
    loop {
        let e = TABLE[i].ptr;
        if e == EMPTY || e == TOMB {
            if e == TOMB {
                TOMBS -= 1;
            }
            TABLE[i] = Ent { ptr, size, align };
            LIVE_COUNT += 1;
            LIVE_BYTES += size;
            return;
        }
        i = (i + 1) & (TAB - 1);
    }
}
unsafe fn tab_find(ptr: usize) -> Option<usize> {
    let mut i = hash(ptr);
    let mut n = 0;
    loop {
        let e = TABLE[i].ptr;
        if e == EMPTY {
            return None;
        }
        if e == ptr {
            return Some(i);
        }
        i = (i + 1) & (TAB - 1);
        n += 1;
        if n > TAB {
            return None;
        }
    }
}
unsafe fn tab_remove(i: usize) {
    LIVE_COUNT -= 1;
    LIVE_BYTES -= TABLE[i].size;
    TABLE[i].ptr = TOMB;
    TOMBS += 1;
}
unsafe fn quar_contains(ptr: usize) -> bool {
    for k in 0..QLEN {
        if QUAR[(QHEAD + k) % QMAX].ptr == ptr {
            return true;
        }
    }
    false
}
unsafe fn quar_release_one() {
    let e = QUAR[QHEAD];
    QHEAD = (QHEAD + 1) % QMAX;
    QLEN -= 1;
    POISON_CHECKS += 1;
    let p = e.ptr as *const u8;
    for off in 0..e.size {
        if p.add(off).read_volatile() != 0xDD {
            err(E_POISON, e.ptr, e.size, e.align, off, p.add(off).read_volatile() as usize);
            break;
        }
    }
    DL.free(e.ptr as *mut u8);
}
unsafe fn quar_drain() {
    while QLEN > 0 {
        quar_release_one();
    }
}

unsafe impl GlobalAlloc for Mon {
    unsafe fn alloc(&self, l: Layout) -> *mut u8 {
        lock();
        let p = DL.malloc(l.size(), l.align());
        if !p.is_null() {
            N_ALLOC += 1;
            tab_insert(p as usize, l.size(), l.align());
        }
        unlock();
        p
    }
    unsafe fn alloc_zeroed(&self, l: Layout) -> *mut u8 {
        lock();
        let p = DL.calloc(l.size(), l.align());
        if !p.is_null() {
            N_ALLOC += 1;
            tab_insert(p as usize, l.size(), l.align());
        }
        unlock();
        p
    }
    unsafe fn dealloc(&self, ptr: *mut u8, l: Layout) {
        lock();
        N_FREE += 1;
        match tab_find(ptr as usize) {
            None => {
                if quar_contains(ptr as usize) {
                    err(E_DOUBLE_FREE, ptr as usize, l.size(), l.align(), 0, 0);
                } else {
                    err(E_FOREIGN_FREE, ptr as usize, l.size(), l.align(), 0, 0);
                }
            }
            Some(i) => {
                let e = TABLE[i];
                if e.size != l.size() || e.align != l.align() {
                    err(E_LAYOUT, ptr as usize, l.size(), l.align(), e.size, e.align);
                }
                tab_remove(i);
                if QUAR_ON.load(Ordering::Relaxed) {
                    core::ptr::write_bytes(ptr, 0xDD, e.size);
                    if QLEN == QMAX {
                        quar_release_one();
                    }
                    QUAR[(QHEAD + QLEN) % QMAX] = e;
                    QLEN += 1;
                } else {
                    DL.free(ptr);
                }
            }
        }
        unlock();
    }
}

/// multiset of live layouts, aggregated: (size, align) -> count; up to 48 distinct layouts
#[derive(Copy, Clone)]
struct Snap {
    n: usize,
    keys: [(usize, usize, isize); 48],
    overflow: bool,
    live: usize,
    bytes: usize,
}
fn snapshot() -> Snap {
    let mut s = Snap {
        n: 0,
        keys: [(0, 0, 0); 48],
        overflow: false,
        live: 0,
        bytes: 0,
    };
    lock();
    unsafe {
        s.live = LIVE_COUNT;
        s.bytes = LIVE_BYTES;
        for i in 0..TAB {
            let e = TABLE[i];
            if e.ptr > TOMB {
                let mut found = false;
                for k in 0..s.n {
                    if s.keys[k].0 == e.size && s.keys[k].1 == e.align {
                        s.keys[k].2 += 1;
                        found = true;
                        break;
                    }
                }
                if !found {
                    if s.n < 48 {
                        s.keys[s.n] = (e.size, e.align, 1);
                        s.n += 1;
                    } else {
                        s.overflow = true;
                    }
                }
            }
        }
    }
    unlock();
    s
}
/// after - before, as (size, align, delta) entries with delta != 0
fn snap_diff(before: &Snap, after: &Snap, out: &mut [(usize, usize, isize); 48]) -> usize {
    let mut n = 0;
    for k in 0..after.n {
        let (s, a, c) = after.keys[k];
        let mut b = 0;
        for j in 0..before.n {
            if before.keys[j].0 == s && before.keys[j].1 == a {
                b = before.keys[j].2;
            }
        }
        if c != b && n < 48 {
            out[n] = (s, a, c - b);
            n += 1;
        }
    }
    for j in 0..before.n {
        let (s, a, c) = before.keys[j];
        let mut present = false;
        for k in 0..after.n {
            if after.keys[k].0 == s && after.keys[k].1 == a {
                present = true;
            }
        }
        if !present && n < 48 {
            out[n] = (s, a, -c);
            n += 1;
        }
    }
    n
}

// ------------------------------------------------------------------------------------------
// small helpers
// ------------------------------------------------------------------------------------------
struct Rng(u64);
impl Rng {
    fn next(&mut self) -> u64 {
        self.0 = self.0.wrapping_add(0x9E37_79B9_7F4A_7C15);
        let mut z = self.0;
        z = (z ^ (z >> 30)).wrapping_mul(0xBF58_476D_1CE4_E5B9);
        z = (z ^ (z >> 27)).wrapping_mul(0x94D0_49BB_1331_11EB);
        z ^ (z >> 31)
    }
    fn below(&mut self, n: u64) -> u64 {
        self.next() % n
    }
}
fn mix(seed: u64, idx: u64) -> u64 {
    let mut r = Rng(seed ^ idx.wrapping_mul(0xD6E8_FEB8_6659_FD93));
    r.next() | 1
}
fn sleep_us(us: u64) {
    if us == 0 {
        return;
    }
    if us < 30 {
        for _ in 0..us * 40 {
            core::hint::spin_loop();
        }
    } else {
        let _ = tiny_std::thread::sleep(Duration::from_micros(us));
    }
}
fn parse_u64(s: &[u8]) -> u64 {
    let mut v = 0u64;
    for &c in s {
        if c.is_ascii_digit() {
            v = v.wrapping_mul(10).wrapping_add(u64::from(c - b'0'));
        }
    }
    v
}
/// (Threads, VmSize kB) from /proc/self/status, no allocation
fn proc_status() -> (u64, u64) {
    let mut buf = [0u8; 4096];
    let mut threads = 0;
    let mut vm = 0;
    if let Ok(fd) = rusl::unistd::open(
        rusl::unix_lit!("/proc/self/status"),
        rusl::platform::OpenFlags::O_RDONLY,
    ) {
        let mut got = 0;
        while got < buf.len() {
            match rusl::unistd::read(fd, &mut buf[got..]) {
                Ok(0) | Err(_) => break,
                Ok(n) => got += n,
            }
        }
        let _ = rusl::unistd::close(fd);
        let b = &buf[..got];
        let mut i = 0;
        while i < b.len() {
            let mut j = i;
            while j < b.len() && b[j] != b'\n' {
                j += 1;
            }
            let line = &b[i..j];
            if line.starts_with(b"Threads:") {
                threads = parse_u64(&line[8..]);
            } else if line.starts_with(b"VmSize:") {
                vm = parse_u64(&line[7..]);
            }
            i = j + 1;
        }
    }
    (threads, vm)
}
/// wait until this process has a single thread again. false = gave up (inconclusive)
fn quiesce() -> bool {
    for k in 0..20_000u32 {
        let (t, _) = proc_status();
        if t == 1 {
            return true;
        }
        sleep_us(if k < 100 { 50 } else { 500 });
    }
    false
}

// ------------------------------------------------------------------------------------------
// H3 point callback + futex callback (observation and seeded delays)
// ------------------------------------------------------------------------------------------
static POINT_HITS: [AtomicU64; 16] = [const { AtomicU64::new(0) }; 16];
static POINT_DELAY_US: [AtomicU32; 16] = [const { AtomicU32::new(0) }; 16];
static FUTEX_WAITS: AtomicU64 = AtomicU64::new(0);
static FUTEX_SLEPT: AtomicU64 = AtomicU64::new(0);
static TRACED: AtomicBool = AtomicBool::new(false);
/// tid -> slot index + 1 of the closure running on that thread (pid_max is 32768 here)
static TIDMAP: [AtomicU32; 65536] = [const { AtomicU32::new(0) }; 65536];
/// set by the joiner right after `join` returned for that slot
static JOINED: [AtomicU32; MAXT] = [const { AtomicU32::new(0) }; MAXT];
/// thread-side epilogue points executed after the joiner already had its `join` return
static LATE_THREAD_CODE: AtomicU64 = AtomicU64::new(0);
fn gettid() -> u32 {
    let r: usize;
    unsafe {
        core::arch::asm!("syscall", inlateout("rax") 186usize => r, lateout("rcx") _, lateout("r11") _, options(nostack));
    }
    r as u32
}
fn point_cb(id: u32) {
    if (300..316).contains(&id) {
        let k = (id - 300) as usize;
        if TRACED.load(Ordering::Relaxed) {
            // lets the driver see, per thread id, which side released what and in which order
            marker::report(90, i64::from(id), 0, 0, 0);
        }
        POINT_HITS[k].fetch_add(1, Ordering::Relaxed);
        let d = POINT_DELAY_US[k].load(Ordering::Relaxed);
        if d > 0 {
            sleep_us(u64::from(d));
        }
    }
    if (304..=307).contains(&id) && LATE_CHECK_ON.load(Ordering::Relaxed) {
        // thread-side epilogue (checked after the seeded delay): if the joiner has already seen `join`
        // return, join did not wait for this thread to finish
        let t = gettid() as usize & 0xFFFF;
        let slot = TIDMAP[t].load(Ordering::Relaxed);
        if slot > 0 && JOINED[(slot - 1) as usize].load(Ordering::Relaxed) == 1 {
            LATE_THREAD_CODE.fetch_add(1, Ordering::Relaxed);
        }
        if id == 305 && slot > 0 {
            // last thing before the thread's hand-over compare-exchange (dropsweep locks its phase on this)
            AT_HANDOVER[(slot - 1) as usize].store(1, Ordering::Release);
        }
    }
}
/// set by the thread immediately before its hand-over compare-exchange
static AT_HANDOVER: [AtomicU32; MAXT] = [const { AtomicU32::new(0) }; MAXT];
/// the "epilogue ran after join returned" oracle costs a system call per epilogue point; dropsweep, which needs
/// the two sides a few nanoseconds apart, switches it off
static LATE_CHECK_ON: AtomicBool = AtomicBool::new(true);
/// 0 = never; otherwise roughly one in SPUR_ONE_IN futex waits gets an injected early return
static SPUR_ONE_IN: AtomicU32 = AtomicU32::new(0);
static SPUR_STATE: AtomicU64 = AtomicU64::new(0x1234_5678_9ABC_DEF1);
static SPUR_EINTR: AtomicU64 = AtomicU64::new(0);
static SPUR_OK: AtomicU64 = AtomicU64::new(0);
/// 0 both, 1 EINTR only, 2 spurious wake-up only
static SPUR_KIND: AtomicU32 = AtomicU32::new(0);
/// exit-window mode: a futex wait of the main thread is held back, before the system call, until the word no
/// longer has the expected value (for a join: until the thread has exited and the kernel has cleared the word).
/// The kernel then answers EAGAIN, exactly as it does when the thread exits between join's own load and the
/// kernel's comparison. Correct code re-reads the word and is done; code that retries the wait without
/// re-reading enters the wait again and again on a word that will never change.
static EXITWIN: AtomicU32 = AtomicU32::new(0);
static EXITWIN_MAIN: AtomicU32 = AtomicU32::new(0);
static EXITWIN_ADDR: AtomicU64 = AtomicU64::new(0);
static EXITWIN_STALE: AtomicU64 = AtomicU64::new(0);
static EXITWIN_REACHED: AtomicU64 = AtomicU64::new(0);
static EXITWIN_TIMEOUT: AtomicU64 = AtomicU64::new(0);
const EXITWIN_STALE_LIMIT: u64 = 20_000;
fn exit_window(addr: usize, val: u32) {
    if gettid() != EXITWIN_MAIN.load(Ordering::Relaxed) {
        return;
    }
    let word = unsafe { &*(addr as *const AtomicU32) };
    if word.load(Ordering::Relaxed) == val {
        EXITWIN_STALE.store(0, Ordering::Relaxed);
        for _ in 0..4000 {
            if word.load(Ordering::Relaxed) != val {
                EXITWIN_REACHED.fetch_add(1, Ordering::Relaxed);
                EXITWIN_ADDR.store(addr as u64, Ordering::Relaxed);
                return;
            }
            sleep_us(50);
        }
        EXITWIN_TIMEOUT.fetch_add(1, Ordering::Relaxed);
        EXITWIN_ADDR.store(0, Ordering::Relaxed);
    } else if EXITWIN_ADDR.load(Ordering::Relaxed) == addr as u64 {
        // the word had already changed when the wait was entered, on the word this thread was just held for
        let n = EXITWIN_STALE.fetch_add(1, Ordering::Relaxed) + 1;
        if n >= EXITWIN_STALE_LIMIT {
            // logical certificate: N consecutive waits on one word, each entered with the word already
            // different from the expected value, none of them preceded by the word having the expected value
            println!(
                "@@VIOL C05/join/retries-futex-wait-forever-after-thread-exit {{\"consecutive_waits_entered_with_changed_word\":{n},\"expected\":{val},\"word\":{}}}",
                word.load(Ordering::Relaxed)
            );
            println!("@@COUNT exit_window_reached {}", EXITWIN_REACHED.load(Ordering::Relaxed));
            tiny_std::process::exit(0);
        }
    } else {
        EXITWIN_STALE.store(0, Ordering::Relaxed);
    }
}
fn futex_cb(ev: u32, _addr: usize, _val: u32, res: isize) -> u32 {
    if ev == rusl::verif::EV_WAIT_ENTER {
        FUTEX_WAITS.fetch_add(1, Ordering::Relaxed);
        if EXITWIN.load(Ordering::Relaxed) != 0 {
            exit_window(_addr, _val);
        }
        let n = SPUR_ONE_IN.load(Ordering::Relaxed);
        if n > 0 {
            // what the kernel may legitimately do to any futex waiter: a signal (EINTR) or a wake-up
            // that was meant for an earlier user of the same word (returns 0 with the value unchanged)
            let mut x = SPUR_STATE.load(Ordering::Relaxed);
            x ^= x << 13;
            x ^= x >> 7;
            x ^= x << 17;
            SPUR_STATE.store(x, Ordering::Relaxed);
            if (x >> 11) % u64::from(n) == 0 {
                let kind = SPUR_KIND.load(Ordering::Relaxed);
                if kind == 1 || (kind == 0 && (x >> 40) & 1 == 0) {
                    SPUR_EINTR.fetch_add(1, Ordering::Relaxed);
                    return rusl::verif::ACT_EINTR;
                }
                SPUR_OK.fetch_add(1, Ordering::Relaxed);
                return rusl::verif::ACT_SPURIOUS_OK;
            }
        }
    } else if ev == rusl::verif::EV_WAIT_EXIT && res == 0 {
        FUTEX_SLEPT.fetch_add(1, Ordering::Relaxed);
    }
    rusl::verif::ACT_PROCEED
}
fn set_delays(r: &mut Rng, on: bool) {
    for k in 0..16 {
        let d = if on && r.below(4) == 0 {
            r.below(300) as u32
        } else {
            0
        };
        POINT_DELAY_US[k].store(d, Ordering::Relaxed);
    }
}

// ------------------------------------------------------------------------------------------
// result kinds
// ------------------------------------------------------------------------------------------
trait Res: Send + 'static {
    const NAME: &'static str;
    const OWNS_HEAP: bool = false;
    /// dropping a value of this kind panics (only used where the runtime, on the thread side, drops it)
    const DROP_PANICS: bool = false;
    fn make(tag: u64) -> Self;
    fn check(&self, tag: u64) -> bool;
}
impl Res for () {
    const NAME: &'static str = "unit";
    fn make(_: u64) {}
    fn check(&self, _: u64) -> bool {
        true
    }
}
impl Res for u8 {
    const NAME: &'static str = "u8";
    fn make(t: u64) -> u8 {
        t as u8
    }
    fn check(&self, t: u64) -> bool {
        *self == t as u8
    }
}
impl Res for u64 {
    const NAME: &'static str = "u64";
    fn make(t: u64) -> u64 {
        t
    }
    fn check(&self, t: u64) -> bool {
        *self == t
    }
}
// result types whose `None` is NOT the all-zero bit pattern (niche encodings): a join after a panic must
// still be `None` whatever the join state's memory held before
impl Res for bool {
    const NAME: &'static str = "bool";
    fn make(t: u64) -> bool {
        t & 2 == 0
    }
    fn check(&self, t: u64) -> bool {
        *self == (t & 2 == 0)
    }
}
impl Res for char {
    const NAME: &'static str = "char";
    fn make(t: u64) -> char {
        char::from_u32((t % 0xD000) as u32).unwrap_or('x')
    }
    fn check(&self, t: u64) -> bool {
        *self == char::from_u32((t % 0xD000) as u32).unwrap_or('x')
    }
}
#[derive(PartialEq, Eq, Clone, Copy)]
enum E3 {
    A,
    B,
    C,
}
impl Res for E3 {
    const NAME: &'static str = "enum3";
    fn make(t: u64) -> E3 {
        [E3::A, E3::B, E3::C][(t % 3) as usize]
    }
    fn check(&self, t: u64) -> bool {
        *self == [E3::A, E3::B, E3::C][(t % 3) as usize]
    }
}
impl Res for core::cmp::Ordering {
    const NAME: &'static str = "ordering";
    fn make(t: u64) -> core::cmp::Ordering {
        (t % 3).cmp(&1)
    }
    fn check(&self, t: u64) -> bool {
        *self == (t % 3).cmp(&1)
    }
}
impl Res for u128 {
    const NAME: &'static str = "u128";
    fn make(t: u64) -> u128 {
        (u128::from(t) << 64) | u128::from(!t)
    }
    fn check(&self, t: u64) -> bool {
        (core::ptr::from_ref(self) as usize) % 16 == 0 && *self == ((u128::from(t) << 64) | u128::from(!t))
    }
}
#[repr(align(4096))]
struct A4096 {
    v: u64,
}
impl Res for A4096 {
    const NAME: &'static str = "align4096";
    fn make(t: u64) -> A4096 {
        A4096 { v: t }
    }
    fn check(&self, t: u64) -> bool {
        (core::ptr::from_ref(self) as usize) % 4096 == 0 && self.v == t
    }
}
/// A result whose destructor panics: when the handle was dropped first, the thread itself drops the unclaimed
/// result, the panic handler then runs with the join state half released
struct PanicDrop(u64);
impl Drop for PanicDrop {
    fn drop(&mut self) {
        panic!("expected panic in a result destructor");
    }
}
impl Res for PanicDrop {
    const NAME: &'static str = "panic-in-drop";
    const DROP_PANICS: bool = true;
    fn make(t: u64) -> PanicDrop {
        PanicDrop(t)
    }
    fn check(&self, t: u64) -> bool {
        self.0 == t
    }
}
struct Big([u8; 4096]);
impl Res for Big {
    const NAME: &'static str = "big4096";
    fn make(t: u64) -> Big {
        let mut b = [0u8; 4096];
        for (i, x) in b.iter_mut().enumerate() {
            *x = (t as usize).wrapping_add(i * 7) as u8;
        }
        Big(b)
    }
    fn check(&self, t: u64) -> bool {
        self.0
            .iter()
            .enumerate()
            .all(|(i, x)| *x == (t as usize).wrapping_add(i * 7) as u8)
    }
}
#[repr(align(64))]
struct A64 {
    v: u64,
    w: [u8; 24],
}
impl Res for A64 {
    const NAME: &'static str = "align64";
    fn make(t: u64) -> A64 {
        A64 {
            v: t,
            w: [t as u8; 24],
        }
    }
    fn check(&self, t: u64) -> bool {
        (core::ptr::from_ref(self) as usize) % 64 == 0 && self.v == t && self.w.iter().all(|x| *x == t as u8)
    }
}
struct HeapRes(Vec<u8>);
impl Res for HeapRes {
    const NAME: &'static str = "heapvec";
    const OWNS_HEAP: bool = true;
    fn make(t: u64) -> HeapRes {
        let n = 1 + (t % 200) as usize;
        let mut v = Vec::with_capacity(n);
        for i in 0..n {
            v.push((t as usize + i) as u8);
        }
        HeapRes(v)
    }
    fn check(&self, t: u64) -> bool {
        self.0.len() == 1 + (t % 200) as usize
            && self.0.iter().enumerate().all(|(i, x)| *x == (t as usize + i) as u8)
    }
}

// ------------------------------------------------------------------------------------------
// cells
// ------------------------------------------------------------------------------------------
#[derive(Copy, Clone, PartialEq, Eq)]
enum Disp {
    JoinEarly, // join while the thread is still running (join parks)
    JoinLate,  // join long after the thread finished
    JoinRace,
    DropEarly, // drop the handle while the thread is still running
    DropLate,  // drop long after the thread finished
    DropRace,
    /// drop while the thread is inside its epilogue (between "result stored" and the hand-shake CAS):
    /// the thread is held there by delays at hook points 304/305
    DropEpilogue,
}
const DISPS: [Disp; 7] = [
    Disp::JoinEarly,
    Disp::JoinLate,
    Disp::JoinRace,
    Disp::DropEarly,
    Disp::DropLate,
    Disp::DropRace,
    Disp::DropEpilogue,
];
fn disp_name(d: Disp) -> &'static str {
    match d {
        Disp::JoinEarly => "join-early",
        Disp::JoinLate => "join-late",
        Disp::JoinRace => "join-race",
        Disp::DropEarly => "drop-early",
        Disp::DropLate => "drop-late",
        Disp::DropRace => "drop-race",
        Disp::DropEpilogue => "drop-in-epilogue",
    }
}

const MAXT: usize = 4096;
static RUNS: [AtomicU32; MAXT] = [const { AtomicU32::new(0) }; MAXT];
static DONE: [AtomicU32; MAXT] = [const { AtomicU32::new(0) }; MAXT];
static GATE: [AtomicU32; MAXT] = [const { AtomicU32::new(0) }; MAXT];
/// plain memory written by closures just before returning; read by main after join
static mut BUF: [[u64; 8]; MAXT] = [[0; 8]; MAXT];

static VIOLS: AtomicUsize = AtomicUsize::new(0);
fn viol(sig: &str, a: &str, x: u64, y: u64, z: u64) {
    if VIOLS.fetch_add(1, Ordering::Relaxed) < 30 {
        println!("@@VIOL {sig} {{\"what\":\"{a}\",\"x\":{x},\"y\":{y},\"z\":{z}}}");
    }
}

struct Out {
    spawned: u64,
    joined_some: u64,
    joined_none: u64,
    dropped: u64,
    spawn_err: u64,
}

/// spawn one thread of result kind T for slot idx
fn spawn_one<T: Res>(idx: usize, tag: u64, panics: bool, wait_gate: bool, work_us: u64) -> tiny_std::Result<JoinHandle<T>> {
    RUNS[idx].store(0, Ordering::Relaxed);
    DONE[idx].store(0, Ordering::Relaxed);
    GATE[idx].store(0, Ordering::Relaxed);
    unsafe {
        BUF[idx] = [0; 8];
    }
    JOINED[idx].store(0, Ordering::Relaxed);
    tiny_std::thread::spawn(move || {
        TIDMAP[gettid() as usize & 0xFFFF].store(idx as u32 + 1, Ordering::Relaxed);
        RUNS[idx].fetch_add(1, Ordering::Relaxed);
        if wait_gate {
            let mut k = 0u32;
            while GATE[idx].load(Ordering::Acquire) == 0 && k < 200_000 {
                sleep_us(20);
                k += 1;
            }
        }
        sleep_us(work_us);
        unsafe {
            let p = core::ptr::addr_of_mut!(BUF[idx]).cast::<u64>();
            for i in 0..8 {
                p.add(i).write(tag.wrapping_add(i as u64));
            }
        }
        if panics {
            // nothing the closure owns may be alive here: locals of a panicking closure are never dropped
            // (that is the documented exception, not a leak of the runtime)
            DONE[idx].store(1, Ordering::Release);
            panic!("expected panic in thread_probe");
        }
        let r = T::make(tag);
        DONE[idx].store(1, Ordering::Release);
        r
    })
}

fn judge_join<T: Res>(idx: usize, tag: u64, panics: bool, got: Option<T>, disp: Disp, o: &mut Out) {
    let runs = RUNS[idx].load(Ordering::Relaxed);
    if runs != 1 {
        viol("C05/closure-run-count-at-join", T::NAME, idx as u64, u64::from(runs), 0);
    }
    // everything the closure wrote must be visible after join
    let b = unsafe { core::ptr::addr_of!(BUF[idx]).read_volatile() };
    let complete = (0..8).all(|i| b[i] == tag.wrapping_add(i as u64));
    if !complete {
        viol(
            "C05/join-returned-before-thread-finished",
            disp_name(disp),
            idx as u64,
            b[0],
            b[7],
        );
    }
    match got {
        Some(v) => {
            o.joined_some += 1;
            if panics {
                viol("C05/join-some-after-panic", T::NAME, idx as u64, 0, 0);
            } else if !v.check(tag) {
                viol("C05/join-wrong-value", T::NAME, idx as u64, tag, 0);
            }
        }
        None => {
            o.joined_none += 1;
            if !panics {
                viol("C05/join-none-without-panic", T::NAME, idx as u64, 0, 0);
            }
        }
    }
}

/// one thread through one cell
fn run_one<T: Res>(idx: usize, seed: u64, disp: Disp, panics: bool, r: &mut Rng, o: &mut Out) {
    let tag = mix(seed, idx as u64);
    let early = matches!(disp, Disp::JoinEarly | Disp::DropEarly);
    let work = match disp {
        Disp::JoinEarly => 800 + r.below(1500),
        Disp::DropEarly => 200 + r.below(600),
        Disp::JoinRace | Disp::DropRace => r.below(40),
        _ => 0,
    };
    let h = match spawn_one::<T>(idx, tag, panics, disp == Disp::DropEarly, work) {
        Ok(h) => h,
        Err(_) => {
            o.spawn_err += 1;
            return;
        }
    };
    o.spawned += 1;
    match disp {
        Disp::JoinLate | Disp::DropLate => {
            let mut k = 0u32;
            while DONE[idx].load(Ordering::Acquire) == 0 && k < 400_000 {
                sleep_us(10);
                k += 1;
            }
            sleep_us(600 + r.below(600)); // let the epilogue and the kernel exit path run
        }
        Disp::JoinRace | Disp::DropRace => sleep_us(r.below(60)),
        Disp::DropEpilogue => {
            let mut k = 0u32;
            while DONE[idx].load(Ordering::Acquire) == 0 && k < 400_000 {
                sleep_us(10);
                k += 1;
            }
            sleep_us(r.below(500));
        }
        _ => {}
    }
    let _ = early;
    match disp {
        Disp::JoinEarly | Disp::JoinLate | Disp::JoinRace => {
            let got = h.join();
            JOINED[idx].store(1, Ordering::Relaxed);
            judge_join::<T>(idx, tag, panics, got, disp, o);
        }
        _ => {
            drop(h);
            o.dropped += 1;
            GATE[idx].store(1, Ordering::Release);
        }
    }
}

fn report_alloc_errors(ctx: &str) {
    lock();
    let n = unsafe { NERR };
    let errs = unsafe { ERRS };
    unsafe {
        NERR = 0;
    }
    unlock();
    for e in errs.iter().take(n) {
        let (sig, what) = match e.kind {
            E_DOUBLE_FREE => ("C06/alloc-monitor/double-free", "block freed again while in quarantine"),
            E_FOREIGN_FREE => ("C06/alloc-monitor/foreign-free", "free of a pointer that is not a live block"),
            E_LAYOUT => ("C06/alloc-monitor/layout-mismatch", "dealloc layout differs from alloc layout"),
            E_POISON => ("C06/alloc-monitor/write-after-free", "poison of a freed block was overwritten"),
            _ => ("", ""),
        };
        if e.kind == E_TABLE_FULL {
            println!("@@INCONCLUSIVE monitor table full in {ctx}");
        } else {
            println!(
                "@@VIOL {sig} {{\"what\":\"{what}\",\"ctx\":\"{ctx}\",\"size\":{},\"align\":{},\"x\":{},\"y\":{}}}",
                e.size, e.align, e.x, e.y
            );
        }
    }
}

/// Compare live multiset with the baseline. `allowed_panic_boxes` = number of panicked threads whose
/// closure box may legitimately stay behind (the documented exception); their layout is learned
/// from the diff itself: only ONE layout may be left over and at most that many times.
fn leak_check(ctx: &str, before: &Snap, panicked: u64, heap_results_dropped: u64) {
    unsafe {
        lock();
        quar_drain();
        unlock();
    }
    report_alloc_errors(ctx);
    let after = snapshot();
    let mut d = [(0usize, 0usize, 0isize); 48];
    let n = snap_diff(before, &after, &mut d);
    let mut leftover_layouts = 0;
    for e in d.iter().take(n) {
        let (s, a, c) = *e;
        if c < 0 {
            println!("@@VIOL C06/heap/baseline-block-vanished {{\"ctx\":\"{ctx}\",\"size\":{s},\"align\":{a},\"delta\":{c}}}");
            continue;
        }
        leftover_layouts += 1;
        let c = c as u64;
        if panicked > 0 && c <= panicked && leftover_layouts == 1 && heap_results_dropped == 0 {
            // the documented exception: closure boxes of panicked threads
            println!("@@COUNT panicked_closure_boxes_left {c}");
            continue;
        }
        println!(
            "@@VIOL C06/heap/leak {{\"ctx\":\"{ctx}\",\"size\":{s},\"align\":{a},\"count\":{c},\"panicked\":{panicked},\"heap_results_dropped\":{heap_results_dropped}}}"
        );
    }
    if after.overflow || before.overflow {
        println!("@@INCONCLUSIVE live-layout table overflow in {ctx}");
    }
}

fn emit_points() {
    const NAMES: [&str; 10] = [
        "join_before_wait",
        "join_after_wait",
        "drop_before_cas",
        "drop_waits_for_exit",
        "thread_before_store",
        "thread_before_cas",
        "thread_frees_join_state",
        "thread_before_tls_free",
        "panic_entry",
        "panic_frees_join_state",
    ];
    for (k, n) in NAMES.iter().enumerate() {
        let v = POINT_HITS[k].swap(0, Ordering::Relaxed);
        if v > 0 {
            println!("@@COUNT point_{n} {v}");
            println!("@@DISTINCT point/{n}");
        }
    }
    let late = LATE_THREAD_CODE.swap(0, Ordering::Relaxed);
    if late > 0 {
        viol("C05/join-returned-while-thread-still-running", "thread-side epilogue code ran after join had returned", late, 0, 0);
    }
    let (se, so) = (SPUR_EINTR.swap(0, Ordering::Relaxed), SPUR_OK.swap(0, Ordering::Relaxed));
    if se + so > 0 {
        println!("@@COUNT injected_futex_eintr {se}");
        println!("@@COUNT injected_futex_spurious_wake {so}");
        println!("@@DISTINCT futex-injection/eintr+spurious-wake");
    }
    println!("@@COUNT futex_waits {}", FUTEX_WAITS.swap(0, Ordering::Relaxed));
    println!("@@COUNT futex_waits_that_slept {}", FUTEX_SLEPT.swap(0, Ordering::Relaxed));
}

fn cell_batch<T: Res>(seed: u64, n: usize, disp: Disp, panics: bool, delays: bool, r: &mut Rng) {
    let before = snapshot();
    marker::begin(1, disp as i64, i64::from(panics));
    set_delays(r, delays);
    if disp == Disp::DropEpilogue {
        POINT_DELAY_US[4].store(250, Ordering::Relaxed);
        POINT_DELAY_US[5].store(250, Ordering::Relaxed);
        POINT_DELAY_US[8].store(250, Ordering::Relaxed); // panic entry
    }
    let mut o = Out {
        spawned: 0,
        joined_some: 0,
        joined_none: 0,
        dropped: 0,
        spawn_err: 0,
    };
    for i in 0..n {
        run_one::<T>(i % MAXT, seed.wrapping_add(i as u64), disp, panics, r, &mut o);
    }
    set_delays(r, false);
    let q = quiesce();
    marker::end(1, disp as i64, o.spawned as i64, 0, 0);
    if !q {
        println!("@@INCONCLUSIVE threads did not all exit ({}/{})", disp_name(disp), T::NAME);
        return;
    }
    // exactly-once execution, also for dropped handles
    for i in 0..n.min(MAXT) {
        let runs = RUNS[i].load(Ordering::Relaxed);
        if runs != 1 && n <= MAXT {
            viol("C05/closure-run-count", disp_name(disp), i as u64, u64::from(runs), 0);
        }
    }
    let dropped_heap = if T::OWNS_HEAP && !panics { o.dropped } else { 0 };
    let ctx_panics = if panics || T::DROP_PANICS { o.spawned } else { 0 };
    leak_check(disp_name(disp), &before, ctx_panics, dropped_heap);
    println!("@@EVAL {}", o.spawned);
    println!("@@COUNT threads_spawned {}", o.spawned);
    println!("@@COUNT joined_some {}", o.joined_some);
    println!("@@COUNT joined_none {}", o.joined_none);
    println!("@@COUNT handles_dropped {}", o.dropped);
    println!("@@COUNT spawn_errors {}", o.spawn_err);
    println!(
        "@@DISTINCT cell/{}/{}/{}{}",
        disp_name(disp),
        if panics { "panic" } else { "return" },
        T::NAME,
        if delays { "/delays" } else { "" }
    );
    println!(
        "@@SAMPLE {{\"cell\":\"{}\",\"outcome\":\"{}\",\"result\":\"{}\",\"threads\":{},\"some\":{},\"none\":{},\"dropped\":{}}}",
        disp_name(disp),
        if panics { "panic" } else { "return" },
        T::NAME,
        o.spawned,
        o.joined_some,
        o.joined_none,
        o.dropped
    );
    emit_points();
}

fn scen_cells(seed: u64, n: usize) {
    let mut r = Rng(seed);
    for (di, &d) in DISPS.iter().enumerate() {
        for panics in [false, true] {
            let delays = (di + usize::from(panics)) % 2 == 0;
            // rotate the result layout family over the cells; non-owning types only
            match (di + usize::from(panics)) % 5 {
                0 => cell_batch::<u64>(seed, n, d, panics, delays, &mut r),
                1 => cell_batch::<()>(seed, n, d, panics, delays, &mut r),
                2 => cell_batch::<Big>(seed, n, d, panics, delays, &mut r),
                3 => cell_batch::<A64>(seed, n, d, panics, delays, &mut r),
                _ => cell_batch::<u8>(seed, n, d, panics, delays, &mut r),
            }
        }
    }
    // every layout at least once through join-race/return
    cell_batch::<()>(seed ^ 1, n / 4 + 1, Disp::JoinRace, false, false, &mut r);
    cell_batch::<u8>(seed ^ 2, n / 4 + 1, Disp::JoinEarly, false, false, &mut r);
    cell_batch::<Big>(seed ^ 3, n / 4 + 1, Disp::JoinLate, false, true, &mut r);
    cell_batch::<A64>(seed ^ 4, n / 4 + 1, Disp::JoinRace, false, true, &mut r);
    cell_batch::<HeapRes>(seed ^ 5, n / 4 + 1, Disp::JoinRace, false, false, &mut r);
    cell_batch::<HeapRes>(seed ^ 6, n / 4 + 1, Disp::JoinEarly, false, true, &mut r);
    // niche-encoded and over-aligned layouts, returning and panicking, joined early / late / racing
    let m = n / 4 + 2;
    cell_batch::<bool>(seed ^ 7, m, Disp::JoinRace, true, false, &mut r);
    cell_batch::<bool>(seed ^ 8, m, Disp::JoinEarly, false, false, &mut r);
    cell_batch::<char>(seed ^ 9, m, Disp::JoinLate, true, false, &mut r);
    cell_batch::<char>(seed ^ 10, m, Disp::JoinRace, false, true, &mut r);
    cell_batch::<E3>(seed ^ 11, m, Disp::JoinEarly, true, true, &mut r);
    cell_batch::<E3>(seed ^ 12, m, Disp::JoinLate, false, false, &mut r);
    cell_batch::<core::cmp::Ordering>(seed ^ 13, m, Disp::JoinRace, true, false, &mut r);
    cell_batch::<HeapRes>(seed ^ 14, m, Disp::JoinRace, true, false, &mut r);
    cell_batch::<HeapRes>(seed ^ 15, m, Disp::JoinLate, true, true, &mut r);
    cell_batch::<u128>(seed ^ 16, m, Disp::JoinRace, false, false, &mut r);
    cell_batch::<u128>(seed ^ 17, m, Disp::JoinEarly, true, false, &mut r);
    cell_batch::<A4096>(seed ^ 18, m, Disp::JoinLate, false, false, &mut r);
    cell_batch::<A4096>(seed ^ 19, m, Disp::DropRace, false, true, &mut r);
    // the thread drops an unclaimed result whose destructor panics (handle dropped first): the panic
    // handler and the epilogue must still release the join state exactly once
    cell_batch::<PanicDrop>(seed ^ 20, m, Disp::DropEarly, false, false, &mut r);
    cell_batch::<PanicDrop>(seed ^ 21, m, Disp::DropEarly, false, true, &mut r);
}

/// joins and drops that really park, with EINTR / spurious wake-ups injected into the futex waits
fn scen_spurious(seed: u64, n: usize, kind: u32) {
    let mut r = Rng(seed);
    SPUR_KIND.store(kind, Ordering::Relaxed);
    SPUR_STATE.store(seed | 1, Ordering::Relaxed);
    SPUR_ONE_IN.store(2, Ordering::Relaxed);
    cell_batch::<u64>(seed, n, Disp::JoinEarly, false, false, &mut r);
    cell_batch::<Big>(seed ^ 9, n, Disp::JoinEarly, true, false, &mut r);
    cell_batch::<u64>(seed ^ 10, n, Disp::DropLate, false, true, &mut r);
    cell_batch::<HeapRes>(seed ^ 11, n, Disp::JoinRace, false, true, &mut r);
    // the handle is dropped while the thread, having stored its result, is held in its epilogue: the dropper
    // really parks on the thread's exit word, and that wait is what gets ended early
    cell_batch::<u64>(seed ^ 12, n, Disp::DropEpilogue, false, false, &mut r);
    cell_batch::<HeapRes>(seed ^ 13, n, Disp::DropEpilogue, false, false, &mut r);
    cell_batch::<Big>(seed ^ 14, n, Disp::DropRace, false, true, &mut r);
    cell_batch::<u64>(seed ^ 15, n, Disp::DropEpilogue, true, false, &mut r);
    SPUR_ONE_IN.store(0, Ordering::Relaxed);
}

/// Every join / drop wait of the main thread meets the "thread exited between the load and the kernel's
/// comparison" window (see `exit_window`).
fn scen_exit_window(seed: u64, n: usize) {
    let mut r = Rng(seed);
    EXITWIN_MAIN.store(gettid(), Ordering::Relaxed);
    EXITWIN.store(1, Ordering::Relaxed);
    cell_batch::<u64>(seed, n, Disp::JoinEarly, false, false, &mut r);
    cell_batch::<HeapRes>(seed ^ 1, n, Disp::JoinEarly, false, true, &mut r);
    cell_batch::<Big>(seed ^ 2, n, Disp::JoinEarly, true, false, &mut r);
    cell_batch::<u64>(seed ^ 3, n, Disp::JoinRace, false, true, &mut r);
    cell_batch::<u64>(seed ^ 4, n, Disp::DropEpilogue, false, false, &mut r);
    cell_batch::<HeapRes>(seed ^ 5, n, Disp::DropEpilogue, false, false, &mut r);
    cell_batch::<u64>(seed ^ 6, n, Disp::DropRace, false, true, &mut r);
    EXITWIN.store(0, Ordering::Relaxed);
    println!("@@COUNT exit_window_reached {}", EXITWIN_REACHED.load(Ordering::Relaxed));
    println!("@@COUNT exit_window_not_reached {}", EXITWIN_TIMEOUT.load(Ordering::Relaxed));
    if EXITWIN_REACHED.load(Ordering::Relaxed) > 0 {
        println!("@@DISTINCT exit-window/reached");
    }
}

/// No injection: threads that exit at once followed by a join that parks on (very likely) the same
/// join-state address. A wake-up that the kernel issues late for the previous user of that futex word
/// would end the second join early.
fn scen_latewake(seed: u64, n: usize) {
    let mut r = Rng(seed);
    QUAR_ON.store(false, Ordering::Relaxed);
    let mut o = Out {
        spawned: 0,
        joined_some: 0,
        joined_none: 0,
        dropped: 0,
        spawn_err: 0,
    };
    for i in 0..n {
        let a = (2 * i) % MAXT;
        let b = (2 * i + 1) % MAXT;
        let ta = mix(seed, 2 * i as u64);
        let tb = mix(seed, 2 * i as u64 + 1);
        let Ok(ha) = spawn_one::<u64>(a, ta, false, false, 0) else { continue };
        o.spawned += 1;
        let ga = ha.join();
        judge_join::<u64>(a, ta, false, ga, Disp::JoinRace, &mut o);
        let Ok(hb) = spawn_one::<u64>(b, tb, false, false, 60 + r.below(200)) else { continue };
        o.spawned += 1;
        let gb = hb.join();
        judge_join::<u64>(b, tb, false, gb, Disp::JoinEarly, &mut o);
    }
    let _ = quiesce();
    println!("@@EVAL {}", o.spawned);
    println!("@@COUNT latewake_pairs {}", n);
    println!("@@DISTINCT latewake/no-injection");
    emit_points();
}

/// heap-owning results with dropped handles (separate: candidate defect "result not dropped")
fn scen_heapres(seed: u64, n: usize) {
    let mut r = Rng(seed);
    for d in [Disp::DropEarly, Disp::DropLate, Disp::DropRace, Disp::DropEpilogue, Disp::DropEpilogue] {
        let before = snapshot();
        set_delays(&mut r, d == Disp::DropRace);
        if d == Disp::DropEpilogue {
            POINT_DELAY_US[4].store(250, Ordering::Relaxed);
            POINT_DELAY_US[5].store(250, Ordering::Relaxed);
        }
        let mut o = Out {
            spawned: 0,
            joined_some: 0,
            joined_none: 0,
            dropped: 0,
            spawn_err: 0,
        };
        for i in 0..n {
            run_one::<HeapRes>(i % MAXT, seed.wrapping_add(i as u64), d, false, &mut r, &mut o);
        }
        set_delays(&mut r, false);
        if !quiesce() {
            println!("@@INCONCLUSIVE threads did not all exit (heapres)");
            return;
        }
        unsafe {
            lock();
            quar_drain();
            unlock();
        }
        report_alloc_errors("heapres");
        let after = snapshot();
        let mut dd = [(0usize, 0usize, 0isize); 48];
        let k = snap_diff(&before, &after, &mut dd);
        let mut leaked = 0;
        for e in dd.iter().take(k) {
            if e.2 > 0 {
                leaked += e.2 as u64;
            }
        }
        if leaked > 0 {
            println!(
                "@@VIOL C06/dropped-handle/result-not-dropped {{\"cell\":\"{}\",\"threads\":{},\"blocks_left\":{leaked}}}",
                disp_name(d),
                o.spawned
            );
        }
        println!("@@EVAL {}", o.spawned);
        println!("@@DISTINCT heapres/{}", disp_name(d));
        emit_points();
    }
}

/// many concurrently live threads, random mixture of cells, random disposal order
fn scen_mixed(seed: u64, n: usize, live: usize) {
    let mut r = Rng(seed);
    let before = snapshot();
    let (_, vm0) = proc_status();
    let mut spawned = 0u64;
    let mut panicked = 0u64;
    let mut o = Out {
        spawned: 0,
        joined_some: 0,
        joined_none: 0,
        dropped: 0,
        spawn_err: 0,
    };
    {
        let mut hs: Vec<Option<(JoinHandle<u64>, usize, u64, bool)>> = Vec::with_capacity(live);
        let mut idx = 0usize;
        set_delays(&mut r, true);
        while spawned < n as u64 {
            hs.clear();
            let k = (1 + r.below(live as u64) as usize).min(n - spawned as usize).min(MAXT);
            for _ in 0..k {
                let i = idx % MAXT;
                idx += 1;
                let tag = mix(seed, idx as u64);
                let panics = r.below(4) == 0;
                let work = match r.below(3) {
                    0 => 0,
                    1 => r.below(50),
                    _ => 200 + r.below(1500),
                };
                match spawn_one::<u64>(i, tag, panics, false, work) {
                    Ok(h) => {
                        spawned += 1;
                        if panics {
                            panicked += 1;
                        }
                        hs.push(Some((h, i, tag, panics)));
                    }
                    Err(_) => o.spawn_err += 1,
                }
            }
            // dispose in random order
            let m = hs.len();
            for _ in 0..m {
                let mut j = r.below(m as u64) as usize;
                while hs[j].is_none() {
                    j = (j + 1) % m;
                }
                let (h, i, tag, panics) = hs[j].take().unwrap();
                if r.below(2) == 0 {
                    let got = h.join();
                    JOINED[i].store(1, Ordering::Relaxed);
                    judge_join::<u64>(i, tag, panics, got, Disp::JoinRace, &mut o);
                } else {
                    drop(h);
                    o.dropped += 1;
                }
                if r.below(8) == 0 {
                    sleep_us(r.below(300));
                }
            }
            if !quiesce() {
                println!("@@INCONCLUSIVE threads did not all exit (mixed)");
                return;
            }
            // slots are reused in the next round: exactly-once check per round
            for e in 0..k {
                let i = (idx - k + e) % MAXT;
                let runs = RUNS[i].load(Ordering::Relaxed);
                if runs != 1 {
                    viol("C05/closure-run-count", "mixed", i as u64, u64::from(runs), 0);
                }
            }
        }
        set_delays(&mut r, false);
    }
    leak_check("mixed", &before, panicked, 0);
    let (_, vm1) = proc_status();
    println!("@@EVAL {spawned}");
    println!("@@COUNT threads_spawned {spawned}");
    println!("@@COUNT threads_panicked {panicked}");
    println!("@@COUNT joined_some {}", o.joined_some);
    println!("@@COUNT joined_none {}", o.joined_none);
    println!("@@COUNT handles_dropped {}", o.dropped);
    println!("@@COUNT max_concurrently_live {live}");
    println!("@@DISTINCT mixed/live{live}");
    println!("@@SAMPLE {{\"scenario\":\"mixed\",\"threads\":{spawned},\"panicked\":{panicked},\"max_live\":{live},\"vmsize_kb_before\":{vm0},\"vmsize_kb_after\":{vm1}}}");
    emit_points();
}

/// repeated identical batches: VmSize must not keep growing (stacks/TLS/join state released)
fn scen_churn(seed: u64, reps: usize, per: usize) {
    let mut r = Rng(seed);
    QUAR_ON.store(false, Ordering::Relaxed);
    let before = snapshot();
    let mut panicked = 0u64;
    for rep in 0..reps {
        let mut o = Out {
            spawned: 0,
            joined_some: 0,
            joined_none: 0,
            dropped: 0,
            spawn_err: 0,
        };
        for i in 0..per {
            let d = DISPS[(i + rep) % 7];
            let p = (i / 6 + rep) % 3 == 0;
            if p {
                panicked += 1;
            }
            run_one::<u64>(i % MAXT, seed.wrapping_add((rep * per + i) as u64), d, p, &mut r, &mut o);
        }
        if !quiesce() {
            println!("@@INCONCLUSIVE threads did not all exit (churn)");
            return;
        }
        let (_, vm) = proc_status();
        marker::snap_maps(rep as i64);
        println!("@@CHURN {rep} {vm} {}", o.spawned);
        println!("@@EVAL {}", o.spawned);
    }
    leak_check("churn", &before, panicked, 0);
    println!("@@DISTINCT churn/reps");
    emit_points();
}


/// The handle is dropped at (almost) the instant the thread hands its result over: the closure raises a flag as
/// its last act, the dropper waits for exactly that flag, then both sides spin for independent random 0..SWEEP
/// iterations before the thread returns from the closure / the handle is dropped. This is where the two sides'
/// decisions about who frees the join state can interleave instruction by instruction. No hook point or system
/// call lies inside that window, so it cannot be widened by a delay; only many tries at the right phase reach it.
fn scen_dropsweep(seed: u64, n: usize) {
    const SWEEP: u64 = 128;
    let mut r = Rng(seed);
    let before = snapshot();
    LATE_CHECK_ON.store(false, Ordering::Relaxed);
    let mut o = Out {
        spawned: 0,
        joined_some: 0,
        joined_none: 0,
        dropped: 0,
        spawn_err: 0,
    };
    let total = n * 100;
    for i in 0..total {
        let idx = i % MAXT;
        RUNS[idx].store(0, Ordering::Relaxed);
        DONE[idx].store(0, Ordering::Relaxed);
        let tag = mix(seed, i as u64);
        let (cd, pd) = (r.below(SWEEP), r.below(SWEEP));
        let wait_and_drop = |idx: usize| {
            let mut k = 0u64;
            while DONE[idx].load(Ordering::Acquire) == 0 && k < 2_000_000_000 {
                core::hint::spin_loop();
                k += 1;
            }
            for _ in 0..pd {
                core::hint::spin_loop();
            }
        };
        if i % 2 == 0 {
            let h = tiny_std::thread::spawn(move || {
                RUNS[idx].fetch_add(1, Ordering::Relaxed);
                let v = <u64 as Res>::make(tag);
                DONE[idx].store(1, Ordering::Release);
                for _ in 0..cd {
                    core::hint::spin_loop();
                }
                v
            });
            let Ok(h) = h else {
                o.spawn_err += 1;
                continue;
            };
            wait_and_drop(idx);
            drop(h);
        } else {
            let h = tiny_std::thread::spawn(move || {
                RUNS[idx].fetch_add(1, Ordering::Relaxed);
                let v = <HeapRes as Res>::make(tag);
                DONE[idx].store(1, Ordering::Release);
                for _ in 0..cd {
                    core::hint::spin_loop();
                }
                v
            });
            let Ok(h) = h else {
                o.spawn_err += 1;
                continue;
            };
            wait_and_drop(idx);
            drop(h);
        }
        o.spawned += 1;
        o.dropped += 1;
        if i % 64 == 63 && !quiesce() {
            println!("@@INCONCLUSIVE threads did not all exit (dropsweep)");
            LATE_CHECK_ON.store(true, Ordering::Relaxed);
            return;
        }
    }
    LATE_CHECK_ON.store(true, Ordering::Relaxed);
    if !quiesce() {
        println!("@@INCONCLUSIVE threads did not all exit (dropsweep)");
        return;
    }
    for i in 0..total.min(MAXT) {
        let runs = RUNS[i].load(Ordering::Relaxed);
        if runs != 1 {
            viol("C05/closure-run-count", "dropsweep", i as u64, u64::from(runs), 0);
        }
    }
    leak_check("dropsweep", &before, 0, o.dropped);
    // which side released the join state: both must have happened for the window to have been straddled
    let thread_side = POINT_HITS[6].load(Ordering::Relaxed);
    let handle_side = POINT_HITS[3].load(Ordering::Relaxed);
    println!("@@EVAL {}", o.spawned);
    println!("@@COUNT threads_spawned {}", o.spawned);
    println!("@@COUNT handles_dropped {}", o.dropped);
    println!("@@COUNT dropsweep_thread_freed_join_state {thread_side}");
    println!("@@COUNT dropsweep_handle_freed_join_state {handle_side}");
    if thread_side > 0 && handle_side > 0 {
        println!("@@DISTINCT dropsweep/both-sides-of-the-hand-over-seen");
    }
    println!(
        "@@SAMPLE {{\"scenario\":\"dropsweep\",\"threads\":{},\"join_state_freed_by_thread\":{thread_side},\"join_state_freed_by_handle\":{handle_side},\"sweep_spins\":{SWEEP}}}",
        o.spawned
    );
    emit_points();
}

struct PanicsWhenDisplayed;
impl core::fmt::Display for PanicsWhenDisplayed {
    fn fmt(&self, _f: &mut core::fmt::Formatter<'_>) -> core::fmt::Result {
        panic!("expected panic inside a Display impl (thread_probe)");
    }
}

/// A closure that panics while it is printing (inside the arguments of `eprintln!`, i.e. with the print lock
/// held by the panicking thread). join must still return None. One such thread per process: the lock of a
/// thread that died while printing stays taken, which is the program's business, not the runtime's.
fn scen_panic_in_print(seed: u64) {
    let tag = mix(seed, 1);
    RUNS[0].store(0, Ordering::Relaxed);
    let h = tiny_std::thread::spawn(move || {
        TIDMAP[gettid() as usize & 0xFFFF].store(1, Ordering::Relaxed);
        RUNS[0].fetch_add(1, Ordering::Relaxed);
        tiny_std::eprintln!("thread_probe: about to display {}", PanicsWhenDisplayed);
        tag
    });
    let Ok(h) = h else {
        println!("@@INCONCLUSIVE spawn failed (panic_in_print)");
        return;
    };
    marker::report(78, 0, 0, 0, 0); // about to join: a hang from here on is certified from the tracer's samples
    let got = h.join();
    JOINED[0].store(1, Ordering::Relaxed);
    if got.is_some() {
        viol("C05/join-some-after-panic", "panic inside print arguments", 0, 0, 0);
    }
    if RUNS[0].load(Ordering::Relaxed) != 1 {
        viol("C05/closure-run-count", "panic_in_print", 0, u64::from(RUNS[0].load(Ordering::Relaxed)), 0);
    }
    let _ = quiesce();
    println!("@@EVAL 1");
    println!("@@DISTINCT panic/inside-print-arguments");
    println!("@@SAMPLE {{\"scenario\":\"panic_in_print\",\"join_returned_none\":{}}}", got.is_none());
    emit_points();
}

/// one un-injected spawn between markers: the driver reads from the tracer's log which system calls spawn
/// performs (their numbers and how often), and then asks for `fault_nr` runs failing each of them
fn scen_fault_discover(seed: u64) {
    {
        let v: Vec<u8> = Vec::with_capacity(1 << 20);
        drop(v);
    }
    for i in 0..3 {
        let tag = mix(seed, i as u64);
        marker::begin(3, i as i64, 0);
        let h = spawn_one::<u64>(i, tag, false, false, 50);
        marker::report(79, i as i64, 0, 0, 0);
        if let Ok(h) = h {
            let _ = h.join();
        }
        marker::end(3, i as i64, 0, 0, 0);
    }
    let _ = quiesce();
    println!("@@EVAL 3");
}

/// un-injected: the closure reports (80) as its last act; the driver reads from the tracer's log which system
/// calls the THREAD makes after that until it exits (storing the result, waking the joiner, unmapping its own
/// stack, exit), and then asks for `exit_fault_nr` runs refusing each of them
fn scen_exit_fault_discover(seed: u64) {
    {
        let v: Vec<u8> = Vec::with_capacity(1 << 20);
        drop(v);
    }
    for i in 0..3 {
        let tag = mix(seed, i as u64);
        marker::begin(4, i as i64, 0);
        let h = tiny_std::thread::spawn(move || {
            marker::report(80, i as i64, 0, 0, 0);
            tag
        });
        if let Ok(h) = h {
            let _ = h.join();
        }
        let _ = quiesce();
        marker::end(4, i as i64, 0, 0, 0);
    }
    println!("@@EVAL 3");
}

/// the closure has run and produced its value; the `occ`-th call of system call `nr` the finishing thread makes
/// afterwards (e.g. the munmap of its own stack) is refused. join must still return the value and the process
/// must survive (a stack that stays mapped is not this property's business).
fn scen_exit_fault(seed: u64, nr: i64, ret: i64, occ: i64) {
    {
        let v: Vec<u8> = Vec::with_capacity(1 << 20);
        drop(v);
    }
    let mut o = Out {
        spawned: 0,
        joined_some: 0,
        joined_none: 0,
        dropped: 0,
        spawn_err: 0,
    };
    // 0: join at once (joiner parks), 1: join long after the thread is gone, 2: as 0 again after a leaked stack
    for round in 0..3usize {
        let idx = round;
        let tag = mix(seed, round as u64);
        RUNS[idx].store(0, Ordering::Relaxed);
        DONE[idx].store(0, Ordering::Relaxed);
        unsafe {
            BUF[idx] = [0; 8];
        }
        JOINED[idx].store(0, Ordering::Relaxed);
        marker::begin(5, nr, round as i64);
        let h = tiny_std::thread::spawn(move || {
            TIDMAP[gettid() as usize & 0xFFFF].store(idx as u32 + 1, Ordering::Relaxed);
            RUNS[idx].fetch_add(1, Ordering::Relaxed);
            sleep_us(if round == 1 { 0 } else { 300 });
            unsafe {
                let p = core::ptr::addr_of_mut!(BUF[idx]).cast::<u64>();
                for i in 0..8 {
                    p.add(i).write(tag.wrapping_add(i as u64));
                }
            }
            DONE[idx].store(1, Ordering::Release);
            marker::inject(marker::SCOPE_THREAD, nr, occ, ret, 1);
            tag
        });
        let Ok(h) = h else {
            println!("@@INCONCLUSIVE un-injected spawn failed (exit_fault)");
            return;
        };
        o.spawned += 1;
        if round == 1 {
            sleep_us(5000);
        }
        marker::report(81, round as i64, 0, 0, 0);
        let got = h.join();
        JOINED[idx].store(1, Ordering::Relaxed);
        marker::report(82, round as i64, i64::from(got.is_some()), 0, 0);
        judge_join::<u64>(idx, tag, false, got, Disp::JoinRace, &mut o);
        sleep_us(2000);
        marker::end(5, nr, round as i64, 0, 0);
        println!("@@DISTINCT exit-fault/{nr}#{occ}/round{round}");
    }
    println!("@@EVAL {}", o.spawned);
    println!("@@SAMPLE {{\"scenario\":\"exit_fault\",\"syscall\":{nr},\"occurrence\":{occ},\"joined_some\":{},\"joined_none\":{}}}", o.joined_some, o.joined_none);
}

/// spawn while sysmon makes the `occ`-th call of system call `nr` inside the chosen spawn fail
fn scen_fault(seed: u64, n: usize, nr: i64, ret: i64, occ: i64) {
    let mut r = Rng(seed);
    // warm the heap so that the allocator itself does not need mmap during the spawns
    {
        let v: Vec<u8> = Vec::with_capacity(1 << 20);
        drop(v);
    }
    for pos in [0usize, n / 2, n - 1] {
        let before = snapshot();
        let (_, vm_before) = proc_status();
        let mut o = Out {
            spawned: 0,
            joined_some: 0,
            joined_none: 0,
            dropped: 0,
            spawn_err: 0,
        };
        marker::begin(2, nr, pos as i64);
        let mut hs: Vec<(JoinHandle<u64>, usize, u64)> = Vec::with_capacity(n);
        let mut err_at = usize::MAX;
        for i in 0..n {
            if i == pos {
                marker::inject(marker::SCOPE_THREAD, nr, occ, ret, 1);
            }
            let tag = mix(seed, i as u64);
            match spawn_one::<u64>(i, tag, false, false, r.below(100)) {
                Ok(h) => {
                    o.spawned += 1;
                    hs.push((h, i, tag));
                }
                Err(_) => {
                    o.spawn_err += 1;
                    err_at = i;
                }
            }
        }
        marker::report(77, pos as i64, err_at as i64, o.spawned as i64, 0);
        if err_at != pos {
            // spawn claimed success although the kernel created no thread: joining that handle can never return.
            // Tell the driver which handle is the doomed one, then join it (the hang certificate is taken by sysmon).
            println!("@@NOTE spawn-returned-ok-despite-injected-failure nr={nr} pos={pos}");
        }
        for (h, i, tag) in hs {
            if i == pos {
                marker::report(78, pos as i64, 0, 0, 0); // about to join the doomed handle
            }
            let got = h.join();
            JOINED[i].store(1, Ordering::Relaxed);
            judge_join::<u64>(i, tag, false, got, Disp::JoinRace, &mut o);
        }
        marker::end(2, nr, pos as i64, o.spawn_err as i64, 0);
        if !quiesce() {
            println!("@@INCONCLUSIVE threads did not all exit (fault)");
            return;
        }
        if err_at == pos {
            if RUNS[pos].load(Ordering::Relaxed) != 0 {
                viol("C05/spawn-err-but-closure-ran", "fault", pos as u64, 0, 0);
            }
            // failed spawn must not leave runtime-owned state behind
            unsafe {
                lock();
                quar_drain();
                unlock();
            }
            report_alloc_errors("fault");
            // every thread of this round is gone: whatever spawn mapped for the refused thread must be gone too
            let (_, vm_after) = proc_status();
            if vm_after > vm_before + 1024 {
                println!(
                    "@@VIOL C06/failed-spawn/mapping-leaked {{\"syscall\":{nr},\"occurrence\":{occ},\"position\":{pos},\"vmsize_kb_before\":{vm_before},\"vmsize_kb_after\":{vm_after}}}"
                );
            }
            let after = snapshot();
            let mut dd = [(0usize, 0usize, 0isize); 48];
            let k = snap_diff(&before, &after, &mut dd);
            for e in dd.iter().take(k) {
                if e.2 > 0 {
                    println!(
                        "@@VIOL C06/failed-spawn/state-leaked {{\"syscall\":{nr},\"size\":{},\"align\":{},\"count\":{}}}",
                        e.0, e.1, e.2
                    );
                }
            }
        }
        println!("@@EVAL {}", o.spawned + o.spawn_err);
        println!("@@COUNT fault_spawn_err {}", o.spawn_err);
        println!("@@DISTINCT fault/nr{nr}.{occ}/pos{}", if pos == 0 { "first" } else if pos == n - 1 { "last" } else { "middle" });
        println!("@@SAMPLE {{\"scenario\":\"fault\",\"syscall\":{nr},\"forced\":{ret},\"position\":{pos},\"spawn_err_at\":{}}}", err_at as i64);
    }
}

#[no_mangle]
pub fn main() -> i32 {
    let mut scen: &[u8] = b"cells";
    let mut seed = 1u64;
    let mut n = 50usize;
    let mut quar = 1u64;
    let mut occ = 0u64;
    for (i, a) in tiny_std::env::args_os().enumerate() {
        let b = a.as_slice();
        let b = &b[..b.len().saturating_sub(1)];
        match i {
            1 => scen = b,
            2 => seed = parse_u64(b),
            3 => n = parse_u64(b) as usize,
            4 => quar = parse_u64(b),
            5 => occ = parse_u64(b),
            _ => {}
        }
    }
    QUAR_ON.store(quar != 0, Ordering::Relaxed);
    TRACED.store(marker::traced(), Ordering::Relaxed);
    rusl::verif::set_point_callback(Some(point_cb));
    rusl::verif::set_futex_callback(Some(futex_cb));
    let n_raw = n;
    let n = n.max(3);
    match scen {
        b"cells" => scen_cells(seed, n),
        b"heapres" => scen_heapres(seed, n),
        b"spurious_eintr" => scen_spurious(seed, n, 1),
        b"spurious_wake" => scen_spurious(seed, n, 2),
        b"latewake" => scen_latewake(seed, n),
        b"exit_window" => scen_exit_window(seed, n),
        b"dropsweep" => scen_dropsweep(seed, n),
        b"panic_in_print" => scen_panic_in_print(seed),
        b"mixed" => {
            scen_mixed(seed, n, 8);
            scen_mixed(seed ^ 0x55, n, 64);
            scen_mixed(seed ^ 0xAA, n, 512);
        }
        b"churn" => scen_churn(seed, n, 60),
        b"fault_clone" => scen_fault(seed, 6, 56, -11, 0),
        b"fault_mmap" => scen_fault(seed, 6, 9, -12, 0),
        b"fault_discover" => scen_fault_discover(seed),
        // fault_nr <seed> <nr> <quarantine> <occurrence>: the refusal is EAGAIN for clone, ENOMEM for everything else
        b"exit_fault_discover" => scen_exit_fault_discover(seed),
        b"exit_fault_nr" => scen_exit_fault(seed, n_raw as i64, -12, occ as i64),
        b"fault_nr" => scen_fault(seed, 6, n_raw as i64, if n_raw == 56 { -11 } else { -12 }, occ as i64),
        _ => println!("@@INCONCLUSIVE unknown scenario"),
    }
    lock();
    let (na, nf, pc) = unsafe { (N_ALLOC, N_FREE, POISON_CHECKS) };
    unlock();
    println!("@@COUNT monitor_allocs {na}");
    println!("@@COUNT monitor_frees {nf}");
    println!("@@COUNT monitor_poison_checks {pc}");
    0
}
