//! wrap_probe — C09 tracee: calls every raw system-call wrapper exported by rusl, one case at a time.
//!
//! usage: wrap_probe list            -> prints `<id> <name> <syscall nr> <applicable corner shapes>` per wrapper
//!        wrap_probe run < cases     -> case lines `<wrapper id> <case id> F <forced kernel result> [<shape>]`
//!                                      or          `<wrapper id> <case id> R <variant>` (real call)
//! Corner shapes (forced mode only, the kernel never sees them): 0 the plain arguments, 1 equal descriptors,
//! 2 descriptor 0, 3 descriptor i32::MAX, 4 empty path, 5 both paths equal, 6 empty buffers / slices / zero length,
//! 7 zero scalars (ids, offsets, counts, timeouts, flags), 8 extreme scalars (MAX / -1 / all flags)
//! Per case (must run under sysmon, `--scope-markers`):
//!   BEGIN(w, c, mode, r|variant, shape)   mode 0 = forced, 1 = real
//!   forced: INJECT(thread, ANY, 0, r, FORCED_N) then INJECT(thread, ANY, 0, -EBADF, FUSE_N): whatever system
//!           call the wrapper makes first is never executed and answers r; a wrapper that issues more calls keeps
//!           seeing r, after FORCED_N of them it sees EBADF (fuse). The injection is number-agnostic: which of
//!           several equivalent system calls a wrapper uses is its own business
//!   real:   INJECT(thread, ANY, REAL_N, -EBADF, FUSE_N): the first REAL_N system calls run for real
//!   <the wrapper call, nothing else: every non-marker system call of this thread in the window is the wrapper's>
//!   END(w, c, kind, value, extra)  kind 0 = Ok, 1 = Err, 2 = panicked; value = errno code or projected value;
//!                                  extra: Err without code -> 1; wait_pid status; pipe fds
//! Arguments are prepared before BEGIN and resources released after END (through libc, not through rusl).
#[path = "/verif/engines/sysmon/marker.rs"]
mod marker;

use core::num::NonZeroUsize;
use core::sync::atomic::AtomicU32;
use std::io::BufRead;
use std::os::fd::IntoRawFd;
use std::panic::{catch_unwind, AssertUnwindSafe};

use rusl::platform::{
    AddressFamily, Clone3Args, CloneArgs, CloneFlags, ClockId, EpollEvent, EpollEventMask, EpollOp, Fd,
    FilesystemType, FutexFlags, IoSlice, IoSliceMut, IoUringEnterFlags, IoUringParamFlags, IoUringParams,
    MapAdditionalFlags, MapRequiredFlag, MemoryProtection, Mode, Mountflags, MsgHdrBorrow, OpenFlags, PollEvents,
    PollFd, RenameFlags, SetAction, SocketAddressInet, SocketAddressUnix, SocketFlags, SocketOptions, SocketType,
    Termios, TimeSpec, WaitPidFlags,
};
use rusl::string::unix_str::UnixStr;

extern "C" {
    fn syscall(nr: i64, ...) -> i64;
    fn open(path: *const u8, flags: i32, ...) -> i32;
    fn close(fd: i32) -> i32;
    fn fcntl(fd: i32, cmd: i32, ...) -> i32;
    fn dup2(old: i32, new: i32) -> i32;
    fn fork() -> i32;
    fn _exit(c: i32) -> !;
    fn getuid() -> u32;
    fn getgid() -> u32;
    fn getpgrp() -> i32;
    fn mmap(addr: usize, len: usize, prot: i32, flags: i32, fd: i32, off: i64) -> usize;
    fn munmap(addr: usize, len: usize) -> i32;
    fn waitpid(pid: i32, status: *mut i32, options: i32) -> i32;
}

const FORCED_N: i64 = 50;
const REAL_N: i64 = 50;
const FUSE_N: i64 = 1000;
const EBADF: i64 = 9;
/// a case (BEGIN..END) that is still running after this long is an endless re-issue loop inside the wrapper:
/// the watchdog thread ends the process with status 86, the driver judges the case on the log and resumes
const CASE_BUDGET_MS: u64 = 3000;
static CASE_SEQ: core::sync::atomic::AtomicU64 = core::sync::atomic::AtomicU64::new(0);
static IN_CASE: core::sync::atomic::AtomicBool = core::sync::atomic::AtomicBool::new(false);

macro_rules! table {
    ($( $name:ident = $nr:expr ;)*) => {
        #[allow(non_camel_case_types)]
        #[derive(Copy, Clone, Debug, PartialEq, Eq)]
        enum W { $($name),* }
        const ALL: &[(W, &str, i64)] = &[ $((W::$name, stringify!($name), $nr)),* ];
    }
}

// name = system call number the wrapper is expected to issue on x86_64 (informational only: the driver notes a
// different observed number in the evidence, it never judges on it)
table! {
    chdir = 80;
    close = 3;
    copy_file_range = 326;
    dup2 = 292;
    dup3 = 292;
    dup3_nocloexec = 292;
    fcntl_get_file_status = 72;
    fcntl_set_file_status = 72;
    fcntl_dupfd_cloexec = 72;
    get_dents = 217;
    get_uid = 102;
    mkdir = 258;
    mkdir_at = 258;
    mmap = 9;
    munmap = 11;
    mount = 165;
    mount_data = 165;
    unmount = 166;
    open = 257;
    open_mode = 257;
    open_at = 257;
    open_at_mode = 257;
    open_raw = 257;
    pipe = 293;
    pipe2 = 293;
    read = 0;
    readv = 19;
    rename = 316;
    rename_flags = 316;
    rename_at = 316;
    rename_at2 = 316;
    lseek = 8;
    setgid = 106;
    setpgid = 109;
    setsid = 112;
    setuid = 105;
    stat = 262;
    statat = 262;
    stat_fd = 262;
    swapon = 167;
    uname = 63;
    rmdir = 263;
    unlink = 263;
    unlink_flags = 263;
    unlink_at = 263;
    unshare = 272;
    write = 1;
    writev = 20;
    accept_unix = 288;
    accept_inet = 288;
    bind_unix = 49;
    bind_inet = 49;
    connect_unix = 42;
    connect_inet = 42;
    listen = 50;
    socket = 41;
    get_unix_sock_name = 51;
    get_inet_sock_name = 51;
    sendmsg = 46;
    recvmsg = 47;
    fork = 57;
    clone = 56;
    clone3 = 435;
    execve = 59;
    get_pid = 39;
    wait_pid = 61;
    add_signal_action = 13;
    ioctl = 16;
    tcgetattr = 16;
    tcsetattr = 16;
    clock_get_time = 228;
    nanosleep = 35;
    nanosleep_same_ptr = 35;
    nanosleep_rem = 35;
    epoll_create = 291;
    epoll_create_nocloexec = 291;
    epoll_ctl = 233;
    epoll_del = 233;
    epoll_wait = 281;
    ppoll = 271;
    futex_wait = 202;
    futex_wait_notimeout = 202;
    futex_wake = 202;
    bulk_transfer = 16;
    claim_interface = 16;
    reset_usb_device = 16;
    release_interface = 16;
    get_hid_dev_dev_info = 16;
    io_uring_setup = 425;
    io_uring_register_files = 427;
    io_uring_register_io_slices = 427;
    io_uring_register_buffers = 427;
    io_uring_enter = 426;
}

const SH_EQ_FDS: i64 = 1;
const SH_FD_ZERO: i64 = 2;
const SH_FD_MAX: i64 = 3;
const SH_EMPTY_PATH: i64 = 4;
const SH_SAME_PATH: i64 = 5;
const SH_EMPTY_BUF: i64 = 6;
const SH_ZERO: i64 = 7;
const SH_EXTREME: i64 = 8;

/// corner shapes that change at least one argument of the wrapper (derived from its signature)
#[allow(clippy::too_many_lines, clippy::match_same_arms)]
fn shapes(w: W) -> &'static [i64] {
    match w {
        // two descriptors
        W::dup2 | W::dup3 | W::dup3_nocloexec | W::fcntl_dupfd_cloexec | W::epoll_del => &[1, 2, 3],
        W::copy_file_range => &[1, 2, 3, 6, 7, 8],
        W::rename_at | W::rename_at2 => &[1, 2, 3, 4, 5],
        W::epoll_ctl => &[1, 2, 3, 7, 8],
        W::io_uring_register_files => &[1, 2, 3, 6],
        // one descriptor
        W::close | W::fcntl_get_file_status | W::stat_fd | W::rmdir | W::bind_unix | W::connect_unix
        | W::get_unix_sock_name | W::get_inet_sock_name | W::tcgetattr | W::reset_usb_device
        | W::get_hid_dev_dev_info => &[2, 3],
        W::fcntl_set_file_status | W::lseek | W::bind_inet | W::connect_inet | W::listen | W::ioctl => &[2, 3, 7, 8],
        W::get_dents | W::read | W::readv | W::write | W::writev | W::io_uring_register_io_slices
        | W::io_uring_register_buffers => &[2, 3, 6],
        W::sendmsg | W::recvmsg | W::epoll_wait | W::ppoll => &[2, 3, 6, 8],
        W::bulk_transfer => &[2, 3, 6, 7, 8],
        W::mkdir_at => &[2, 3, 4, 7, 8],
        W::open_at | W::open_at_mode | W::unlink_at => &[2, 3, 4, 8],
        W::statat => &[2, 3, 4],
        W::accept_unix | W::accept_inet | W::tcsetattr | W::claim_interface | W::release_interface
        | W::io_uring_enter => &[2, 3, 8],
        // paths
        W::chdir | W::unmount | W::stat | W::unlink => &[4],
        W::mkdir => &[4, 7, 8],
        W::open | W::open_mode | W::open_raw | W::swapon | W::unlink_flags | W::execve => &[4, 8],
        W::mount | W::mount_data | W::rename | W::rename_flags => &[4, 5],
        // scalars only
        W::setuid | W::setgid | W::setpgid | W::wait_pid | W::nanosleep | W::nanosleep_rem | W::nanosleep_same_ptr
        | W::futex_wake | W::futex_wait | W::io_uring_setup | W::munmap | W::mmap | W::clock_get_time | W::socket
        | W::add_signal_action => &[7, 8],
        W::unshare | W::futex_wait_notimeout => &[8],
        // no arguments (or only a flag that already has its own row)
        W::get_uid | W::get_pid | W::setsid | W::uname | W::pipe | W::pipe2 | W::fork | W::clone | W::clone3
        | W::epoll_create | W::epoll_create_nocloexec => &[],
    }
}

#[derive(Debug, Clone, Copy)]
struct Out {
    kind: i64,
    val: i64,
    extra: i64,
}

fn err(e: rusl::Error) -> Out {
    match e.code {
        Some(c) => Out { kind: 1, val: i64::from(c.raw()), extra: 0 },
        None => Out { kind: 1, val: 0, extra: 1 },
    }
}
fn unit(r: rusl::Result<()>) -> Out {
    match r {
        Ok(()) => Out { kind: 0, val: 0, extra: 0 },
        Err(e) => err(e),
    }
}
fn drop_ok<T>(r: rusl::Result<T>) -> Out {
    match r {
        Ok(_) => Out { kind: 0, val: 0, extra: 0 },
        Err(e) => err(e),
    }
}
#[allow(clippy::cast_possible_wrap)]
fn us(r: rusl::Result<usize>) -> Out {
    match r {
        Ok(v) => Out { kind: 0, val: v as i64, extra: 0 },
        Err(e) => err(e),
    }
}
fn fdr(r: rusl::Result<Fd>) -> Out {
    match r {
        Ok(v) => Out { kind: 0, val: i64::from(v.value()), extra: 0 },
        Err(e) => err(e),
    }
}

fn fdv(x: i32) -> Fd {
    Fd::try_new(x).expect("non-negative fd")
}

/// move a descriptor to >= 200 so that small numbers stay free for the dup targets
fn hi(fd: i32) -> i32 {
    assert!(fd >= 0, "resource setup failed");
    let n = unsafe { fcntl(fd, 0 /* F_DUPFD */, 200i32) };
    assert!(n >= 200, "F_DUPFD failed");
    unsafe { close(fd) };
    n
}

struct Ctx {
    pid: i64,
    tmp: String,
    n: u64,
    unix_listener: Option<i32>,
    tcp_listener: Option<(i32, u16)>,
}

impl Ctx {
    fn fresh(&mut self, stem: &str) -> String {
        self.n += 1;
        format!("{}/{}{}", self.tmp, stem, self.n)
    }
    fn file(&mut self) -> String {
        let p = self.fresh("f");
        std::fs::write(&p, vec![b'x'; 256]).expect("temp file");
        p
    }
    fn open_file(&mut self, write: bool) -> (i32, String) {
        let p = self.file();
        let f = std::fs::OpenOptions::new().read(true).write(write).open(&p).expect("open temp");
        (hi(f.into_raw_fd()), p)
    }
    fn devnull(&self) -> i32 {
        let f = std::fs::OpenOptions::new().read(true).write(true).open("/dev/null").expect("devnull");
        hi(f.into_raw_fd())
    }
    fn dir_fd(&self) -> i32 {
        let c = std::ffi::CString::new(self.tmp.clone()).unwrap();
        hi(unsafe { open(c.as_ptr().cast(), 0o200000 /* O_DIRECTORY */) })
    }
    fn unix_listener(&mut self) -> i32 {
        if let Some(f) = self.unix_listener {
            return f;
        }
        let l = std::os::unix::net::UnixListener::bind(format!("{}/lsock", self.tmp)).expect("unix listener");
        let f = hi(l.into_raw_fd());
        self.unix_listener = Some(f);
        f
    }
    fn tcp_listener(&mut self) -> (i32, u16) {
        if let Some(f) = self.tcp_listener {
            return f;
        }
        let l = std::net::TcpListener::bind("127.0.0.1:0").expect("tcp listener");
        let port = l.local_addr().unwrap().port();
        let f = (hi(l.into_raw_fd()), port);
        self.tcp_listener = Some(f);
        f
    }
    fn pty(&self) -> Option<i32> {
        let fd = unsafe { open(b"/dev/ptmx\0".as_ptr(), 0o2 | 0o400 /* O_RDWR|O_NOCTTY */) };
        if fd < 0 {
            None
        } else {
            Some(hi(fd))
        }
    }
}

fn cpath(s: &str) -> Vec<u8> {
    let mut v = s.as_bytes().to_vec();
    v.push(0);
    v
}

struct Prep {
    real: bool,
    var: i64,
    r: i64,
    shape: i64,
    fd: i32,
    fd2: i32,
    fd3: i32,
    pid: i32,
    id: u32,
    addr: usize,
    port: u16,
    path: Vec<u8>,
    path2: Vec<u8>,
    buf: Vec<u8>,
    term: Termios,
    close_after: Vec<i32>,
    rm_after: Vec<String>,
}

impl Prep {
    fn p1(&self) -> &UnixStr {
        UnixStr::try_from_bytes(&self.path).expect("path")
    }
    fn p2(&self) -> &UnixStr {
        UnixStr::try_from_bytes(&self.path2).expect("path2")
    }
    fn own(&mut self, fd: i32) -> i32 {
        self.close_after.push(fd);
        fd
    }
    /// buffer / slice length: 0 in the empty-buffer shape
    fn n(&self, d: usize) -> usize {
        if self.shape == SH_EMPTY_BUF {
            0
        } else {
            d
        }
    }
    /// scalar argument: plain, zero shape, extreme shape
    fn pick<T>(&self, d: T, z: T, e: T) -> T {
        match self.shape {
            SH_ZERO => z,
            SH_EXTREME => e,
            _ => d,
        }
    }
    fn apply_shape(&mut self) {
        match self.shape {
            SH_EQ_FDS => self.fd2 = self.fd,
            SH_FD_ZERO => {
                self.fd = 0;
                self.fd2 = 0;
            }
            SH_FD_MAX => {
                self.fd = i32::MAX;
                self.fd2 = i32::MAX - 1;
            }
            SH_EMPTY_PATH => {
                self.path = vec![0];
                self.path2 = vec![0];
            }
            SH_SAME_PATH => self.path2 = self.path.clone(),
            _ => {}
        }
    }
}

/// real-mode resources; forced mode keeps the inert defaults (descriptor 999, /nonexistent-c09/..)
#[allow(clippy::too_many_lines)]
fn prepare(w: W, p: &mut Prep, cx: &mut Ctx) {
    if !p.real {
        if matches!(w, W::dup2 | W::dup3 | W::dup3_nocloexec) && p.r >= 3 && p.r <= i64::from(i32::MAX) {
            // the forced success value is the requested target descriptor, as the kernel would answer
            p.fd2 = p.r as i32;
        }
        p.apply_shape();
        return;
    }
    match w {
        W::chdir => p.path = cpath("/tmp"),
        W::close => p.fd = cx.devnull(),
        W::copy_file_range => {
            let (a, pa) = cx.open_file(false);
            let (b, pb) = cx.open_file(true);
            p.fd = p.own(a);
            p.fd2 = p.own(b);
            p.rm_after.extend([pa, pb]);
        }
        W::dup2 | W::dup3 | W::dup3_nocloexec => {
            let d = cx.devnull();
            p.fd = p.own(d);
            p.fd2 = p.var as i32;
            unsafe { close(p.fd2) };
            p.close_after.push(p.fd2);
        }
        W::fcntl_dupfd_cloexec => {
            let d = cx.devnull();
            p.fd = p.own(d);
            p.fd2 = p.var as i32; // lowest acceptable number: the kernel answers it when it is free
            unsafe { close(p.fd2) };
        }
        W::fcntl_get_file_status | W::fcntl_set_file_status | W::write | W::writev | W::stat_fd => {
            let d = cx.devnull();
            p.fd = p.own(d);
        }
        W::bulk_transfer | W::claim_interface | W::reset_usb_device | W::release_interface
        | W::get_hid_dev_dev_info => {
            let d = cx.devnull();
            p.fd = p.own(d);
        }
        W::get_dents => {
            let d = cx.dir_fd();
            p.fd = p.own(d);
        }
        W::mkdir => {
            let d = cx.fresh("m");
            p.path = cpath(&d);
            p.rm_after.push(d);
        }
        W::mkdir_at => {
            let d = cx.dir_fd();
            p.fd = p.own(d);
            let name = cx.fresh("m");
            p.path = cpath(name.rsplit('/').next().unwrap());
            p.rm_after.push(name);
        }
        W::munmap => {
            p.addr = unsafe { mmap(0, 4096, 1, 0x22, -1, 0) };
            assert!(p.addr != usize::MAX, "mmap setup");
        }
        W::open | W::open_mode | W::open_raw | W::stat | W::unlink | W::unlink_flags => {
            let f = cx.file();
            p.path = cpath(&f);
            p.rm_after.push(f);
        }
        W::open_at | W::open_at_mode | W::statat | W::unlink_at => {
            let d = cx.dir_fd();
            p.fd = p.own(d);
            let f = cx.file();
            p.path = cpath(f.rsplit('/').next().unwrap());
            p.rm_after.push(f);
        }
        W::read | W::readv | W::lseek => {
            let (a, pa) = cx.open_file(false);
            p.fd = p.own(a);
            p.rm_after.push(pa);
        }
        W::rename | W::rename_flags => {
            let a = cx.file();
            let b = cx.fresh("r");
            p.path = cpath(&a);
            p.path2 = cpath(&b);
            p.rm_after.extend([a, b]);
        }
        W::rename_at | W::rename_at2 => {
            let d = cx.dir_fd();
            p.fd = p.own(d);
            p.fd2 = p.fd;
            let a = cx.file();
            let b = cx.fresh("r");
            p.path = cpath(a.rsplit('/').next().unwrap());
            p.path2 = cpath(b.rsplit('/').next().unwrap());
            p.rm_after.extend([a, b]);
        }
        W::setgid => p.id = unsafe { getgid() },
        W::setuid => p.id = unsafe { getuid() },
        W::setpgid => {
            p.pid = 0;
            p.id = unsafe { getpgrp() } as u32;
        }
        W::rmdir => {
            let d = cx.fresh("m");
            std::fs::create_dir(&d).expect("mkdir");
            let c = cpath(&d);
            let fd = hi(unsafe { open(c.as_ptr(), 0o200000) });
            p.fd = p.own(fd);
            p.rm_after.push(d);
        }
        W::accept_unix => {
            p.fd = cx.unix_listener();
            let c = std::os::unix::net::UnixStream::connect(format!("{}/lsock", cx.tmp)).expect("connect");
            let c = hi(c.into_raw_fd());
            p.own(c);
        }
        W::accept_inet => {
            let (l, port) = cx.tcp_listener();
            p.fd = l;
            let c = std::net::TcpStream::connect(("127.0.0.1", port)).expect("tcp connect");
            let c = hi(c.into_raw_fd());
            p.own(c);
        }
        W::bind_unix | W::connect_unix | W::listen | W::get_unix_sock_name | W::ioctl => {
            let s = hi(unsafe { syscall(41, 1i64, 1i64, 0i64) } as i32);
            p.fd = p.own(s);
            match w {
                W::listen => {
                    let b = cx.fresh("s");
                    let l = std::os::unix::net::UnixListener::bind(&b).expect("bound socket");
                    unsafe { close(s) };
                    p.close_after.pop();
                    let s = hi(l.into_raw_fd());
                    p.fd = p.own(s);
                    p.rm_after.push(b);
                }
                W::bind_unix => {
                    let b = cx.fresh("s");
                    p.path = cpath(&b);
                    p.rm_after.push(b);
                }
                W::connect_unix => {
                    cx.unix_listener();
                    p.path = cpath(&format!("{}/lsock", cx.tmp));
                }
                _ => {}
            }
        }
        W::bind_inet | W::connect_inet => {
            let s = hi(unsafe { syscall(41, 2i64, 1i64, 0i64) } as i32);
            p.fd = p.own(s);
            p.port = if w == W::connect_inet { cx.tcp_listener().1 } else { 0 };
        }
        W::get_inet_sock_name => p.fd = cx.tcp_listener().0,
        W::sendmsg | W::recvmsg => {
            let (a, b) = std::os::unix::net::UnixStream::pair().expect("socketpair");
            if w == W::recvmsg {
                use std::io::Write;
                (&a).write_all(&[7u8; 16]).expect("feed");
            }
            let (a, b) = (hi(a.into_raw_fd()), hi(b.into_raw_fd()));
            p.fd = p.own(if w == W::sendmsg { a } else { b });
            p.own(if w == W::sendmsg { b } else { a });
        }
        W::wait_pid => {
            let c = unsafe { fork() };
            if c == 0 {
                unsafe { _exit(7) };
            }
            assert!(c > 0, "fork setup");
            p.pid = c;
        }
        W::tcgetattr | W::tcsetattr => {
            if let Some(m) = cx.pty() {
                p.fd = p.own(m);
                if let Ok(t) = rusl::termios::tcgetattr(fdv(m)) {
                    p.term = t;
                }
            } else {
                let d = cx.devnull();
                p.fd = p.own(d);
            }
        }
        W::epoll_ctl | W::epoll_del | W::epoll_wait => {
            let e = hi(unsafe { syscall(291, 0i64) } as i32);
            p.fd = p.own(e);
            let d = hi(unsafe { syscall(290, 0i64, 0i64) } as i32); // eventfd2
            p.fd2 = p.own(d);
            if w != W::epoll_ctl {
                let mut ev = [1u32, 0, 0];
                let r = unsafe { syscall(233, i64::from(p.fd), 1i64, i64::from(p.fd2), ev.as_mut_ptr()) };
                assert!(r == 0, "epoll_ctl setup");
            }
        }
        W::ppoll => {
            let d = cx.devnull();
            p.fd = p.own(d);
        }
        W::io_uring_register_files | W::io_uring_register_io_slices | W::io_uring_register_buffers
        | W::io_uring_enter => {
            let mut params = IoUringParams::new(IoUringParamFlags::empty(), 0, 0);
            let r = unsafe { syscall(425, 2i64, core::ptr::from_mut(&mut params)) };
            if r >= 0 {
                p.fd = p.own(hi(r as i32));
            }
            let d = cx.devnull();
            p.fd2 = p.own(d);
        }
        _ => {}
    }
    // descriptor-returning calls, variant N >= 4: occupy 3..N so that the kernel really answers N
    if matches!(
        w,
        W::open | W::open_mode | W::open_at | W::open_at_mode | W::open_raw | W::socket | W::epoll_create
            | W::epoll_create_nocloexec | W::io_uring_setup | W::accept_unix | W::accept_inet
    ) && p.var >= 4
    {
        let d = cx.devnull();
        p.own(d);
        for i in 3..p.var as i32 {
            if unsafe { fcntl(i, 1 /* F_GETFD */) } == -1 {
                assert!(unsafe { dup2(d, i) } == i, "dup2 filler");
                p.close_after.push(i);
            }
        }
    }
}

/// The wrapper call itself: the only code between the INJECT markers and END.
#[allow(clippy::too_many_lines, clippy::cast_possible_wrap)]
fn call(w: W, p: &mut Prep, _cx: &Ctx) -> Out {
    use rusl::{futex, hidio, io_uring as ur, ioctl, network as net, process as pr, select as sel, termios, time, unistd as u, usb};
    let page = NonZeroUsize::new(4096).unwrap();
    let huge = NonZeroUsize::new(usize::MAX).unwrap();
    let oflags = p.pick(
        OpenFlags::O_RDONLY,
        OpenFlags::O_RDONLY,
        OpenFlags::O_RDWR | OpenFlags::O_CLOEXEC | OpenFlags::O_NONBLOCK | OpenFlags::O_DIRECTORY,
    );
    let uflags = p.pick(u::UnlinkFlags::empty(), u::UnlinkFlags::empty(), u::UnlinkFlags::at_removedir());
    let sflags = p.pick(SocketFlags::empty(), SocketFlags::empty(), SocketFlags::SOCK_CLOEXEC | SocketFlags::SOCK_NONBLOCK);
    let inet = p.pick(([127, 0, 0, 1], p.port), ([0; 4], 0), ([255; 4], u16::MAX));
    let nap = p.pick(TimeSpec::new(0, 1), TimeSpec::new(0, 0), TimeSpec::new(i64::MAX, 999_999_999));
    let omode = p.pick(Mode::from(0o600), Mode::from(0), Mode::from(u32::MAX));
    match w {
        W::chdir => unit(u::chdir(p.p1())),
        W::close => unit(u::close(fdv(p.fd))),
        W::copy_file_range => us(u::copy_file_range(
            fdv(p.fd),
            p.pick(0, 0, u64::MAX),
            fdv(p.fd2),
            p.pick(0, 0, u64::MAX),
            p.pick(p.n(10), 0, usize::MAX),
        )),
        W::dup2 => unit(u::dup2(fdv(p.fd), fdv(p.fd2))),
        W::dup3 => unit(u::dup3(fdv(p.fd), fdv(p.fd2), true)),
        W::dup3_nocloexec => unit(u::dup3(fdv(p.fd), fdv(p.fd2), false)),
        W::fcntl_get_file_status => match u::fcntl_get_file_status(fdv(p.fd)) {
            Ok(f) => Out { kind: 0, val: i64::from(f.bits().value()), extra: 0 },
            Err(e) => err(e),
        },
        W::fcntl_dupfd_cloexec => fdr(u::fcntl_dupfd_cloexec(fdv(p.fd), fdv(p.fd2))),
        W::fcntl_set_file_status => unit(u::fcntl_set_file_status(
            fdv(p.fd),
            p.pick(OpenFlags::O_NONBLOCK, OpenFlags::empty(), OpenFlags::O_NONBLOCK | OpenFlags::O_CLOEXEC | OpenFlags::O_RDWR),
        )),
        W::get_dents => {
            let n = p.n(1024);
            us(u::get_dents(fdv(p.fd), &mut p.buf[..n]))
        }
        W::get_uid => match u::get_uid() {
            Ok(v) => Out { kind: 0, val: i64::from(v), extra: 0 },
            Err(e) => err(e),
        },
        W::mkdir => unit(u::mkdir(p.p1(), p.pick(Mode::MODE_755, Mode::from(0), Mode::from(u32::MAX)))),
        W::mkdir_at => unit(u::mkdir_at(fdv(p.fd), p.p1(), p.pick(Mode::MODE_755, Mode::from(0), Mode::from(u32::MAX)))),
        W::mmap => us(unsafe {
            u::mmap(
                p.pick(None, Some(0), Some(usize::MAX)),
                p.pick(page, page, huge),
                MemoryProtection::PROT_READ,
                MapRequiredFlag::MapPrivate,
                MapAdditionalFlags::MAP_ANONYMOUS,
                p.pick(None, None, Some(fdv(p.fd))),
                p.pick(0, 0, i64::MIN),
            )
        }),
        W::munmap => unit(unsafe { u::munmap(p.pick(p.addr, 0, usize::MAX & !4095), p.pick(page, page, huge)) }),
        W::mount => unit(u::mount(p.p1(), p.p2(), FilesystemType::TMPFS, Mountflags::empty(), None)),
        W::mount_data => unit(u::mount(
            p.p1(),
            p.p2(),
            FilesystemType::TMPFS,
            Mountflags::empty(),
            Some(rusl::unix_lit!("size=4k")),
        )),
        W::unmount => unit(u::unmount(p.p1())),
        W::open => fdr(u::open(p.p1(), oflags)),
        W::open_mode => fdr(u::open_mode(p.p1(), oflags, omode)),
        W::open_at => fdr(u::open_at(fdv(p.fd), p.p1(), oflags)),
        W::open_at_mode => fdr(u::open_at_mode(fdv(p.fd), p.p1(), oflags, omode)),
        W::open_raw => fdr(unsafe { u::open_raw(p.path.as_ptr() as usize, oflags) }),
        W::pipe | W::pipe2 => {
            let r = if w == W::pipe { u::pipe() } else { u::pipe2(OpenFlags::O_CLOEXEC) };
            match r {
                Ok(pp) => {
                    p.close_after.push(pp.in_pipe.value());
                    p.close_after.push(pp.out_pipe.value());
                    Out {
                        kind: 0,
                        val: 0,
                        extra: (i64::from(pp.in_pipe.value()) << 32) | i64::from(pp.out_pipe.value()),
                    }
                }
                Err(e) => err(e),
            }
        }
        W::read => {
            let n = p.n(16);
            us(u::read(fdv(p.fd), &mut p.buf[..n]))
        }
        W::readv => {
            let empty = p.shape == SH_EMPTY_BUF;
            let (a, b) = p.buf.split_at_mut(8);
            let mut io = [IoSliceMut::new(a), IoSliceMut::new(&mut b[..8])];
            let k = if empty { 0 } else { 2 };
            us(u::readv(fdv(p.fd), &mut io[..k]))
        }
        W::rename => unit(u::rename(p.p1(), p.p2())),
        W::rename_flags => unit(u::rename_flags(p.p1(), p.p2(), RenameFlags::empty())),
        W::rename_at => unit(u::rename_at(fdv(p.fd), p.p1(), fdv(p.fd2), p.p2())),
        W::rename_at2 => unit(u::rename_at2(fdv(p.fd), p.p1(), fdv(p.fd2), p.p2(), RenameFlags::empty())),
        W::lseek => match u::lseek(fdv(p.fd), p.pick(16, 0, i64::MIN), p.pick(u::Whence::SET, u::Whence::SET, u::Whence::END)) {
            Ok(v) => Out { kind: 0, val: v, extra: 0 },
            Err(e) => err(e),
        },
        W::setgid => unit(u::setgid(p.pick(p.id, 0, u32::MAX))),
        W::setpgid => unit(u::setpgid(p.pick(p.pid, 0, -1), p.pick(p.id as i32, 0, -1))),
        W::setsid => unit(u::setsid()),
        W::setuid => unit(u::setuid(p.pick(p.id, 0, u32::MAX))),
        W::stat => drop_ok(u::stat(p.p1())),
        W::statat => drop_ok(u::statat(fdv(p.fd), p.p1())),
        W::stat_fd => drop_ok(u::stat_fd(fdv(p.fd))),
        W::swapon => unit(u::swapon(p.p1(), p.pick(0, 0, -1))),
        W::uname => drop_ok(u::uname()),
        W::rmdir => unit(u::rmdir(fdv(p.fd))),
        W::unlink => unit(u::unlink(p.p1())),
        W::unlink_flags => unit(u::unlink_flags(p.p1(), uflags)),
        W::unlink_at => unit(u::unlink_at(fdv(p.fd), p.p1(), uflags)),
        W::unshare => unit(u::unshare(p.pick(CloneFlags::empty(), CloneFlags::empty(), CloneFlags::CLONE_FS))),
        W::write => us(u::write(fdv(p.fd), &p.buf[..p.n(16)])),
        W::writev => {
            let io = [IoSlice::new(&p.buf[..8]), IoSlice::new(&p.buf[8..16])];
            us(u::writev(fdv(p.fd), &io[..p.n(2)]))
        }
        W::accept_unix => match net::accept_unix(fdv(p.fd), sflags) {
            Ok((f, _)) => Out { kind: 0, val: i64::from(f.value()), extra: 0 },
            Err(e) => err(e),
        },
        W::accept_inet => match net::accept_inet(fdv(p.fd), sflags) {
            Ok((f, _)) => Out { kind: 0, val: i64::from(f.value()), extra: 0 },
            Err(e) => err(e),
        },
        W::bind_unix | W::connect_unix => {
            let a = match SocketAddressUnix::try_from_unix(p.p1()) {
                Ok(a) => a,
                Err(_) => return Out { kind: 3, val: 0, extra: 0 },
            };
            if w == W::bind_unix {
                unit(net::bind_unix(fdv(p.fd), &a))
            } else {
                unit(net::connect_unix(fdv(p.fd), &a))
            }
        }
        W::bind_inet => unit(net::bind_inet(fdv(p.fd), &SocketAddressInet::new(inet.0, inet.1))),
        W::connect_inet => unit(net::connect_inet(fdv(p.fd), &SocketAddressInet::new(inet.0, inet.1))),
        W::listen => unit(net::listen(fdv(p.fd), fdv(p.pick(8, 0, i32::MAX)))),
        W::socket => fdr(net::socket(
            p.pick(AddressFamily::AF_UNIX, AddressFamily::AF_UNSPEC, AddressFamily::AF_INET),
            SocketOptions::new(p.pick(SocketType::SOCK_STREAM, SocketType::SOCK_STREAM, SocketType::SOCK_PACKET), sflags),
            p.pick(0, 0, i32::MAX),
        )),
        W::get_unix_sock_name => drop_ok(net::get_unix_sock_name(fdv(p.fd))),
        W::get_inet_sock_name => drop_ok(net::get_inet_sock_name(fdv(p.fd))),
        W::sendmsg => {
            let io = [IoSlice::new(&p.buf[..16])];
            let g = MsgHdrBorrow::create_send(None, &io[..p.n(1)], None);
            us(net::sendmsg(fdv(p.fd), &g, p.pick(0, 0, -1)))
        }
        W::recvmsg => {
            let (k, fl) = (p.n(1), p.pick(0, 0, -1));
            let mut io = [IoSliceMut::new(&mut p.buf[..32])];
            let mut h = MsgHdrBorrow::create_recv(&mut io[..k], None);
            us(net::recvmsg(fdv(p.fd), &mut h, fl))
        }
        W::fork | W::clone | W::clone3 => {
            let r = unsafe {
                match w {
                    W::fork => pr::fork().map(i64::from),
                    W::clone => pr::clone(&CloneArgs::new(CloneFlags::empty())).map(i64::from),
                    _ => pr::clone3(&mut Clone3Args::new(CloneFlags::empty())).map(|v| v as i64),
                }
            };
            match r {
                Ok(v) => Out { kind: 0, val: v, extra: 0 },
                Err(e) => err(e),
            }
        }
        W::execve => {
            let nul: [*const u8; 1] = [core::ptr::null()];
            let v = p.pick(core::ptr::null(), core::ptr::null(), nul.as_ptr());
            unit(unsafe { pr::execve(p.p1(), v, v) })
        }
        W::get_pid => Out { kind: 0, val: i64::from(pr::get_pid()), extra: 0 },
        W::wait_pid => match pr::wait_pid(
            p.pick(p.pid, 0, -1),
            p.pick(WaitPidFlags::empty(), WaitPidFlags::empty(), WaitPidFlags::WNOHANG),
        ) {
            Ok(v) => Out { kind: 0, val: i64::from(v.pid), extra: i64::from(v.status) },
            Err(e) => err(e),
        },
        W::add_signal_action => {
            unsafe extern "C" fn on_sig(_s: i32) {}
            unit(unsafe {
                match p.shape {
                    SH_ZERO => pr::add_signal_action(pr::CatchSignal::Int, pr::SaSignalaction::Ign),
                    SH_EXTREME => pr::add_signal_action(pr::CatchSignal::Chld, pr::SaSignalaction::Handler(on_sig)),
                    _ => pr::add_signal_action(pr::CatchSignal::Hup, pr::SaSignalaction::Dfl),
                }
            })
        }
        W::ioctl => {
            let mut n = 0i32;
            let a = core::ptr::from_mut(&mut n) as usize;
            us(unsafe { ioctl::ioctl(fdv(p.fd), p.pick(0x541B, 0, usize::MAX), p.pick(a, 0, usize::MAX)) })
        }
        W::tcgetattr => drop_ok(termios::tcgetattr(fdv(p.fd))),
        W::tcsetattr => unit(termios::tcsetattr(fdv(p.fd), p.pick(SetAction::NOW, SetAction::NOW, SetAction::FLUSH), &p.term)),
        W::clock_get_time => drop_ok(time::clock_get_time(if p.var == 1 {
            ClockId::from_raw(12345)
        } else {
            p.pick(ClockId::CLOCK_MONOTONIC, ClockId::CLOCK_REALTIME, ClockId::from_raw(i32::MIN))
        })),
        W::nanosleep => unit(time::nanosleep(&nap, None)),
        W::nanosleep_rem => {
            let mut rem = TimeSpec::new(0, 0);
            unit(time::nanosleep(&nap, Some(core::ptr::from_mut(&mut rem))))
        }
        W::nanosleep_same_ptr => {
            let mut ts = nap;
            unit(time::nanosleep_same_ptr(&mut ts))
        }
        W::epoll_create => fdr(sel::epoll_create(true)),
        W::epoll_create_nocloexec => fdr(sel::epoll_create(false)),
        W::epoll_ctl => unit(sel::epoll_ctl(
            fdv(p.fd),
            p.pick(EpollOp::Add, EpollOp::Mod, EpollOp::Del),
            fdv(p.fd2),
            &EpollEvent::new(p.pick(1, 0, u64::MAX), p.pick(EpollEventMask::EPOLLIN, EpollEventMask::empty(), EpollEventMask::EPOLLET)),
        )),
        W::epoll_del => unit(sel::epoll_del(fdv(p.fd), fdv(p.fd2))),
        W::epoll_wait => {
            let mut ev = [EpollEvent::new(0, EpollEventMask::empty()); 4];
            us(sel::epoll_wait(fdv(p.fd), &mut ev[..p.n(4)], p.pick(0, 0, -1)))
        }
        W::ppoll => {
            let mut fds = [PollFd::new(fdv(p.fd), PollEvents::POLLOUT)];
            let zero = TimeSpec::new(0, 0);
            us(sel::ppoll(&mut fds[..p.n(1)], p.pick(Some(&zero), Some(&zero), None), None))
        }
        W::futex_wait => {
            let a = AtomicU32::new(1);
            unit(futex::futex_wait(
                &a,
                p.pick(0, 0, u32::MAX),
                p.pick(FutexFlags::PRIVATE, FutexFlags::empty(), FutexFlags::PRIVATE | FutexFlags::CLOCK_REALTIME),
                Some(p.pick(TimeSpec::new(0, 1000), TimeSpec::new(0, 0), TimeSpec::new(i64::MAX, 0))),
            ))
        }
        W::futex_wait_notimeout => {
            let a = AtomicU32::new(1);
            unit(futex::futex_wait(&a, p.pick(0, 0, u32::MAX), FutexFlags::PRIVATE, None))
        }
        W::futex_wake => {
            let a = AtomicU32::new(1);
            us(futex::futex_wake(&a, p.pick(1, 0, i32::MAX)))
        }
        W::bulk_transfer => {
            let (n, ep, to) = (p.n(16), p.pick(1, 0, u32::MAX), p.pick(10, 0, u32::MAX));
            us(usb::bulk_transfer(fdv(p.fd), ep, &mut p.buf[..n], to))
        }
        W::claim_interface => unit(usb::claim_interface(fdv(p.fd), p.pick(0, 0, u32::MAX))),
        W::reset_usb_device => unit(usb::reset_usb_device(fdv(p.fd))),
        W::release_interface => unit(usb::release_interface(fdv(p.fd), p.pick(0, 0, u32::MAX))),
        W::get_hid_dev_dev_info => drop_ok(hidio::get_hid_dev_dev_info(fdv(p.fd))),
        W::io_uring_setup => {
            let mut params = IoUringParams::new(IoUringParamFlags::empty(), 0, 0);
            fdr(ur::io_uring_setup(p.pick(2, 0, u32::MAX), &mut params))
        }
        W::io_uring_register_files => unit(ur::io_uring_register_files(fdv(p.fd), &[fdv(p.fd2)][..p.n(1)])),
        W::io_uring_register_io_slices => {
            let k = p.n(1);
            let io = [IoSliceMut::new(&mut p.buf[..64])];
            unit(ur::io_uring_register_io_slices(fdv(p.fd), &io[..k]))
        }
        W::io_uring_register_buffers => {
            let k = p.n(1);
            let io = [IoSliceMut::new(&mut p.buf[..64])];
            unit(unsafe { ur::io_uring_register_buffers(fdv(p.fd), &io[..k]) })
        }
        W::io_uring_enter => us(ur::io_uring_enter(
            fdv(p.fd),
            p.pick(0, 0, u32::MAX),
            p.pick(0, 0, u32::MAX),
            p.pick(IoUringEnterFlags::empty(), IoUringEnterFlags::empty(), IoUringEnterFlags::IORING_ENTER_GETEVENTS),
        )),
    }
}

fn cleanup(w: W, p: &Prep, out: Out) {
    if p.real && out.kind == 0 {
        match w {
            W::open | W::open_mode | W::open_at | W::open_at_mode | W::open_raw | W::socket | W::epoll_create
            | W::epoll_create_nocloexec | W::io_uring_setup | W::accept_unix | W::accept_inet
            | W::fcntl_dupfd_cloexec => unsafe {
                close(out.val as i32);
            },
            W::mmap => unsafe {
                munmap(out.val as usize, 4096);
            },
            _ => {}
        }
    }
    if p.real && w == W::wait_pid && out.kind != 0 {
        let mut st = 0;
        unsafe { waitpid(p.pid, &mut st, 0) };
    }
    for fd in &p.close_after {
        unsafe { close(*fd) };
    }
    for path in &p.rm_after {
        let _ = std::fs::remove_file(path);
        let _ = std::fs::remove_dir(path);
    }
}

fn main() {
    let mode = std::env::args().nth(1).unwrap_or_default();
    if mode == "list" {
        for (i, (w, name, nr)) in ALL.iter().enumerate() {
            let sh: Vec<String> = shapes(*w).iter().map(ToString::to_string).collect();
            println!("{i} {name} {nr} {}", if sh.is_empty() { "-".to_string() } else { sh.join(",") });
        }
        return;
    }
    if mode != "run" {
        eprintln!("usage: wrap_probe list | run < cases");
        std::process::exit(2);
    }
    if !marker::traced() {
        eprintln!("wrap_probe: not running under sysmon");
        std::process::exit(3);
    }
    // a panic inside a wrapper: stop forcing at once, so that the panic runtime's own system calls (allocation,
    // unwinding) are not answered with the forced value; the case is then reported as kind 2 = panicked
    std::panic::set_hook(Box::new(|_| marker::disarm()));
    let pid = unsafe { syscall(39) };
    let tmp = format!("/tmp/c09-probe-{pid}");
    let _ = std::fs::remove_dir_all(&tmp);
    std::fs::create_dir_all(&tmp).expect("tmp dir");
    let mut cx = Ctx { pid, tmp: tmp.clone(), n: 0, unix_listener: None, tcp_listener: None };
    std::thread::spawn(|| {
        use core::sync::atomic::Ordering::Relaxed;
        let (mut last, mut since) = (u64::MAX, std::time::Instant::now());
        loop {
            std::thread::sleep(std::time::Duration::from_millis(250));
            let now = CASE_SEQ.load(Relaxed);
            if now != last || !IN_CASE.load(Relaxed) {
                last = now;
                since = std::time::Instant::now();
            } else if since.elapsed().as_millis() as u64 > CASE_BUDGET_MS {
                unsafe { _exit(86) };
            }
        }
    });
    let stdin = std::io::stdin();
    let mut done = 0u64;
    for line in stdin.lock().lines() {
        let line = line.expect("stdin");
        let f: Vec<&str> = line.split_whitespace().collect();
        if f.len() != 4 && f.len() != 5 {
            continue;
        }
        let shape: i64 = f.get(4).map_or(0, |s| s.parse().expect("shape"));
        let wi: usize = f[0].parse().expect("wrapper id");
        let c: i64 = f[1].parse().expect("case id");
        let real = f[2] == "R";
        let x: i64 = f[3].parse().expect("value");
        let (w, _, _nr) = ALL[wi];
        let mut p = Prep {
            real,
            var: if real { x } else { 0 },
            r: if real { 0 } else { x },
            shape: if real { 0 } else { shape },
            fd: 999,
            fd2: 998,
            fd3: 997,
            pid: 0x3fff_fff0,
            id: 0,
            addr: 0x6000_0000_0000,
            port: 1,
            path: cpath("/nonexistent-c09/a"),
            path2: cpath("/nonexistent-c09/b"),
            buf: vec![0u8; 1024],
            term: unsafe { core::mem::zeroed() },
            close_after: Vec::with_capacity(8),
            rm_after: Vec::with_capacity(4),
        };
        let _ = p.fd3;
        prepare(w, &mut p, &mut cx);
        CASE_SEQ.fetch_add(1, core::sync::atomic::Ordering::Relaxed);
        IN_CASE.store(true, core::sync::atomic::Ordering::Relaxed);
        marker::mark(marker::BEGIN, wi as i64, c, i64::from(real), x, shape);
        if real {
            marker::inject(marker::SCOPE_THREAD, marker::ANY_NR, REAL_N, -EBADF, FUSE_N);
        } else {
            marker::inject(marker::SCOPE_THREAD, marker::ANY_NR, 0, x, FORCED_N);
            marker::inject(marker::SCOPE_THREAD, marker::ANY_NR, 0, -EBADF, FUSE_N);
        }
        let out = catch_unwind(AssertUnwindSafe(|| call(w, &mut p, &cx)))
            .unwrap_or(Out { kind: 2, val: 0, extra: 0 });
        marker::end(wi as i64, c, out.kind, out.val, out.extra);
        // a process-creating call that really ran (fuse exhausted): the child must not continue the probe
        if matches!(w, W::fork | W::clone | W::clone3) && unsafe { syscall(39) } != cx.pid {
            unsafe { _exit(0) };
        }
        IN_CASE.store(false, core::sync::atomic::Ordering::Relaxed);
        cleanup(w, &p, out);
        done += 1;
    }
    let _ = std::fs::remove_dir_all(&tmp);
    // all case results travel through the markers; this line is only a liveness note for the driver
    println!("wrap_probe done {done}");
}
