//! Allocate-then-free-everything workload shapes for C04, shared by the no-libc `alloc_probe`
//! (global allocator of tiny-std) and the std harness `h_alloc` (private Dlmalloc instance).
//! `no_std` + `alloc` only.
extern crate alloc;
use alloc::vec::Vec;

pub trait Heap {
    unsafe fn alloc(&mut self, size: usize, align: usize) -> *mut u8;
    unsafe fn realloc(&mut self, p: *mut u8, old: usize, align: usize, new: usize) -> *mut u8;
    unsafe fn free(&mut self, p: *mut u8, size: usize, align: usize);
}

/// splitmix64
pub struct Prng(pub u64);
impl Prng {
    pub fn new(seed: u64) -> Self {
        let mut p = Prng(seed ^ 0x9E37_79B9_7F4A_7C15);
        p.next();
        p
    }
    #[inline]
    pub fn next(&mut self) -> u64 {
        self.0 = self.0.wrapping_add(0x9E37_79B9_7F4A_7C15);
        let mut z = self.0;
        z = (z ^ (z >> 30)).wrapping_mul(0xBF58_476D_1CE4_E5B9);
        z = (z ^ (z >> 27)).wrapping_mul(0x94D0_49BB_1331_11EB);
        z ^ (z >> 31)
    }
    #[inline]
    pub fn below(&mut self, n: u64) -> u64 {
        self.next() % n
    }
}

#[derive(Copy, Clone, PartialEq, Eq, Debug)]
pub enum Shape {
    Small,
    Large,
    Mixed,
    OverAligned,
    Ladder,
    /// 8 MiB allocated and freed, then 3 MiB allocated and freed: every free pushes top over the trim
    /// threshold, so each round goes through sys_trim (mremap shrink / munmap) twice
    Round,
    /// realloc ladders on blocks aligned to 32 / 64 / 128 / 4096 (the allocate-copy-free branch of realloc):
    /// grow by doubling, grow by small steps, shrink by halves, exact shrink, grow-then-shrink cycles
    AlignedLadder,
    /// alloc_probe only: Vec<#[repr(align(N))] record> pushed, shrunk to fit, pushed again, dropped
    VecAligned,
    /// large blocks (64 KiB .. 1 MiB) allocated one at a time, each shrunk by realloc to a few bytes .. a few
    /// hundred bytes and KEPT (also grow-then-shrink-and-keep); only one large block is ever live; everything is
    /// freed at the end of the repetition. Held memory is also sampled with all the shrunk blocks alive.
    ShrinkKeep,
    /// alloc_probe only: the same through Vec::with_capacity / shrink_to_fit / into_boxed_slice / shrink_to
    VecShrink,
    /// three buffers of 1, 2 and 1 MiB live together (4 MiB), freed in the given order: every repetition frees more
    /// than the trim threshold at the top
    Trio,
    /// over-aligned, RANDOMLY sized, bounded live: pairs of (small pad of 8..136 bytes, block of 1..16 KiB aligned to
    /// 32..4096); the pad shifts the raw chunk memalign obtains through every 16-byte phase relative to the alignment.
    /// Sizes, alignments and pads are drawn afresh in EVERY repetition (an identical round can settle into exactly
    /// fitting holes); half-way a random half of the blocks is freed and as many pairs are allocated again, so raw
    /// chunks come out of bins and dv as well as out of top. Everything is freed at the end of the repetition.
    AlignRand,
}
#[derive(Copy, Clone, PartialEq, Eq, Debug)]
pub enum Order {
    Lifo,
    Fifo,
    Random,
}
pub const SHAPES: [(&str, Shape); 12] = [
    ("alignrand", Shape::AlignRand),
    ("small", Shape::Small),
    ("large", Shape::Large),
    ("mixed", Shape::Mixed),
    ("overaligned", Shape::OverAligned),
    ("ladder", Shape::Ladder),
    ("round", Shape::Round),
    ("aladder", Shape::AlignedLadder),
    ("vecalign", Shape::VecAligned),
    ("shrinkkeep", Shape::ShrinkKeep),
    ("vecshrink", Shape::VecShrink),
    ("trio", Shape::Trio),
];
/// shapes whose held memory is sampled between the allocation and the free half as well
pub fn samples_mid(shape: Shape) -> bool {
    matches!(shape, Shape::ShrinkKeep | Shape::VecShrink)
}
pub const LADDER_ALIGNS: [usize; 4] = [32, 64, 128, 4096];
pub const ORDERS: [(&str, Order); 3] = [("lifo", Order::Lifo), ("fifo", Order::Fifo), ("random", Order::Random)];

pub fn shape_by_name(s: &str) -> Option<Shape> {
    SHAPES.iter().find(|(n, _)| *n == s).map(|(_, v)| *v)
}
pub fn order_by_name(s: &str) -> Option<Order> {
    ORDERS.iter().find(|(n, _)| *n == s).map(|(_, v)| *v)
}

#[derive(Copy, Clone)]
pub struct Item {
    pub size: usize,
    pub align: usize,
}

fn small_size(r: &mut Prng) -> usize {
    match r.below(4) {
        0 => 1 + r.below(24) as usize,
        1 => (8 * (1 + r.below(32)) as usize + r.below(3) as usize).saturating_sub(1).max(1),
        _ => 1 + r.below(256) as usize,
    }
}

/// The fixed list of requests of one repetition. `share` divides the item count (one share per thread).
pub fn plan(shape: Shape, seed: u64, share: usize) -> Vec<Item> {
    let mut r = Prng::new(seed);
    let share = share.max(1);
    let mut v = Vec::new();
    match shape {
        Shape::Small => {
            for _ in 0..(2000 / share).max(8) {
                v.push(Item { size: small_size(&mut r), align: 1 << r.below(4) });
            }
        }
        Shape::Large => {
            for _ in 0..(24 / share).max(2) {
                let size = (300 << 10) + r.below((3 << 20) - (300 << 10)) as usize;
                v.push(Item { size, align: 8 });
            }
        }
        Shape::Mixed => {
            for i in 0..(1500 / share).max(16) {
                let size = if i % 37 == 5 {
                    (1 << 10) + r.below(127 << 10) as usize
                } else if i % 251 == 17 {
                    (256 << 10) + r.below(2 << 20) as usize
                } else {
                    small_size(&mut r)
                };
                v.push(Item { size, align: 1 << r.below(5) });
            }
        }
        Shape::OverAligned => {
            for _ in 0..(600 / share).max(8) {
                v.push(Item { size: 1 + r.below(4096) as usize, align: 32 << r.below(9) });
            }
        }
        Shape::Ladder => {
            for _ in 0..(64 / share).max(2) {
                v.push(Item { size: 16 + r.below(48) as usize, align: 8 });
            }
        }
        Shape::AlignedLadder => {
            for i in 0..(40 / share).max(5) {
                let align = LADDER_ALIGNS[i % 4];
                v.push(Item { size: align * (1 + r.below(3) as usize) + r.below(40) as usize, align });
            }
        }
        Shape::VecAligned | Shape::VecShrink => {}
        Shape::AlignRand => {
            // only the count and the stream seed are fixed; the requests are drawn per repetition in rep_allocate
            for _ in 0..(ALIGNRAND_PAIRS / share).max(4) {
                v.push(Item { size: 1 + (r.next() >> 8) as usize, align: 8 });
            }
        }
        Shape::Trio => {
            for mib in [1usize, 2, 1] {
                v.push(Item { size: (mib << 20) / share.min(4) + r.below(512) as usize, align: 8 });
            }
        }
        Shape::ShrinkKeep => {
            for i in 0..(600 / share).max(20) {
                let size = (64 << 10) + r.below((1 << 20) - (64 << 10)) as usize;
                v.push(Item { size, align: if i % 4 == 3 { 64 } else { 8 } });
            }
        }
        Shape::Round => {
            v.push(Item { size: (8 << 20) + r.below(4096) as usize, align: 8 });
            v.push(Item { size: (3 << 20) + r.below(4096) as usize, align: 8 });
            if share == 1 {
                v.push(Item { size: (5 << 20) + r.below(65536) as usize, align: 8 });
            }
        }
    }
    v
}

#[derive(Copy, Clone, Default)]
pub struct RepStats {
    pub peak_live: usize,
    pub churned: usize,
    pub calls: usize,
    pub failed: usize,
    /// primers whose carve landed on the prepared block
    pub primed: usize,
}

#[derive(Copy, Clone)]
pub struct Slot {
    pub p: *mut u8,
    pub size: usize,
    pub align: usize,
}

#[inline]
unsafe fn touch(p: *mut u8, size: usize, tag: u8) {
    // first / last byte and one byte per page: the memory must really be there
    p.write_volatile(tag);
    p.add(size - 1).write_volatile(tag);
    let mut off = 4096;
    while off < size {
        p.add(off).write_volatile(tag);
        off += 4096;
    }
}

pub const ALIGNRAND_PAIRS: usize = 16;
/// repetitions of the AlignRand shape so far (all threads): every repetition draws fresh requests
static ALIGNRAND_ROUND: core::sync::atomic::AtomicU64 = core::sync::atomic::AtomicU64::new(0);

unsafe fn alignrand_pair<H: Heap>(h: &mut H, r: &mut Prng, slots: &mut Vec<Slot>, st: &mut RepStats, live: &mut usize) {
    let x = r.next();
    let pad = 8 + 16 * (x & 7) as usize;
    let align = 32usize << ((x >> 8) % 8);
    let size = match (x >> 16) & 3 {
        0 => 1 + ((x >> 20) % 512) as usize,
        1 => align * (1 + ((x >> 20) % 4) as usize) + ((x >> 40) % 40) as usize,
        _ => 1 + ((x >> 20) % 16384) as usize,
    };
    for (size, align) in [(pad, 8usize), (size, align)] {
        let p = h.alloc(size, align);
        st.calls += 1;
        if p.is_null() || (p as usize) & (align - 1) != 0 {
            st.failed += 1;
            continue;
        }
        p.write_volatile(0xA7);
        p.add(size - 1).write_volatile(0xA7);
        *live += size;
        st.churned += size;
        slots.push(Slot { p, size, align });
    }
    st.peak_live = st.peak_live.max(*live);
}

/// Allocation half of a repetition: everything in `plan` is allocated (and, for ladders, grown
/// and shrunk by realloc). Live blocks are appended to `slots`.
pub unsafe fn rep_allocate<H: Heap>(h: &mut H, shape: Shape, plan: &[Item], slots: &mut Vec<Slot>, st: &mut RepStats) {
    if shape == Shape::ShrinkKeep {
        // requested bytes live at each moment: the kept small blocks plus the one large block in work
        let mut live = 0usize;
        for (i, it) in plan.iter().enumerate() {
            let small = 8 + it.size % 389;
            let first = if i % 3 == 1 { 4096 } else { it.size };
            let p = h.alloc(first, it.align);
            st.calls += 1;
            if p.is_null() || (p as usize) & (it.align - 1) != 0 {
                st.failed += 1;
                continue;
            }
            live += first;
            st.peak_live = st.peak_live.max(live);
            let mut s = Slot { p, size: first, align: it.align };
            touch(s.p, s.size, 0xC3);
            match i % 3 {
                // grow, then shrink and keep
                1 => {
                    re_raw(h, &mut s, it.size, st, &mut live);
                    touch(s.p, s.size, 0xC4);
                }
                // shrink in two steps
                2 => re_raw(h, &mut s, it.size / 2, st, &mut live),
                _ => {}
            }
            re_raw(h, &mut s, small, st, &mut live);
            slots.push(s);
        }
        return;
    }
    if shape == Shape::Round {
        // one block at a time: allocate, touch, free
        for it in plan {
            let p = h.alloc(it.size, it.align);
            st.calls += 2;
            if p.is_null() {
                st.failed += 1;
                continue;
            }
            touch(p, it.size, 0xA5);
            st.churned += it.size;
            st.peak_live = st.peak_live.max(it.size);
            h.free(p, it.size, it.align);
        }
        return;
    }
    if shape == Shape::AlignRand {
        let round = ALIGNRAND_ROUND.fetch_add(1, core::sync::atomic::Ordering::Relaxed);
        let mut r = Prng::new(plan.first().map_or(1, |i| i.size as u64) ^ round.wrapping_mul(0xD6E8_FEB8_6659_FD93));
        let mut live = 0usize;
        let first = slots.len();
        for _ in 0..plan.len() {
            alignrand_pair(h, &mut r, slots, st, &mut live);
        }
        // a random half goes (pads and blocks alike: holes of every size next to live neighbours) ...
        let mut freed = 0usize;
        let mut i = first;
        while i < slots.len() {
            if r.next() & 1 == 0 {
                let s = slots.swap_remove(i);
                h.free(s.p, s.size, s.align);
                st.calls += 1;
                live -= s.size;
                freed += 1;
            } else {
                i += 1;
            }
        }
        // ... and as many pairs come again, now served from the holes
        for _ in 0..freed / 2 {
            alignrand_pair(h, &mut r, slots, st, &mut live);
        }
        return;
    }
    let mut live = 0usize;
    for it in plan {
        let p = h.alloc(it.size, it.align);
        st.calls += 1;
        if p.is_null() || (p as usize) & (it.align - 1) != 0 {
            st.failed += 1;
            continue;
        }
        touch(p, it.size, 0xA5);
        live += it.size;
        st.churned += it.size;
        slots.push(Slot { p, size: it.size, align: it.align });
    }
    st.peak_live = st.peak_live.max(live);
    if shape == Shape::AlignedLadder {
        aligned_ladder(h, slots, st, &mut live);
    }
    if shape == Shape::Ladder {
        // grow every block step by step (interleaved across blocks so that in-place growth is
        // mostly impossible), then shrink back
        for step in 0..13 {
            for s in slots.iter_mut() {
                let new = s.size * 2 + step;
                let p = h.realloc(s.p, s.size, s.align, new);
                st.calls += 1;
                if p.is_null() {
                    st.failed += 1;
                    continue;
                }
                live += new - s.size;
                st.churned += new;
                s.p = p;
                s.size = new;
                touch(p, new, 0x5A);
            }
            st.peak_live = st.peak_live.max(live);
        }
        for s in slots.iter_mut() {
            let new = 100 + s.size / 1000;
            let p = h.realloc(s.p, s.size, s.align, new);
            st.calls += 1;
            if p.is_null() {
                st.failed += 1;
                continue;
            }
            s.p = p;
            s.size = new;
        }
    }
}

unsafe fn re<H: Heap>(h: &mut H, s: &mut Slot, new: usize, st: &mut RepStats, live: &mut usize) {
    // a ladder that outgrows 256 KiB falls back to a quarter of that (keeps the peak moderate)
    let new = if new > (256 << 10) { (64 << 10) + new % 4096 } else { new };
    re_raw(h, s, new, st, live);
}

unsafe fn re_raw<H: Heap>(h: &mut H, s: &mut Slot, new: usize, st: &mut RepStats, live: &mut usize) {
    let new = new.max(1);
    let p = h.realloc(s.p, s.size, s.align, new);
    st.calls += 1;
    if p.is_null() || (p as usize) & (s.align - 1) != 0 {
        st.failed += 1;
        return;
    }
    *live = *live + new - s.size;
    st.churned += new;
    st.peak_live = st.peak_live.max(*live);
    s.p = p;
    s.size = new;
    p.write_volatile(0x77);
    p.add(new - 1).write_volatile(0x77);
}

/// Every block walks one of five realloc patterns (by its index), interleaved across blocks.
unsafe fn aligned_ladder<H: Heap>(h: &mut H, slots: &mut Vec<Slot>, st: &mut RepStats, live: &mut usize) {
    for round in 0..24usize {
        for (i, s) in slots.iter_mut().enumerate() {
            let a = s.align;
            match i % 5 {
                // grow by doubling (Vec-style), 12 times, then stay
                0 => {
                    if round < 12 {
                        re(h, s, s.size * 2, st, live);
                    }
                }
                // grow by small steps
                1 => re(h, s, s.size + 24 + (round % 3) * a, st, live),
                // grow by doubling 10 times, then shrink by halves
                2 => {
                    if round < 10 {
                        re(h, s, s.size * 2 + 1, st, live);
                    } else {
                        re(h, s, s.size / 2, st, live);
                    }
                }
                // grow with slack (capacity doubling), then shrink to the exact length used (shrink_to_fit)
                3 => {
                    if round % 4 == 3 {
                        re(h, s, s.size - s.size / 3 - 7, st, live);
                    } else {
                        re(h, s, s.size * 2, st, live);
                    }
                }
                // grow-then-shrink cycles
                _ => {
                    if round % 6 < 3 {
                        re(h, s, s.size * 3 + a, st, live);
                    } else {
                        re(h, s, s.size / 3, st, live);
                    }
                }
            }
        }
    }
    // shrink_to_fit-style exact shrink of everything before the free phase
    for s in slots.iter_mut() {
        re(h, s, 1 + s.size / 5, st, live);
    }
}

/// End of a repetition in the foreign-mappings family: one block larger than anything the heap can still hold free
/// (1.5 x the repetition's peak, at least 3 MiB) is allocated and freed. It has to come from a fresh mapping - which
/// cannot be adjacent to the heap because of the foreign mapping - and its free pushes top over the trim threshold,
/// so that the heap is trimmed and its unused segments are released in every repetition.
/// (Once the heap legitimately retains a free chunk of that size away from top, it serves the block and the heap stops
/// growing: such a run simply stays flat from then on.)
pub unsafe fn rep_flush<H: Heap>(h: &mut H, st: &mut RepStats) {
    let size = (st.peak_live + st.peak_live / 2).clamp(3 << 20, 64 << 20);
    let p = h.alloc(size, 8);
    st.calls += 2;
    if p.is_null() {
        st.failed += 1;
        return;
    }
    p.write_volatile(1);
    p.add(size - 1).write_volatile(1);
    st.peak_live = st.peak_live.max(size);
    st.churned += size;
    h.free(p, size, 8);
}

/// Free half: every slot is released in the given order; `slots` is empty afterwards.
pub unsafe fn rep_free<H: Heap>(h: &mut H, order: Order, order_seed: u64, slots: &mut Vec<Slot>, st: &mut RepStats) {
    match order {
        Order::Lifo => {
            while let Some(s) = slots.pop() {
                h.free(s.p, s.size, s.align);
                st.calls += 1;
            }
        }
        Order::Fifo => {
            for s in slots.iter() {
                h.free(s.p, s.size, s.align);
                st.calls += 1;
            }
            slots.clear();
        }
        Order::Random => {
            let mut r = Prng::new(order_seed);
            let n = slots.len();
            for i in (1..n).rev() {
                let j = r.below(i as u64 + 1) as usize;
                slots.swap(i, j);
            }
            while let Some(s) = slots.pop() {
                h.free(s.p, s.size, s.align);
                st.calls += 1;
            }
        }
    }
}

// ---------------------------------------------------------------------------------------------
// steady state: a BOUNDED live set of fixed-size / few-size objects that is replaced object by object
// for many steps, after a "primer" that carves a free block so that its remainder (the designated
// victim `dv`, or a binned chunk) is exactly / one granule below / one granule above the hot chunk size.
// Live bytes are bounded, so any growth of held memory with the number of steps is the refuting event.

/// chunk size the allocator uses for a request (request padded to 16 with 8 bytes overhead, minimum 32)
pub const fn chunk_of(req: usize) -> usize {
    let c = (req + 8 + 15) & !15;
    if c < 32 {
        32
    } else {
        c
    }
}
/// largest request whose chunk is `chunk`
pub const fn req_of(chunk: usize) -> usize {
    chunk - 8
}

#[derive(Copy, Clone)]
pub struct Steady {
    /// hot chunk size (multiple of 16, >= 32)
    pub chunk: usize,
    /// 0: every object has the hot size; 1: hot size mostly, plus half and hot+40;
    /// 2: like 1 and, every step, one live object is realloc'ed to another of these sizes or to twice the hot size
    pub mix: u8,
    /// alignment of every object (above 16: memalign blocks, realloc = allocate-copy-free)
    pub align: usize,
    pub policy: Order,
    /// 0 none, 1 remainder becomes dv (small carve), 2 remainder goes to a bin (large carve)
    pub primer: u8,
    /// remainder = chunk + delta
    pub delta: isize,
    /// objects in the live set
    pub live: usize,
    pub steps: usize,
}

pub const STEADY_PRIMERS: [&str; 3] = ["none", "dv", "bin"];
/// capacity callers reserve for the primer's scratch list
pub const STEADY_PRIMER_TRIES: usize = 8192 + 130;

pub fn steady_live(chunk: usize) -> usize {
    let n = 65536 / chunk;
    if n > 64 {
        64
    } else if n < 4 {
        4
    } else {
        n
    }
}
/// enough steps that a chunk lost per step adds up to ~10 MiB
pub fn steady_steps(chunk: usize) -> usize {
    let n = (10 << 20) / chunk;
    if n < 20_000 {
        20_000
    } else {
        n
    }
}

fn steady_size(p: &Steady, r: &mut Prng, slack: usize) -> usize {
    let hot = req_of(p.chunk) - slack;
    if p.mix == 0 {
        return hot;
    }
    let hot = hot.max(2);
    match r.below(8) {
        0 => (hot / 2).max(1),
        1 => hot + 40,
        _ => hot,
    }
}

/// One repetition: primer, fill, `steps` replacements, free everything. `sample` is called with the
/// live set full: at steady steps 0, 64, 128 (warm-up) and then eight times spread over the steps,
/// and at the end of the steps (the caller samples once more after everything was freed).
pub unsafe fn steady_rep<H: Heap>(h: &mut H, p: &Steady, seed: u64, slots: &mut Vec<Slot>, extra: &mut Vec<Slot>, st: &mut RepStats, sample: &mut dyn FnMut(&mut H)) {
    let mut r = Prng::new(seed);
    let slack = (seed % 9) as usize; // any request in (chunk-24, chunk-8] has the same chunk
    // ---- primer ----
    let rem = p.chunk as isize + p.delta;
    if p.primer != 0 && rem >= 32 {
        let carve_chunk = if p.primer == 1 { 32 } else { 272 };
        let a_size = req_of(rem as usize + carve_chunk);
        // the block to be carved and, directly behind it, a guard that keeps it away from top and from
        // other free chunks; leftovers in the heap may place the two apart: keep such pairs and retry
        let mut a = core::ptr::null_mut();
        let mut g = core::ptr::null_mut();
        let mut null_seen = false;
        for _ in 0..64 {
            a = h.alloc(a_size, 8);
            g = h.alloc(24, 8);
            st.calls += 2;
            if a.is_null() || g.is_null() {
                null_seen = true;
                break;
            }
            if g as usize == a as usize + chunk_of(a_size) {
                break;
            }
            extra.push(Slot { p: a, size: a_size, align: 8 });
            extra.push(Slot { p: g, size: 24, align: 8 });
            a = core::ptr::null_mut();
            g = core::ptr::null_mut();
        }
        if !a.is_null() && !g.is_null() {
            extra.push(Slot { p: g, size: 24, align: 8 });
            h.free(a, a_size, 8);
            st.calls += 1;
            // Carve the front of the freed block: remainder = chunk + delta (it becomes dv for the small
            // carve, a binned chunk for the large one). Whatever free space the heap prefers to the freed
            // block (free chunks of the carve size, an older dv, smaller tree chunks) is served first; keep
            // those and try again until the carve lands on the freed block (seen by its address only).
            let k_size = req_of(carve_chunk);
            let tries = if p.primer == 1 { 8192 } else { 64 };
            for _ in 0..tries {
                let k = h.alloc(k_size, 8);
                st.calls += 1;
                if k.is_null() {
                    st.failed += 1;
                    break;
                }
                extra.push(Slot { p: k, size: k_size, align: 8 });
                if k == a {
                    st.primed += 1;
                    break;
                }
            }
        } else if null_seen {
            st.failed += 1;
            for q in [a, g] {
                if !q.is_null() {
                    extra.push(Slot { p: q, size: if q == a { a_size } else { 24 }, align: 8 });
                }
            }
        }
        // (64 pairs that were never adjacent, e.g. with other threads allocating: unprimed, not a failure)
    }
    // ---- fill ----
    let mut live = 0usize;
    for _ in 0..p.live {
        let size = steady_size(p, &mut r, slack);
        let q = h.alloc(size, p.align);
        st.calls += 1;
        if q.is_null() || (q as usize) & (p.align - 1) != 0 {
            st.failed += 1;
            continue;
        }
        touch(q, size, 0x3C);
        live += size;
        slots.push(Slot { p: q, size, align: p.align });
    }
    st.peak_live = st.peak_live.max(live + p.chunk + 512);
    // ---- steady state ----
    let n = slots.len();
    let every = (p.steps / 8).max(1);
    let mut fifo = 0usize;
    for step in 0..p.steps {
        if step == 0 || step == 64 || step == 128 || (step > 128 && step % every == 0) {
            sample(h);
        }
        if n == 0 {
            break;
        }
        let burst = if p.policy == Order::Lifo { 1 + r.below(4) as usize } else { 1 };
        for b in 0..burst.min(n) {
            let idx = match p.policy {
                Order::Fifo => {
                    fifo = (fifo + 1) % n;
                    fifo
                }
                Order::Lifo => n - 1 - b,
                Order::Random => r.below(n as u64) as usize,
            };
            let s = slots[idx];
            if s.p.is_null() {
                continue;
            }
            h.free(s.p, s.size, s.align);
            live -= s.size;
            slots[idx].p = core::ptr::null_mut();
        }
        if p.mix == 2 {
            // realloc-driven churn inside the bounded live set
            let idx = r.below(n as u64) as usize;
            if !slots[idx].p.is_null() {
                let new = if r.below(4) == 0 { 2 * req_of(p.chunk) } else { steady_size(p, &mut r, slack) };
                re(h, &mut slots[idx], new, st, &mut live);
            }
        }
        for s in slots.iter_mut() {
            if s.p.is_null() {
                let size = steady_size(p, &mut r, slack);
                let q = h.alloc(size, p.align);
                st.calls += 2;
                if q.is_null() || (q as usize) & (p.align - 1) != 0 {
                    st.failed += 1;
                    // keep the slot empty-handed: retry with the minimum so the set stays defined
                    s.size = 0;
                    continue;
                }
                q.write_volatile(0x3C);
                q.add(size - 1).write_volatile(0x3C);
                st.churned += size;
                live += size;
                s.p = q;
                s.size = size;
                s.align = p.align;
            }
        }
        st.peak_live = st.peak_live.max(live + p.chunk + 512);
    }
    sample(h);
    // ---- free everything ----
    while let Some(s) = slots.pop() {
        if !s.p.is_null() {
            h.free(s.p, s.size, s.align);
            st.calls += 1;
        }
    }
    while let Some(e) = extra.pop() {
        h.free(e.p, e.size, e.align);
        st.calls += 1;
    }
}

// ---------------------------------------------------------------------------------------------
// foreign mappings between heap growths: something else in the process maps memory (PROT_NONE, never touched)
// right where the allocator's next mapping would have been adjacent to its heap, so the heap becomes a list of
// NON-ADJACENT segments (add_segment, demoted segments, release_unused_segments). The bytes currently mapped this
// way are tracked exactly so that they can be taken out of VmSize.
pub trait Os {
    /// anonymous PROT_NONE mapping; 0 on failure
    unsafe fn map(&mut self, len: usize) -> usize;
    unsafe fn unmap(&mut self, addr: usize, len: usize);
}

pub const FOREIGN_POLICIES: [&str; 5] = ["none", "keep", "ring", "transient", "keep16"];

pub struct Foreign {
    /// 0 none; 1 keep every mapping; 2 keep the last 6, unmap older ones (holes the heap may grow into later);
    /// 3 unmap right after the repetition; 4 keep every mapping, each 16 MiB (larger than any growth of the heap, so the
    /// heap's next mapping can never be adjacent to an older one); 1-3 draw sizes from 4 KiB .. 16 MiB
    pub policy: u8,
    ring: [(usize, usize); 6],
    next: usize,
    /// bytes currently mapped by us
    pub bytes: usize,
    pub mapped: usize,
    pub unmapped: usize,
}
impl Foreign {
    pub fn new(policy: u8) -> Self {
        Foreign { policy, ring: [(0, 0); 6], next: 0, bytes: 0, mapped: 0, unmapped: 0 }
    }
    pub fn by_name(s: &str) -> Option<Self> {
        FOREIGN_POLICIES.iter().position(|p| *p == s).map(|i| Self::new(i as u8))
    }
    fn size(r: &mut Prng) -> usize {
        match r.below(8) {
            0 => 4096,
            1 => 12288,
            2 => 65536,
            3 => 1 << 20,
            4 => 2 << 20,
            5 => (3 << 20) + 4096,
            _ => 16 << 20,
        }
    }
    /// called before a repetition (or periodically inside a steady phase)
    pub unsafe fn before<O: Os>(&mut self, os: &mut O, r: &mut Prng) {
        if self.policy == 0 {
            return;
        }
        let len = if self.policy == 4 { 16 << 20 } else { Self::size(r) };
        let addr = os.map(len);
        if addr == 0 {
            return;
        }
        self.bytes += len;
        self.mapped += 1;
        if self.policy != 1 && self.policy != 4 {
            let old = self.ring[self.next];
            if old.1 != 0 {
                os.unmap(old.0, old.1);
                self.bytes -= old.1;
                self.unmapped += 1;
            }
            self.ring[self.next] = (addr, len);
            self.next = (self.next + 1) % self.ring.len();
        }
    }
    /// called after a repetition
    pub unsafe fn after<O: Os>(&mut self, os: &mut O) {
        if self.policy == 3 {
            for e in self.ring.iter_mut() {
                if e.1 != 0 {
                    os.unmap(e.0, e.1);
                    self.bytes -= e.1;
                    self.unmapped += 1;
                    *e = (0, 0);
                }
            }
        }
    }
}
