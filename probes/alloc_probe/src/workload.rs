//! Allocate-then-free-everything workload shapes for C04, shared by the no-libc `alloc_probe`
//! (global allocator of tiny-std) and the std harness `h_alloc` (private Dlmalloc instance).
//! `no_std` + `alloc` only.
extern crate alloc;
use alloc::vec::Vec;

pub trait Heap {
    unsafe fn alloc(&mut self, size: usize, align: usize) -> *mut u8;
    unsafe fn realloc(&mut self, p: *mut u8, old: usize, align: usize, new: usize) -> *mut u8;
    unsafe fn free(&mut self, p: *mut u8, size: usize, align: usize);
}

/// splitmix64
pub struct Prng(pub u64);
impl Prng {
    pub fn new(seed: u64) -> Self {
        let mut p = Prng(seed ^ 0x9E37_79B9_7F4A_7C15);
        p.next();
        p
    }
    #[inline]
    pub fn next(&mut self) -> u64 {
        self.0 = self.0.wrapping_add(0x9E37_79B9_7F4A_7C15);
        let mut z = self.0;
        z = (z ^ (z >> 30)).wrapping_mul(0xBF58_476D_1CE4_E5B9);
        z = (z ^ (z >> 27)).wrapping_mul(0x94D0_49BB_1331_11EB);
        z ^ (z >> 31)
    }
    #[inline]
    pub fn below(&mut self, n: u64) -> u64 {
        self.next() % n
    }
}

#[derive(Copy, Clone, PartialEq, Eq, Debug)]
pub enum Shape {
    Small,
    Large,
    Mixed,
    OverAligned,
    Ladder,
}
#[derive(Copy, Clone, PartialEq, Eq, Debug)]
pub enum Order {
    Lifo,
    Fifo,
    Random,
}
pub const SHAPES: [(&str, Shape); 5] = [
    ("small", Shape::Small),
    ("large", Shape::Large),
    ("mixed", Shape::Mixed),
    ("overaligned", Shape::OverAligned),
    ("ladder", Shape::Ladder),
];
pub const ORDERS: [(&str, Order); 3] = [("lifo", Order::Lifo), ("fifo", Order::Fifo), ("random", Order::Random)];

pub fn shape_by_name(s: &str) -> Option<Shape> {
    SHAPES.iter().find(|(n, _)| *n == s).map(|(_, v)| *v)
}
pub fn order_by_name(s: &str) -> Option<Order> {
    ORDERS.iter().find(|(n, _)| *n == s).map(|(_, v)| *v)
}

#[derive(Copy, Clone)]
pub struct Item {
    pub size: usize,
    pub align: usize,
}

fn small_size(r: &mut Prng) -> usize {
    match r.below(4) {
        0 => 1 + r.below(24) as usize,
        1 => (8 * (1 + r.below(32)) as usize + r.below(3) as usize).saturating_sub(1).max(1),
        _ => 1 + r.below(256) as usize,
    }
}

/// The fixed list of requests of one repetition. `share` divides the item count (one share per thread).
pub fn plan(shape: Shape, seed: u64, share: usize) -> Vec<Item> {
    let mut r = Prng::new(seed);
    let share = share.max(1);
    let mut v = Vec::new();
    match shape {
        Shape::Small => {
            for _ in 0..(2000 / share).max(8) {
                v.push(Item { size: small_size(&mut r), align: 1 << r.below(4) });
            }
        }
        Shape::Large => {
            for _ in 0..(24 / share).max(2) {
                let size = (300 << 10) + r.below((3 << 20) - (300 << 10)) as usize;
                v.push(Item { size, align: 8 });
            }
        }
        Shape::Mixed => {
            for i in 0..(1500 / share).max(16) {
                let size = if i % 37 == 5 {
                    (1 << 10) + r.below(127 << 10) as usize
                } else if i % 251 == 17 {
                    (256 << 10) + r.below(2 << 20) as usize
                } else {
                    small_size(&mut r)
                };
                v.push(Item { size, align: 1 << r.below(5) });
            }
        }
        Shape::OverAligned => {
            for _ in 0..(600 / share).max(8) {
                v.push(Item { size: 1 + r.below(4096) as usize, align: 32 << r.below(9) });
            }
        }
        Shape::Ladder => {
            for _ in 0..(64 / share).max(2) {
                v.push(Item { size: 16 + r.below(48) as usize, align: 8 });
            }
        }
    }
    v
}

#[derive(Copy, Clone, Default)]
pub struct RepStats {
    pub peak_live: usize,
    pub churned: usize,
    pub calls: usize,
    pub failed: usize,
}

#[derive(Copy, Clone)]
pub struct Slot {
    pub p: *mut u8,
    pub size: usize,
    pub align: usize,
}

#[inline]
unsafe fn touch(p: *mut u8, size: usize, tag: u8) {
    // first / last byte and one byte per page: the memory must really be there
    p.write_volatile(tag);
    p.add(size - 1).write_volatile(tag);
    let mut off = 4096;
    while off < size {
        p.add(off).write_volatile(tag);
        off += 4096;
    }
}

/// Allocation half of a repetition: everything in `plan` is allocated (and, for ladders, grown
/// and shrunk by realloc). Live blocks are appended to `slots`.
pub unsafe fn rep_allocate<H: Heap>(h: &mut H, shape: Shape, plan: &[Item], slots: &mut Vec<Slot>, st: &mut RepStats) {
    let mut live = 0usize;
    for it in plan {
        let p = h.alloc(it.size, it.align);
        st.calls += 1;
        if p.is_null() || (p as usize) & (it.align - 1) != 0 {
            st.failed += 1;
            continue;
        }
        touch(p, it.size, 0xA5);
        live += it.size;
        st.churned += it.size;
        slots.push(Slot { p, size: it.size, align: it.align });
    }
    st.peak_live = st.peak_live.max(live);
    if shape == Shape::Ladder {
        // grow every block step by step (interleaved across blocks so that in-place growth is
        // mostly impossible), then shrink back
        for step in 0..13 {
            for s in slots.iter_mut() {
                let new = s.size * 2 + step;
                let p = h.realloc(s.p, s.size, s.align, new);
                st.calls += 1;
                if p.is_null() {
                    st.failed += 1;
                    continue;
                }
                live += new - s.size;
                st.churned += new;
                s.p = p;
                s.size = new;
                touch(p, new, 0x5A);
            }
            st.peak_live = st.peak_live.max(live);
        }
        for s in slots.iter_mut() {
            let new = 100 + s.size / 1000;
            let p = h.realloc(s.p, s.size, s.align, new);
            st.calls += 1;
            if p.is_null() {
                st.failed += 1;
                continue;
            }
            s.p = p;
            s.size = new;
        }
    }
}

/// Free half: every slot is released in the given order; `slots` is empty afterwards.
pub unsafe fn rep_free<H: Heap>(h: &mut H, order: Order, order_seed: u64, slots: &mut Vec<Slot>, st: &mut RepStats) {
    match order {
        Order::Lifo => {
            while let Some(s) = slots.pop() {
                h.free(s.p, s.size, s.align);
                st.calls += 1;
            }
        }
        Order::Fifo => {
            for s in slots.iter() {
                h.free(s.p, s.size, s.align);
                st.calls += 1;
            }
            slots.clear();
        }
        Order::Random => {
            let mut r = Prng::new(order_seed);
            let n = slots.len();
            for i in (1..n).rev() {
                let j = r.below(i as u64 + 1) as usize;
                slots.swap(i, j);
            }
            while let Some(s) = slots.pop() {
                h.free(s.p, s.size, s.align);
                st.calls += 1;
            }
        }
    }
}
