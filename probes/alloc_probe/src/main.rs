//! C04 probe: no-libc executable whose heap is tiny-std's shipped global allocator
//! (GlobalDlMalloc behind tiny-std's Mutex). Runs one allocate-then-free-everything workload
//! `reps` times and prints the process' VmSize (pages, from /proc/self/statm, read into a stack
//! buffer) at quiescence after every repetition.
//!
//!   alloc_probe <shape> <order> <threads> <reps> <seed> [own|handoff]
//!   alloc_probe steady <chunk> <mix> <policy> <primer> <delta> <threads> <reps> <seed> [align]
//!       bounded live set replaced object by object (see workload.rs); VmSize sampled with the live set full
//!       (thread 0 samples while the other threads keep running) and after every repetition
//! output:  B <baseline pages> / R <index> <pages> <failed calls> / S <peak live bytes> <bytes churned> <calls>
//! The workload is bracketed by sysmon BEGIN/END markers (scenario 4) so that a tracer can arm injections.
#![no_std]
#![no_main]
extern crate alloc;

use alloc::vec::Vec;
use core::alloc::Layout;
use rusl::platform::OpenFlags;
use rusl::unix_lit;

mod workload;
use workload::*;
#[path = "/verif/engines/sysmon/marker.rs"]
mod marker;

static SAMPLE_IX: core::sync::atomic::AtomicU64 = core::sync::atomic::AtomicU64::new(0);
/// pages of our own foreign mappings (taken out of VmSize)
static FOREIGN_PAGES: core::sync::atomic::AtomicU64 = core::sync::atomic::AtomicU64::new(0);
/// most anonymous read-write VMAs seen in /proc/self/maps (non-adjacent heap pieces + constant)
static MAX_RW_VMAS: core::sync::atomic::AtomicU64 = core::sync::atomic::AtomicU64::new(0);
fn held_pages() -> u64 {
    vmsize_pages().saturating_sub(FOREIGN_PAGES.load(core::sync::atomic::Ordering::Relaxed))
}
fn print_sample(failed: usize) {
    let ix = SAMPLE_IX.fetch_add(1, core::sync::atomic::Ordering::Relaxed);
    tiny_std::println!("R {} {} {}", ix, held_pages(), failed);
}

struct RawOs;
impl Os for RawOs {
    unsafe fn map(&mut self, len: usize) -> usize {
        use rusl::platform::{MapAdditionalFlags, MapRequiredFlag, MemoryProtection};
        rusl::unistd::mmap(
            None,
            core::num::NonZeroUsize::new_unchecked(len),
            MemoryProtection::PROT_NONE,
            MapRequiredFlag::MapPrivate,
            MapAdditionalFlags::MAP_ANONYMOUS | MapAdditionalFlags::MAP_NORESERVE,
            None,
            0,
        )
        .unwrap_or(0)
    }
    unsafe fn unmap(&mut self, addr: usize, len: usize) {
        let _ = rusl::unistd::munmap(addr, core::num::NonZeroUsize::new_unchecked(len));
    }
}
fn foreign_before(f: &mut Foreign, r: &mut Prng) {
    unsafe { f.before(&mut RawOs, r) };
    FOREIGN_PAGES.store((f.bytes / 4096) as u64, core::sync::atomic::Ordering::Relaxed);
}
fn foreign_after(f: &mut Foreign) {
    unsafe { f.after(&mut RawOs) };
    FOREIGN_PAGES.store((f.bytes / 4096) as u64, core::sync::atomic::Ordering::Relaxed);
}
fn foreign_arg(a: Option<&'static str>) -> Foreign {
    a.and_then(|s| s.strip_prefix("foreign=")).and_then(Foreign::by_name).unwrap_or_else(|| Foreign::new(0))
}

/// counts the anonymous private read-write mappings in /proc/self/maps (stack buffer only) and keeps the maximum
fn note_rw_vmas() {
    let Ok(fd) = rusl::unistd::open(unix_lit!("/proc/self/maps"), OpenFlags::O_RDONLY) else {
        return;
    };
    let mut buf = [0u8; 4096];
    let mut line = [0u8; 160];
    let mut ll = 0usize;
    let mut count = 0u64;
    loop {
        let n = rusl::unistd::read(fd, &mut buf).unwrap_or(0);
        if n == 0 {
            break;
        }
        for &c in &buf[..n] {
            if c == b'\n' {
                let mut l = &line[..ll];
                while let [rest @ .., b' '] = l {
                    l = rest;
                }
                if l.ends_with(b" 00:00 0") && l.windows(6).any(|w| w == b" rw-p ") {
                    count += 1;
                }
                ll = 0;
            } else if ll < line.len() {
                line[ll] = c;
                ll += 1;
            }
        }
    }
    let _ = rusl::unistd::close(fd);
    MAX_RW_VMAS.fetch_max(count, core::sync::atomic::Ordering::Relaxed);
}

/// C03 fork oracle on the global allocator: `alloc_probe forkcheck <seed> <blocks> <rounds>`
/// Blocks with a pattern; fork; the child scribbles over all of them, frees / allocates / reallocs through the global
/// allocator and exits; the parent waits and re-reads every block.  Output: `F <round> <blocks> <first changed block or -1> <offset>`
fn forkcheck_main(args: &mut dyn Iterator<Item = &'static str>) -> i32 {
    let seed = parse(args.next());
    let n = parse(args.next()).clamp(8, 4096) as usize;
    let rounds = parse(args.next()).clamp(1, 64);
    let mut r = Prng::new(seed);
    let mut g = Global;
    let pat = |tag: u64, i: usize, j: usize| (tag.wrapping_mul(31).wrapping_add((i * 131 + j * 7) as u64) >> 3) as u8;
    let mut blocks: Vec<Slot> = Vec::with_capacity(n);
    for i in 0..n {
        let size = match r.below(6) {
            0 => 1 + r.below(64) as usize,
            1 => 200 + r.below(400) as usize,
            2 => 4096 + r.below(8192) as usize,
            3 => (64 << 10) + r.below(64 << 10) as usize,
            4 => (1 << 20) + r.below(1 << 20) as usize,
            _ => 1 + r.below(2048) as usize,
        };
        let align = if i % 5 == 4 { 64 } else { 8 };
        let p = unsafe { g.alloc(size, align) };
        if p.is_null() {
            continue;
        }
        for j in 0..size {
            unsafe { p.add(j).write(pat(seed, i, j)) };
        }
        blocks.push(Slot { p, size, align });
    }
    for round in 0..rounds {
        let pid = unsafe { rusl::process::fork() };
        match pid {
            Ok(0) => {
                // child: its own heap now
                for (i, b) in blocks.iter().enumerate() {
                    for j in 0..b.size {
                        unsafe { b.p.add(j).write(!pat(seed, i, j)) };
                    }
                }
                for (i, b) in blocks.iter().enumerate() {
                    unsafe {
                        match i % 3 {
                            0 => g.free(b.p, b.size, b.align),
                            1 => {
                                let q = g.realloc(b.p, b.size, b.align, b.size * 2 + 1);
                                if !q.is_null() {
                                    q.write_bytes(0xEE, b.size * 2 + 1);
                                }
                            }
                            _ => {}
                        }
                    }
                }
                let mut v: Vec<Vec<u8>> = Vec::new();
                for k in 0..64usize {
                    v.push(alloc::vec![0xEEu8; 1 + (k * 997) % 70_000]);
                }
                core::hint::black_box(&v);
                rusl::process::exit(0);
            }
            Ok(child) => {
                let _ = rusl::process::wait_pid(child, rusl::platform::WaitPidFlags::empty());
            }
            Err(_) => {
                tiny_std::println!("E fork failed");
                return 2;
            }
        }
        let mut bad: i64 = -1;
        let mut off = 0usize;
        'scan: for (i, b) in blocks.iter().enumerate() {
            for j in 0..b.size {
                if unsafe { b.p.add(j).read() } != pat(seed, i, j) {
                    bad = i as i64;
                    off = j;
                    break 'scan;
                }
            }
        }
        tiny_std::println!("F {} {} {} {}", round, blocks.len(), bad, off);
        if bad >= 0 {
            return 0;
        }
        // the parent goes on using its heap between forks
        for (i, b) in blocks.iter_mut().enumerate().filter(|(i, _)| i % 7 == round as usize % 7) {
            let new = b.size + 17;
            let q = unsafe { g.realloc(b.p, b.size, b.align, new) };
            if !q.is_null() {
                b.p = q;
                b.size = new;
                for j in 0..new {
                    unsafe { q.add(j).write(pat(seed, i, j)) };
                }
            }
        }
    }
    for b in blocks.drain(..) {
        unsafe { g.free(b.p, b.size, b.align) };
    }
    0
}

fn steady_main(baseline: u64, args: &mut dyn Iterator<Item = &'static str>) -> i32 {
    let chunk = parse(args.next()) as usize;
    let mix = parse(args.next()) as u8;
    let policy = order_by_name(args.next().unwrap_or("fifo"));
    let primer_s = args.next().unwrap_or("none");
    let primer = STEADY_PRIMERS.iter().position(|p| *p == primer_s);
    let delta_s = args.next().unwrap_or("0");
    let delta: isize = delta_s.parse().unwrap_or(0);
    let threads = parse(args.next()).max(1) as usize;
    let reps = parse(args.next()).max(1);
    let seed = parse(args.next());
    let align = (parse(args.next()) as usize).max(8);
    let mut foreign = foreign_arg(args.next());
    let mut fr = Prng::new(seed ^ 0xF0E1);
    let (Some(policy), Some(primer)) = (policy, primer) else {
        tiny_std::println!("E bad arguments");
        return 2;
    };
    if chunk < 32 || chunk % 16 != 0 || !align.is_power_of_two() {
        tiny_std::println!("E bad chunk");
        return 2;
    }
    let p = Steady { chunk, mix, align, policy, primer: primer as u8, delta, live: steady_live(chunk), steps: steady_steps(chunk) };
    tiny_std::println!("B {}", baseline);
    marker::begin(4, 1, 0);
    let mut total = RepStats::default();
    for rep in 0..reps {
        let mut st = RepStats::default();
        if threads == 1 {
            let mut g = Global;
            let mut slots: Vec<Slot> = Vec::with_capacity(p.live);
            let mut extra: Vec<Slot> = Vec::with_capacity(STEADY_PRIMER_TRIES + 2);
            // a foreign mapping at every sample point inside the steady phase
            unsafe {
                steady_rep(&mut g, &p, seed ^ rep, &mut slots, &mut extra, &mut st, &mut |_| {
                    foreign_before(&mut foreign, &mut fr);
                    print_sample(0)
                })
            };
            note_rw_vmas();
            foreign_after(&mut foreign);
        } else {
            let mut handles = Vec::with_capacity(threads);
            for t in 0..threads {
                let h = tiny_std::thread::spawn(move || {
                    let mut g = Global;
                    let mut st = RepStats::default();
                    let mut slots: Vec<Slot> = Vec::with_capacity(p.live);
                    let mut extra: Vec<Slot> = Vec::with_capacity(STEADY_PRIMER_TRIES + 2);
                    let s = seed ^ rep ^ ((t as u64) << 32);
                    unsafe {
                        if t == 0 {
                            steady_rep(&mut g, &p, s, &mut slots, &mut extra, &mut st, &mut |_| print_sample(0));
                        } else {
                            steady_rep(&mut g, &p, s, &mut slots, &mut extra, &mut st, &mut |_| {});
                        }
                    }
                    st
                });
                match h {
                    Ok(h) => handles.push(h),
                    Err(_) => st.failed += 1,
                }
            }
            for h in handles {
                match h.join() {
                    Some(s) => {
                        st.peak_live += s.peak_live;
                        st.churned += s.churned;
                        st.calls += s.calls;
                        st.failed += s.failed;
                        st.primed += s.primed;
                    }
                    None => st.failed += 1,
                }
            }
        }
        total.peak_live = total.peak_live.max(st.peak_live);
        total.churned += st.churned;
        total.calls += st.calls;
        total.failed += st.failed;
        total.primed += st.primed;
        print_sample(st.failed);
    }
    marker::end(4, 1, 0, 0, 0);
    tiny_std::println!(
        "S {} {} {} {} {} {}",
        total.peak_live,
        total.churned,
        total.calls,
        total.primed,
        MAX_RW_VMAS.load(core::sync::atomic::Ordering::Relaxed),
        foreign.mapped
    );
    0
}

struct Global;
impl Heap for Global {
    #[inline]
    unsafe fn alloc(&mut self, size: usize, align: usize) -> *mut u8 {
        alloc::alloc::alloc(Layout::from_size_align_unchecked(size, align))
    }
    #[inline]
    unsafe fn realloc(&mut self, p: *mut u8, old: usize, align: usize, new: usize) -> *mut u8 {
        alloc::alloc::realloc(p, Layout::from_size_align_unchecked(old, align), new)
    }
    #[inline]
    unsafe fn free(&mut self, p: *mut u8, size: usize, align: usize) {
        alloc::alloc::dealloc(p, Layout::from_size_align_unchecked(size, align));
    }
}

/// total program size in pages; no allocation
fn vmsize_pages() -> u64 {
    let mut buf = [0u8; 128];
    let Ok(fd) = rusl::unistd::open(unix_lit!("/proc/self/statm"), OpenFlags::O_RDONLY) else {
        return 0;
    };
    let n = rusl::unistd::read(fd, &mut buf).unwrap_or(0);
    let _ = rusl::unistd::close(fd);
    let mut v = 0u64;
    for &c in &buf[..n] {
        if c.is_ascii_digit() {
            v = v * 10 + u64::from(c - b'0');
        } else {
            break;
        }
    }
    v
}

macro_rules! rec {
    ($name:ident, $n:literal) => {
        #[repr(align($n))]
        #[derive(Copy, Clone)]
        struct $name([u8; $n]);
    };
}
rec!(R32, 32);
rec!(R64, 64);
rec!(R128, 128);
rec!(R4096, 4096);

/// Vec growth (realloc with an over-aligned Layout), shrink_to_fit, growth again, drop
fn vec_cycle<T: Copy>(proto: T, n: usize, st: &mut RepStats) {
    let sz = core::mem::size_of::<T>();
    let mut v: Vec<T> = Vec::new();
    for _ in 0..n {
        v.push(proto);
    }
    st.peak_live = st.peak_live.max(v.capacity() * sz * 3 / 2);
    v.truncate(n - n / 3);
    v.shrink_to_fit();
    for _ in 0..n / 8 {
        v.push(proto);
    }
    v.shrink_to(v.len() + 3);
    st.calls += 40;
    st.churned += 3 * n * sz;
    core::hint::black_box(&v);
}
fn vec_rep(seed: u64, share: usize, st: &mut RepStats) {
    let k = (seed % 5) as usize;
    vec_cycle(R64([1; 64]), (2048 + 37 * k) / share, st);
    vec_cycle(R32([2; 32]), (3000 + 11 * k) / share, st);
    vec_cycle(R128([3; 128]), (1024 + 5 * k) / share, st);
    vec_cycle(R4096([4; 4096]), (96 + k) / share, st);
    // two vectors growing in turns, so that neither can grow in place
    let mut a: Vec<R64> = Vec::new();
    let mut b: Vec<R128> = Vec::new();
    for i in 0..(1500 / share) {
        a.push(R64([5; 64]));
        if i % 2 == 0 {
            b.push(R128([6; 128]));
        }
    }
    st.peak_live = st.peak_live.max(a.capacity() * 64 * 3 / 2 + b.capacity() * 128 * 3 / 2);
    a.shrink_to_fit();
    b.shrink_to_fit();
    core::hint::black_box((&a, &b));
}

/// with_capacity(large) -> a few bytes written -> shrunk (shrink_to_fit / into_boxed_slice / shrink_to) -> kept
fn vec_shrink_rep(seed: u64, share: usize, st: &mut RepStats) -> Vec<Vec<u8>> {
    let mut r = Prng::new(seed);
    let n = (600 / share).max(20);
    let mut keep: Vec<Vec<u8>> = Vec::with_capacity(n);
    let mut live = n * core::mem::size_of::<Vec<u8>>();
    for i in 0..n {
        let cap = (64 << 10) + r.below((1 << 20) - (64 << 10)) as usize;
        let small = 8 + cap % 389;
        let mut v: Vec<u8> = if i % 3 == 1 { Vec::with_capacity(4096) } else { Vec::with_capacity(cap) };
        v.resize(small, 0x5A);
        if i % 3 == 1 {
            v.reserve_exact(cap - small); // grow, then shrink and keep
        }
        st.peak_live = st.peak_live.max(live + v.capacity());
        let v = match i % 4 {
            0 => {
                v.shrink_to_fit();
                v
            }
            1 => v.into_boxed_slice().into_vec(),
            2 => {
                v.shrink_to(small + 7);
                v
            }
            _ => {
                v.shrink_to(cap / 2);
                v.shrink_to_fit();
                v
            }
        };
        live += v.capacity();
        st.calls += 3;
        st.churned += cap;
        keep.push(v);
    }
    st.peak_live = st.peak_live.max(live);
    keep
}

struct Slots(Vec<Slot>);
unsafe impl Send for Slots {}

fn parse(s: Option<&'static str>) -> u64 {
    s.and_then(|s| s.parse().ok()).unwrap_or(0)
}

#[no_mangle]
pub fn main() -> i32 {
    let baseline = vmsize_pages();
    let mut args = tiny_std::env::args().skip(1).map(|a| a.unwrap_or(""));
    let shape_s = args.next().unwrap_or("small");
    if shape_s == "steady" {
        return steady_main(baseline, &mut args);
    }
    if shape_s == "forkcheck" {
        return forkcheck_main(&mut args);
    }
    let order_s = args.next().unwrap_or("lifo");
    let threads = parse(args.next()).max(1) as usize;
    let reps = parse(args.next()).max(1);
    let seed = parse(args.next());
    let mode = args.next();
    let handoff = mode == Some("handoff");
    let mut foreign = foreign_arg(if mode.map_or(false, |m| m.starts_with("foreign=")) { mode } else { args.next() });
    let mut fr = Prng::new(seed ^ 0xF0E1);
    let (Some(shape), Some(order)) = (shape_by_name(shape_s), order_by_name(order_s)) else {
        tiny_std::println!("E bad arguments");
        return 2;
    };
    tiny_std::println!("B {}", baseline);
    marker::begin(4, 0, 0);
    let mut total = RepStats::default();
    let mut g = Global;
    for rep in 0..reps {
        let mut st = RepStats::default();
        let order_seed = seed ^ rep.wrapping_mul(0x9E37_79B9);
        // something else maps memory where the heap would have grown contiguously
        foreign_before(&mut foreign, &mut fr);
        if shape == Shape::VecShrink {
            // the kept vectors are handed to main, so that the sample is taken with all of them alive and all threads joined
            let mut kept: Vec<Vec<Vec<u8>>> = Vec::with_capacity(threads);
            if threads == 1 {
                kept.push(vec_shrink_rep(seed, 1, &mut st));
            } else {
                let mut handles = Vec::with_capacity(threads);
                for t in 0..threads {
                    match tiny_std::thread::spawn(move || {
                        let mut st = RepStats::default();
                        let k = vec_shrink_rep(seed.wrapping_add(t as u64), threads, &mut st);
                        (st, k)
                    }) {
                        Ok(h) => handles.push(h),
                        Err(_) => st.failed += 1,
                    }
                }
                for h in handles {
                    match h.join() {
                        Some((s, k)) => {
                            st.peak_live += s.peak_live;
                            st.churned += s.churned;
                            st.calls += s.calls;
                            kept.push(k);
                        }
                        None => st.failed += 1,
                    }
                }
            }
            print_sample(0);
            drop(kept);
        } else if shape == Shape::VecAligned {
            if threads == 1 {
                vec_rep(seed, 1, &mut st);
            } else {
                let mut handles = Vec::with_capacity(threads);
                for t in 0..threads {
                    match tiny_std::thread::spawn(move || {
                        let mut st = RepStats::default();
                        vec_rep(seed.wrapping_add(t as u64), threads, &mut st);
                        st
                    }) {
                        Ok(h) => handles.push(h),
                        Err(_) => st.failed += 1,
                    }
                }
                for h in handles {
                    match h.join() {
                        Some(s) => {
                            st.peak_live += s.peak_live;
                            st.churned += s.churned;
                            st.calls += s.calls;
                        }
                        None => st.failed += 1,
                    }
                }
            }
        } else if threads == 1 {
            let plan = plan(shape, seed, 1);
            let mut slots: Vec<Slot> = Vec::new();
            unsafe {
                rep_allocate(&mut g, shape, &plan, &mut slots, &mut st);
                if samples_mid(shape) {
                    print_sample(0);
                }
                rep_free(&mut g, order, order_seed, &mut slots, &mut st);
            }
        } else {
            let mut handles = Vec::with_capacity(threads);
            for t in 0..threads {
                let h = tiny_std::thread::spawn(move || {
                    let mut g = Global;
                    let mut st = RepStats::default();
                    let plan = plan(shape, seed.wrapping_add(t as u64 * 7919), threads);
                    let mut slots: Vec<Slot> = Vec::new();
                    unsafe {
                        rep_allocate(&mut g, shape, &plan, &mut slots, &mut st);
                        if !handoff {
                            rep_free(&mut g, order, order_seed ^ t as u64, &mut slots, &mut st);
                        }
                    }
                    (st, Slots(slots))
                });
                match h {
                    Ok(h) => handles.push(h),
                    Err(_) => st.failed += 1,
                }
            }
            let mut all: Vec<Slot> = Vec::new();
            let mut peak = 0;
            for h in handles {
                match h.join() {
                    Some((s, Slots(v))) => {
                        peak += s.peak_live;
                        st.churned += s.churned;
                        st.calls += s.calls;
                        st.failed += s.failed;
                        all.extend_from_slice(&v);
                    }
                    None => st.failed += 1,
                }
            }
            st.peak_live = peak;
            if samples_mid(shape) {
                print_sample(0); // hand-off mode: every thread joined, every kept block alive
            }
            unsafe {
                rep_free(&mut g, order, order_seed, &mut all, &mut st);
            }
        }
        // quiescent: every block of this repetition is freed, every thread joined
        if foreign.policy != 0 {
            if rep < 8 || rep % 16 == 0 {
                note_rw_vmas();
            }
            unsafe { rep_flush(&mut g, &mut st) };
        }
        total.peak_live = total.peak_live.max(st.peak_live);
        total.churned += st.churned;
        total.calls += st.calls;
        total.failed += st.failed;
        foreign_after(&mut foreign);
        tiny_std::println!("R {} {} {}", rep, held_pages(), st.failed);
    }
    marker::end(4, 0, 0, 0, 0);
    tiny_std::println!(
        "S {} {} {} 0 {} {}",
        total.peak_live,
        total.churned,
        total.calls,
        MAX_RW_VMAS.load(core::sync::atomic::Ordering::Relaxed),
        foreign.mapped
    );
    0
}
