//! C08 layer 2: no-libc executable. The mem symbols it links are the ones tiny-start exports
//! (`tiny-std` feature `executable` -> `symbols` -> `tiny-start/mem-symbols`); the exhaustive
//! small-n domain of engines/h_mem/src/sweep.rs is replayed on the *linked* symbols, reached
//! (a) by direct `extern "C"` calls and (b) the way compiled Rust code reaches them:
//! `core::ptr::copy_nonoverlapping` / `copy` / `write_bytes` and slice comparisons.
//! Reports '@@' lines on stdout (raw write system calls) and `@@P <via> <fn> <n>` progress
//! lines, so that a crash can be attributed to the call window it happened in.
#![no_std]
#![no_main]

#[path = "../../../engines/h_mem/src/sweep.rs"]
mod sweep;
#[path = "../../../engines/h_mem/src/place.rs"]
mod place;
#[path = "../../../engines/h_mem/src/huge.rs"]
mod huge;
#[cfg(feature = "watch")]
#[path = "../../../engines/h_mem/src/watch.rs"]
mod watch;
use sweep::*;

extern "C" {
    fn memcpy(d: *mut u8, s: *const u8, n: usize) -> *mut u8;
    fn memmove(d: *mut u8, s: *const u8, n: usize) -> *mut u8;
    fn memset(d: *mut u8, c: i32, n: usize) -> *mut u8;
    fn memcmp(a: *const u8, b: *const u8, n: usize) -> i32;
    fn bcmp(a: *const u8, b: *const u8, n: usize) -> i32;
}

#[inline(never)]
unsafe extern "C" fn p_memcpy(d: *mut u8, s: *const u8, n: usize) -> *mut u8 {
    core::ptr::copy_nonoverlapping(s, d, n);
    d
}
#[inline(never)]
unsafe extern "C" fn p_memmove(d: *mut u8, s: *const u8, n: usize) -> *mut u8 {
    core::ptr::copy(s, d, n);
    d
}
#[inline(never)]
unsafe extern "C" fn p_memset(d: *mut u8, c: i32, n: usize) -> *mut u8 {
    core::ptr::write_bytes(d, c as u8, n);
    d
}
#[inline(never)]
unsafe extern "C" fn p_memcmp(a: *const u8, b: *const u8, n: usize) -> i32 {
    let (x, y) = (core::slice::from_raw_parts(a, n), core::slice::from_raw_parts(b, n));
    match x.cmp(y) {
        core::cmp::Ordering::Less => -1,
        core::cmp::Ordering::Equal => 0,
        core::cmp::Ordering::Greater => 1,
    }
}
#[inline(never)]
unsafe extern "C" fn p_bcmp(a: *const u8, b: *const u8, n: usize) -> i32 {
    let (x, y) = (core::slice::from_raw_parts(a, n), core::slice::from_raw_parts(b, n));
    i32::from(x != y)
}

fn out(b: &[u8]) {
    let mut off = 0;
    while off < b.len() {
        match rusl::unistd::write(rusl::platform::STDOUT, &b[off..]) {
            Ok(n) if n > 0 => off += n,
            _ => break,
        }
    }
}

static mut VIA: &str = "";
fn progress(f: u8, n: usize) {
    let mut w = W::new();
    w.s("@@P ").s(unsafe { VIA }).s(" ").s(FN_NAMES[f as usize]).s(" ").u(n as u64).s("\n");
    out(w.bytes());
}

static mut VIA_TAG: &str = "";
fn progress_tag(f: u8, n: usize) {
    let mut w = W::new();
    w.s("@@P ").s(unsafe { VIA_TAG }).s(" ").s(FN_NAMES[f as usize]).s(" ").u(n as u64).s("\n");
    out(w.bytes());
}

fn summary(ctx: &Ctx, tag: &str) {
    // closes the last call window: from here on no call of the functions under test
    let mut w = W::new();
    w.s("@@P ").s(tag).s(" end 0\n");
    out(w.bytes());
    let mut total = 0;
    for i in 0..5 {
        total += ctx.cases[i];
        let mut w = W::new();
        w.s("@@COUNT cases_").s(FN_NAMES[i]).s(" ").u(ctx.cases[i]).s("\n");
        out(w.bytes());
        for k in 0..5 {
            if ctx.per_kind[i][k] > 0 {
                let mut w = W::new();
                w.s("@@COUNT violating_cases[C08/").s(FN_NAMES[i]).s("/").s(KIND_NAMES[k]).s("] ");
                w.u(u64::from(ctx.per_kind[i][k])).s("\n");
                out(w.bytes());
            }
        }
    }
    let mut w = W::new();
    w.s("@@EVAL ").u(total).s("\n@@COUNT cases_L2_").s(tag).s(" ").u(total).s("\n");
    out(w.bytes());
    // coarse cells: function / n class / direction
    let mut seen = [false; 5 * N_NCLASS * 2];
    for id in 0..NCELL {
        if ctx.cells[id] != 0 {
            let dir = id % 2;
            let nc = (id / 2 / N_PATH) % N_NCLASS;
            let f = id / 2 / N_PATH / N_NCLASS;
            let k = (f * N_NCLASS + nc) * 2 + dir;
            if !seen[k] {
                seen[k] = true;
                let mut w = W::new();
                w.s("@@DISTINCT L2/").s(tag).s("/").s(FN_NAMES[f]).s("/").s(NCLASS_NAMES[nc]);
                w.s(["/fwd-or-le", "/bwd-or-gt"][dir]).s("\n");
                out(w.bytes());
            }
        }
    }
}

// ---- placement cross product (place.rs): two regions with inaccessible pages on both sides
unsafe fn region() -> Option<*mut u8> {
    use core::num::NonZeroUsize;
    use rusl::platform::{MapAdditionalFlags, MapRequiredFlag, MemoryProtection};
    // reserve DATA + 2 pages inaccessible, then make the middle read-write
    let whole = rusl::unistd::mmap(
        None,
        NonZeroUsize::new(place::DATA + 2 * place::PAGE)?,
        MemoryProtection::PROT_NONE,
        MapRequiredFlag::MapPrivate,
        MapAdditionalFlags::MAP_ANONYMOUS,
        None,
        0,
    )
    .ok()?;
    let mid = rusl::unistd::mmap(
        Some(whole + place::PAGE),
        NonZeroUsize::new(place::DATA)?,
        MemoryProtection::PROT_READ | MemoryProtection::PROT_WRITE,
        MapRequiredFlag::MapPrivate,
        MapAdditionalFlags::MAP_ANONYMOUS | MapAdditionalFlags::MAP_FIXED,
        None,
        0,
    )
    .ok()?;
    if mid != whole + place::PAGE {
        return None;
    }
    Some(mid as *mut u8)
}

/// SIGSEGV inside a call of a function under test: name function, operand and side, then leave
unsafe extern "C" fn on_segv(sig: i32, info: *mut rusl::process::SigInfo, uctx: *const core::ffi::c_void) {
    // x86_64: si_addr at offset 16 of siginfo, gregs[REG_ERR] at 40 + 19*8 of ucontext
    let addr = info.cast::<u8>().add(16).cast::<usize>().read_unaligned();
    let err = uctx.cast::<u8>().add(40 + 19 * 8).cast::<u64>().read_unaligned();
    let mut w = W::new();
    let attributable = place::fault_line(addr, err & 2 != 0, sig, VIA, &mut w);
    out(w.bytes());
    if attributable {
        out(b"@@DONE\n");
        rusl::process::exit(1);
    }
    rusl::process::exit(70)
}

fn placement_summary(ctx: &place::PCtx, tag: &str) {
    let mut w = W::new();
    w.s("@@P ").s(tag).s(" end 0\n");
    out(w.bytes());
    let mut total = 0;
    for i in 0..5 {
        total += ctx.cases[i];
        let mut w = W::new();
        w.s("@@COUNT cases_").s(FN_NAMES[i]).s(" ").u(ctx.cases[i]).s("\n");
        out(w.bytes());
        for k in 0..5 {
            if ctx.per_kind[i][k] > 0 {
                let mut w = W::new();
                w.s("@@COUNT violating_cases[C08/").s(FN_NAMES[i]).s("/").s(KIND_NAMES[k]).s("] ");
                w.u(u64::from(ctx.per_kind[i][k])).s("\n");
                out(w.bytes());
            }
        }
    }
    let mut w = W::new();
    w.s("@@EVAL ").u(total).s("\n@@COUNT cases_L2_placement-").s(tag).s(" ").u(total).s("\n");
    w.s("@@COUNT placement_pairs_covered_max1024_L2_").s(tag).s(" ").u(ctx.pair_count() as u64).s("\n");
    out(w.bytes());
    // coarse cells for the probe: function x operand-1 class x operand-2 class
    let mut seen = [false; 45];
    for id in 0..place::N_PCELL {
        if ctx.cells[id] != 0 {
            let k = id / 30;
            if !seen[k] {
                seen[k] = true;
                let mut w = W::new();
                w.s("@@DISTINCT L2/placement-").s(tag).s("/");
                let f = k / 9;
                let names = if f >= 3 { ["s1", "s2"] } else { ["dst", "src"] };
                w.s(FN_NAMES[f]).s("/").s(names[0]).s("-").s(place::PL_CLASS_NAMES[(k / 3) % 3]);
                if f != 2 {
                    w.s("/").s(names[1]).s("-").s(place::PL_CLASS_NAMES[k % 3]);
                }
                w.s("\n");
                out(w.bytes());
            }
        }
    }
}

fn linked_ops() -> Ops {
    Ops {
        memcpy: core::hint::black_box(memcpy as Cpy),
        memmove: core::hint::black_box(memmove as Cpy),
        memset: core::hint::black_box(memset as Set),
        memcmp: core::hint::black_box(memcmp as Cmp),
        bcmp: core::hint::black_box(bcmp as Cmp),
    }
}

// ---- very large sizes on the linked symbols (huge.rs), a few calls per function and power of two
unsafe fn map_rw(len: usize) -> Option<*mut u8> {
    use rusl::platform::{MapAdditionalFlags, MapRequiredFlag, MemoryProtection};
    rusl::unistd::mmap(
        None,
        core::num::NonZeroUsize::new(len)?,
        MemoryProtection::PROT_READ | MemoryProtection::PROT_WRITE,
        MapRequiredFlag::MapPrivate,
        MapAdditionalFlags::MAP_ANONYMOUS,
        None,
        0,
    )
    .ok()
    .map(|a| a as *mut u8)
}

#[cfg(not(feature = "watch"))]
fn huge_sizes() -> u64 {
    let cap = ((1usize << huge::P_MAX) + 2 * huge::MARGIN + 8192) & !4095;
    let (Some(d), Some(s), Some(p)) = (unsafe { map_rw(cap) }, unsafe { map_rw(cap) }, unsafe { map_rw(cap) }) else {
        out(b"@@INCONCLUSIVE mem_probe: could not map the arenas for the large sizes\n");
        return 0;
    };
    let ar = huge::Arenas { d, s, p, cap };
    unsafe {
        VIA = "extern C call of the linked symbol";
        VIA_TAG = "huge-extern-C";
    }
    let mut ctx = huge::HCtx::new(linked_ops(), out, "extern C call of the linked symbol", ar, 0x4855_4745);
    unsafe {
        ar.init();
        for p in huge::P_MIN..=huge::P_MAX {
            ctx.sweep_power(p, 3, 255, progress_tag);
        }
    }
    let mut w = W::new();
    w.s("@@P huge-extern-C end 0\n");
    let mut total = 0;
    for i in 0..5 {
        total += ctx.cases[i];
        w.s("@@COUNT cases_").s(FN_NAMES[i]).s(" ").u(ctx.cases[i]).s("\n");
    }
    w.s("@@EVAL ").u(total).s("\n@@COUNT cases_L2_huge-extern-C ").u(total).s("\n");
    w.s("@@DISTINCT L2/huge-sizes-2^20..2^26\n");
    out(w.bytes());
    ctx.viols
}

#[cfg(feature = "watch")]
mod watcher_variant {
    use super::*;
    use core::sync::atomic::{AtomicBool, Ordering};
    static STARTED: AtomicBool = AtomicBool::new(false);
    static STOP: AtomicBool = AtomicBool::new(false);
    #[repr(align(64))]
    struct Buf([u8; 1024]);
    static mut DBUF: Buf = Buf([0; 1024]);
    static mut SBUF: Buf = Buf([0x5A; 1024]);

    pub fn run(iters: u64) -> u64 {
        let o = linked_ops();
        let via = "extern C call of the linked symbol, threaded no-libc probe";
        let mut bad = 0;
        let mut evals = 0u64;
        for f in [F_MEMSET, F_MEMCPY, F_MEMMOVE] {
            let mut w = W::new();
            w.s("@@P watch ").s(FN_NAMES[f as usize]).s(" 0\n");
            out(w.bytes());
            for (ci, &(phase, n)) in watch::CONFIGS.iter().enumerate() {
                let dst = unsafe { core::ptr::addr_of_mut!(DBUF).cast::<u8>().add(256 + phase) };
                let src = unsafe { core::ptr::addr_of!(SBUF).cast::<u8>().add(128 + (ci * 3) % 8) };
                STARTED.store(false, Ordering::Relaxed);
                STOP.store(false, Ordering::Relaxed);
                let d_addr = dst as usize;
                let Ok(th) = tiny_std::thread::spawn(move || unsafe { watch::watcher(d_addr, n, &STARTED, &STOP) }) else {
                    out(b"@@INCONCLUSIVE mem_probe watch: thread spawn failed\n");
                    return bad;
                };
                while !STARTED.load(Ordering::Acquire) {
                    core::hint::spin_loop();
                }
                unsafe { watch::hammer(&o, f, dst, src, n, iters) };
                STOP.store(true, Ordering::Relaxed);
                let Some(mut r) = th.join() else {
                    out(b"@@INCONCLUSIVE mem_probe watch: watcher thread did not return a result\n");
                    return bad;
                };
                unsafe { watch::final_check(dst as usize, n, &mut r) };
                evals += 1;
                if r.lost > 0 {
                    watch::report(out, via, f, phase, n, &r, iters);
                    bad += 1;
                    break;
                }
                let mut w = W::new();
                if r.writes < 2000 {
                    w.s("@@INCONCLUSIVE mem_probe watch ").s(FN_NAMES[f as usize]).s(": the watcher thread got only ").u(r.writes).s(" writes in\n");
                } else {
                    w.s("@@DISTINCT L2/watch/").s(FN_NAMES[f as usize]).s("/dst%8=").u(phase as u64).s("/n=").u(n as u64).s("\n");
                }
                out(w.bytes());
            }
        }
        let mut w = W::new();
        w.s("@@P watch end 0\n@@EVAL ").u(evals).s("\n@@COUNT cases_L2_watch ").u(evals).s("\n");
        out(w.bytes());
        bad
    }
}

#[cfg(feature = "watch")]
#[no_mangle]
pub fn main() -> i32 {
    tiny_std::println!("mem_probe (threaded watcher variant) start");
    let bad = watcher_variant::run(600_000);
    out(b"@@DONE\n");
    i32::from(bad != 0)
}

#[cfg(not(feature = "watch"))]
#[no_mangle]
pub fn main() -> i32 {
    // the ordinary print path of a no-libc program (formats through core::fmt, copies included)
    tiny_std::println!("mem_probe start word={} threshold={} nmax={}", WORD, THRESHOLD, NMAX);
    let b = unsafe { Bufs::small() };
    let mut bad = 0u64;
    {
        unsafe { VIA = "extern-C" };
        let ops = Ops {
            memcpy: core::hint::black_box(memcpy as Cpy),
            memmove: core::hint::black_box(memmove as Cpy),
            memset: core::hint::black_box(memset as Set),
            memcmp: core::hint::black_box(memcmp as Cmp),
            bcmp: core::hint::black_box(bcmp as Cmp),
        };
        let mut ctx = Ctx::new(ops, out, "extern C call of the linked symbol");
        ctx.sample_every = 2_003;
        unsafe { ctx.sweep_small(&b, 0, 1, progress) };
        summary(&ctx, "extern-C");
        bad += ctx.viols;
    }
    {
        unsafe { VIA = "core-ptr" };
        let ops = Ops {
            memcpy: core::hint::black_box(p_memcpy as Cpy),
            memmove: core::hint::black_box(p_memmove as Cpy),
            memset: core::hint::black_box(p_memset as Set),
            memcmp: core::hint::black_box(p_memcmp as Cmp),
            bcmp: core::hint::black_box(p_bcmp as Cmp),
        };
        let mut ctx = Ctx::new(ops, out, "core::ptr::copy*/write_bytes/slice compare");
        ctx.check_ret = false;
        ctx.sample_every = 2_003;
        unsafe { ctx.sweep_small(&b, 0, 1, progress) };
        summary(&ctx, "core-ptr");
        bad += ctx.viols;
    }
    // ---- placement cross product on the linked symbols, both routes
    let regions = unsafe { (region(), region()) };
    let handler = unsafe {
        rusl::process::add_signal_action(rusl::process::CatchSignal::Segv, rusl::process::SaSignalaction::SigAction(on_segv))
    };
    if let ((Some(ra), Some(rb)), Ok(())) = (regions, handler) {
        for route in 0..2 {
            let (ops, via, tag, check_ret) = if route == 0 {
                (
                    Ops {
                        memcpy: core::hint::black_box(memcpy as Cpy),
                        memmove: core::hint::black_box(memmove as Cpy),
                        memset: core::hint::black_box(memset as Set),
                        memcmp: core::hint::black_box(memcmp as Cmp),
                        bcmp: core::hint::black_box(bcmp as Cmp),
                    },
                    "extern C call of the linked symbol",
                    "px-extern-C",
                    true,
                )
            } else {
                (
                    Ops {
                        memcpy: core::hint::black_box(p_memcpy as Cpy),
                        memmove: core::hint::black_box(p_memmove as Cpy),
                        memset: core::hint::black_box(p_memset as Set),
                        memcmp: core::hint::black_box(p_memcmp as Cmp),
                        bcmp: core::hint::black_box(p_bcmp as Cmp),
                    },
                    "core::ptr::copy*/write_bytes/slice compare",
                    "px-core-ptr",
                    false,
                )
            };
            unsafe { VIA = via };
            let mut ctx = place::PCtx::new(ops, out, via, ra, rb, 0x5EED_0000 + route);
            ctx.check_ret = check_ret;
            unsafe {
                VIA_TAG = tag;
                ctx.init();
                ctx.sweep_exhaustive(0, 1, progress_tag);
                ctx.sweep_sampled(120, 1, progress_tag);
            }
            placement_summary(&ctx, tag);
            bad += ctx.viols;
        }
    } else {
        out(b"@@INCONCLUSIVE mem_probe: could not map the guarded regions or install the SIGSEGV handler\n");
    }
    bad += huge_sizes();
    out(b"@@DONE\n");
    i32::from(bad != 0)
}
