//! clock_probe — no-libc probe for C19: the clock readings a tiny-std *executable* gets (vDSO path when the
//! `vdso` feature is on) never decrease and lie between two raw CLOCK_MONOTONIC system calls; sleep(d) returns
//! no earlier than d on the raw clock. argv: clock_probe <iterations>
#![no_std]
#![no_main]
use core::time::Duration;
use tiny_std::println;
use tiny_std::time::{Instant, MonotonicInstant};

fn raw_mono() -> (i64, i64) {
    let mut ts = [0i64; 2];
    unsafe {
        let _r: usize;
        core::arch::asm!("syscall", inlateout("rax") 228usize => _r, in("rdi") 1usize, in("rsi") ts.as_mut_ptr(),
            lateout("rcx") _, lateout("r11") _, options(nostack));
    }
    (ts[0], ts[1])
}
fn parse(b: &[u8]) -> u64 {
    let mut v = 0u64;
    for &c in b {
        if c.is_ascii_digit() {
            v = v * 10 + u64::from(c - b'0');
        }
    }
    v
}

#[no_mangle]
pub fn main() -> i32 {
    let mut iters = 100_000u64;
    for (i, a) in tiny_std::env::args_os().enumerate() {
        if i == 1 {
            let s = a.as_slice();
            iters = parse(&s[..s.len().saturating_sub(1)]);
        }
    }
    let mut prev_i = Instant::now();
    let mut prev_m = MonotonicInstant::now();
    let mut viol = 0u64;
    let mut equal = 0u64;
    for k in 0..iters {
        let b = raw_mono();
        let i = Instant::now();
        let m = MonotonicInstant::now();
        let a = raw_mono();
        let it: &rusl::platform::TimeSpec = i.as_ref();
        let iv = (it.seconds(), it.nanoseconds());
        let mi = m.as_instant();
        let mt: &rusl::platform::TimeSpec = mi.as_ref();
        let mv = (mt.seconds(), mt.nanoseconds());
        if i < prev_i || m < prev_m {
            viol += 1;
            if viol <= 3 {
                println!("@@VIOL C19/clock/executable/decreasing {{\"iteration\":{k},\"now\":[{},{}]}}", iv.0, iv.1);
            }
        }
        if iv < b || iv > a || mv < b || mv > a {
            viol += 1;
            if viol <= 3 {
                println!(
                    "@@VIOL C19/clock/executable/monotonic-outside-syscall-bracket {{\"before\":[{},{}],\"instant\":[{},{}],\"monotonic_instant\":[{},{}],\"after\":[{},{}]}}",
                    b.0, b.1, iv.0, iv.1, mv.0, mv.1, a.0, a.1
                );
            }
        }
        if i == prev_i {
            equal += 1;
        }
        prev_i = i;
        prev_m = m;
    }
    // sleep lower bound on the raw clock
    let mut sleeps = 0u64;
    for us in [0u64, 1, 70, 900, 4000] {
        let d = Duration::from_micros(us);
        let b = raw_mono();
        let r = tiny_std::thread::sleep(d);
        let a = raw_mono();
        let el = (a.0 - b.0) as i128 * 1_000_000_000 + (a.1 - b.1) as i128;
        sleeps += 1;
        if r.is_ok() && el < d.as_nanos() as i128 {
            println!("@@VIOL C19/sleep/executable/early {{\"requested_ns\":{},\"elapsed_ns\":{}}}", d.as_nanos(), el as i64);
        }
    }
    let b = raw_mono();
    println!("@@EVAL {}", iters + sleeps);
    println!("@@COUNT executable_clock_brackets {iters}");
    println!("@@COUNT executable_clock_equal_successive {equal}");
    println!("@@COUNT executable_sleeps {sleeps}");
    println!("@@SAMPLE {{\"probe\":\"clock_probe\",\"iterations\":{iters},\"last_raw_monotonic\":[{},{}],\"violations\":{viol}}}", b.0, b.1);
    0
}
