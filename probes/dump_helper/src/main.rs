//! dump_helper — exec target of the C13 probes (plain std program, libc linked).
//!
//! Everything it needs to know comes from the name of its own executable (a per-case hard link
//! `<dir>/h.<case>.<exitcode>`), read from /proc/self/exe — never from argv/env/cwd/stdio, which are
//! the things under test. It writes `<exe>.dump` (line based, byte strings hex encoded):
//!   exe <hex>                                  argc <n> / arg <hex>...        envc <n> / env <hex>...
//!   cwd <hex>                                  ids ruid euid suid rgid egid sgid
//!   proc pid ppid pgid sid                     fd <n> <dev> <ino> <mode> <rdev> <fl> <fdfl>   (every open fd < 1024,
//!                                              taken before the helper opens anything itself)
//!   in <ret> <errno> <hex data>                what was readable from fd 0 (until EOF, at most 64 KiB)
//!   out <ret> <errno> / err <ret> <errno>      result of writing "O<case>:<data>\n" to fd 1 / "E<case>:<data>\n" to fd 2
//!   sigmask <hex>                              blocked signals
//!   done
//! and exits with <exitcode>.
use std::ffi::OsString;
use std::fmt::Write as _;
use std::os::unix::ffi::{OsStrExt, OsStringExt};

#[repr(C)]
#[derive(Default)]
struct Stat {
    st_dev: u64,
    st_ino: u64,
    st_nlink: u64,
    st_mode: u32,
    st_uid: u32,
    st_gid: u32,
    pad0: i32,
    st_rdev: u64,
    st_size: i64,
    st_blksize: i64,
    st_blocks: i64,
    rest: [i64; 9],
}

extern "C" {
    static environ: *const *const u8;
    fn fstat(fd: i32, st: *mut Stat) -> i32;
    fn fcntl(fd: i32, cmd: i32, ...) -> i32;
    fn getresuid(r: *mut u32, e: *mut u32, s: *mut u32) -> i32;
    fn getresgid(r: *mut u32, e: *mut u32, s: *mut u32) -> i32;
    fn getpid() -> i32;
    fn getppid() -> i32;
    fn getpgid(pid: i32) -> i32;
    fn getsid(pid: i32) -> i32;
    fn read(fd: i32, buf: *mut u8, n: usize) -> isize;
    fn write(fd: i32, buf: *const u8, n: usize) -> isize;
    fn strlen(p: *const u8) -> usize;
    fn sigprocmask(how: i32, set: *const u64, old: *mut u64) -> i32;
    fn signal(sig: i32, handler: usize) -> usize;
    fn __errno_location() -> *mut i32;
    fn _exit(code: i32) -> !;
}

fn hex(b: &[u8]) -> String {
    let mut s = String::with_capacity(b.len() * 2 + 1);
    if b.is_empty() {
        s.push('-');
    }
    for x in b {
        let _ = write!(s, "{x:02x}");
    }
    s
}

fn errno() -> i32 {
    unsafe { *__errno_location() }
}

fn main() {
    let mut out = String::new();
    unsafe {
        signal(13, 1); // SIGPIPE ignored: a closed stdout must show up as EPIPE, not kill the helper
    }
    // descriptor table first, before anything else is opened here: /proc/self/fd (the directory
    // descriptor used for the listing itself is recognised by its link target and left out)
    let mut fds = String::new();
    let mut nums: Vec<i32> = Vec::new();
    let me = unsafe { getpid() };
    let own = format!("/proc/{me}/fd");
    match std::fs::read_dir("/proc/self/fd") {
        Ok(rd) => {
            for e in rd.flatten() {
                let Some(n) = e.file_name().to_str().and_then(|s| s.parse::<i32>().ok()) else { continue };
                if let Ok(t) = std::fs::read_link(e.path()) {
                    if t.as_os_str().as_bytes() == own.as_bytes() {
                        continue;
                    }
                }
                nums.push(n);
            }
        }
        Err(_) => {
            for fd in 0..1024 {
                if unsafe { fcntl(fd, 1) } >= 0 {
                    nums.push(fd);
                }
            }
            fds.push_str("fdscan fallback\n");
        }
    }
    nums.sort_unstable();
    for fd in nums {
        let fdfl = unsafe { fcntl(fd, 1) }; // F_GETFD
        if fdfl < 0 {
            continue;
        }
        let fl = unsafe { fcntl(fd, 3) }; // F_GETFL
        let mut st = Stat::default();
        let r = unsafe { fstat(fd, &mut st) };
        if r != 0 {
            let _ = writeln!(fds, "fd {fd} ? ? ? ? {fl} {fdfl}");
        } else {
            let _ = writeln!(
                fds,
                "fd {fd} {} {} {} {} {fl} {fdfl}",
                st.st_dev, st.st_ino, st.st_mode, st.st_rdev
            );
        }
    }
    let exe = std::fs::read_link("/proc/self/exe").map(|p| p.into_os_string()).unwrap_or_else(|_| OsString::from("?"));
    let exe_b = exe.as_bytes().to_vec();
    let _ = writeln!(out, "exe {}", hex(&exe_b));
    let args: Vec<OsString> = std::env::args_os().collect();
    let _ = writeln!(out, "argc {}", args.len());
    for a in &args {
        let _ = writeln!(out, "arg {}", hex(a.as_bytes()));
    }
    // the raw environment block as handed over by execve
    let mut envs: Vec<Vec<u8>> = Vec::new();
    unsafe {
        let mut p = environ;
        while !p.is_null() && !(*p).is_null() {
            let s = *p;
            envs.push(std::slice::from_raw_parts(s, strlen(s)).to_vec());
            p = p.add(1);
        }
    }
    let _ = writeln!(out, "envc {}", envs.len());
    for e in &envs {
        let _ = writeln!(out, "env {}", hex(e));
    }
    match std::env::current_dir() {
        Ok(d) => {
            let _ = writeln!(out, "cwd {}", hex(d.as_os_str().as_bytes()));
        }
        Err(e) => {
            let _ = writeln!(out, "cwd ! {e}");
        }
    }
    let (mut a, mut b, mut c, mut d, mut e, mut f) = (0u32, 0u32, 0u32, 0u32, 0u32, 0u32);
    unsafe {
        getresuid(&mut a, &mut b, &mut c);
        getresgid(&mut d, &mut e, &mut f);
    }
    let _ = writeln!(out, "ids {a} {b} {c} {d} {e} {f}");
    unsafe {
        let _ = writeln!(out, "proc {} {} {} {}", getpid(), getppid(), getpgid(0), getsid(0));
    }
    out.push_str(&fds);
    let mut mask = 0u64;
    unsafe {
        sigprocmask(0, std::ptr::null(), &mut mask);
    }
    let _ = writeln!(out, "sigmask {mask:x}");

    // case id / exit code from the executable's own name: h.<case>.<code>
    let name = exe_b.rsplit(|c| *c == b'/').next().unwrap_or(b"").to_vec();
    let name = String::from_utf8_lossy(&name).to_string();
    let parts: Vec<&str> = name.split('.').collect();
    let case: i64 = parts.get(1).and_then(|s| s.parse().ok()).unwrap_or(-1);
    let code: i32 = parts.get(2).and_then(|s| s.parse().ok()).unwrap_or(99);

    // stdin -> stdout/stderr round trip
    let mut data = Vec::new();
    let mut buf = [0u8; 4096];
    let (mut rret, mut rerr) = (0isize, 0);
    while data.len() < 65536 {
        let n = unsafe { read(0, buf.as_mut_ptr(), buf.len()) };
        if n < 0 {
            if errno() == 4 {
                continue;
            }
            rret = n;
            rerr = errno();
            break;
        }
        if n == 0 {
            break;
        }
        data.extend_from_slice(&buf[..n as usize]);
    }
    if rret >= 0 {
        rret = data.len() as isize;
    }
    let _ = writeln!(out, "in {rret} {rerr} {}", hex(&data));
    for (fd, tag, key) in [(1, b'O', "out"), (2, b'E', "err")] {
        let mut msg = Vec::new();
        msg.push(tag);
        msg.extend_from_slice(format!("{case}:").as_bytes());
        msg.extend_from_slice(hex(&data).as_bytes());
        msg.push(b'\n');
        let w = unsafe { write(fd, msg.as_ptr(), msg.len()) };
        let e = if w < 0 { errno() } else { 0 };
        let _ = writeln!(out, "{key} {w} {e} {}", msg.len());
    }
    out.push_str("done\n");
    let mut path = exe_b.clone();
    path.extend_from_slice(b".dump");
    let tmp = {
        let mut t = path.clone();
        t.extend_from_slice(b".tmp");
        OsString::from_vec(t)
    };
    let path = OsString::from_vec(path);
    let ok = std::fs::write(&tmp, out.as_bytes()).is_ok() && std::fs::rename(&tmp, &path).is_ok();
    unsafe { _exit(if ok { code } else { 98 }) }
}
