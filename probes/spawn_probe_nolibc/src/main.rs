//! spawn_probe_nolibc — the C13 scenarios in a no-libc executable: tiny-std with the `start` feature
//! (`executable`, `global-allocator`), so `Environment::Inherit` (envp captured by tiny-std's start code)
//! and the `start` flavour of `Command::env` are what runs. Body shared with ../spawn_probe/src/core.rs.
//! usage (under sysmon): spawn_probe_nolibc <case file>
#![no_std]
#![no_main]
extern crate alloc;

#[path = "/verif/engines/sysmon/marker.rs"]
mod marker;
#[path = "/verif/probes/spawn_probe/src/core.rs"]
mod core_;

#[no_mangle]
pub fn main() -> i32 {
    let mut path: Option<alloc::vec::Vec<u8>> = None;
    for (i, a) in tiny_std::env::args_os().enumerate() {
        if i == 1 {
            path = Some(a.as_slice().to_vec()); // includes the terminating NUL
        }
    }
    match path {
        Some(p) => core_::run(&p),
        None => 2,
    }
}
