"""C08: tiny-start's memcpy/memmove/memset/memcmp/bcmp match C for every length, alignment and
overlap and never write outside the destination.

Layer 1 (engines/h_mem, std harness, debug + release + Miri sample): the five functions are
called by path through opaque function pointers and compared with volatile byte-loop references;
whole arenas (red zones included) are compared, return pointers checked, guard-page placements
run under a SIGSEGV handler that turns a fault inside a call into a witness.
Layer 2 (probes/mem_probe, no-libc executable in dynpie/static/staticpie x debug/release): the
same exhaustive small-n domain on the *linked* symbols through extern "C" calls and through
core::ptr::copy*/write_bytes/slice compares (where a lost #![no_builtins] shows up)."""
import json
import os
import re
import subprocess

import vlib

H = "engines/h_mem"
P = "probes/mem_probe"
MODES = ("dynpie", "static", "staticpie")
FNS = ("memcpy", "memmove", "memset", "memcmp", "bcmp")
SYMS = set(FNS)


def setup():
    vlib.cargo_build(H, "h_mem-debug")
    vlib.cargo_build(H, "h_mem-release", release=True)
    for m in MODES:
        for rel in (False, True):
            vlib.build_nolibc(P, "mem_probe", m, rel)
    for rel in (False, True):
        vlib.build_nolibc(P, "mem_probe_watch", "static", rel, features=["watch"])
    argv, env, cwd = vlib.miri_cmd(H, "h_mem-miri", "h_mem", ["sample", 0, 0], [])
    vlib.run_one(argv, env=env, cwd=cwd, timeout=1800)


def _one_sample(text, idx):
    """keep one @@SAMPLE line per process (the idx-th, cyclically) so that the bounded sample list
    of the evidence shows different functions / layers instead of the first process only"""
    lines = text.splitlines()
    sm = [l for l in lines if l.startswith("@@SAMPLE")]
    keep = sm[idx % len(sm)] if sm else None
    return "\n".join(l for l in lines if not l.startswith("@@SAMPLE") or l is keep)


def _miri_classify(ck, r, what):
    err = r["err"]
    if "error: Undefined Behavior" in err or "error: unsupported operation" in err:
        m = re.search(r"error: ([^\n]*)", err)
        frames = re.findall(r"(?:-->|at) (/[^\s:]+):(\d+)", err)
        first = frames[0][0] if frames else ""
        if "Undefined Behavior" in err and "/tiny-start/src/" in first:
            fns = re.findall(r"\d+: tiny_start::symbols::mem::(\w+)", err)
            exported = [f for f in fns if f in SYMS]
            ck.violation("C08/miri/ub/%s" % (exported[-1] if exported else (fns[-1] if fns else "mem")),
                         {"error": m.group(1) if m else "", "frame": "%s:%s" % frames[0], "stderr": err[-3000:], "context": what})
        else:
            ck.note_inconclusive("%s: Miri stopped outside the functions under test (%s)" % (what, (m.group(1) if m else "")[:200]))
        return False
    return True


def _gdb_where(exe):
    """Re-run a crashed probe under gdb (batch) and say in which symbol the fault happened."""
    try:
        p = subprocess.run(["gdb", "-q", "-batch", "-ex", "run", "-ex", "printf \"RIP=%p\\n\", $rip",
                            "-ex", "info symbol $rip", "-ex", "bt 6", "--args", exe],
                           stdout=subprocess.PIPE, stderr=subprocess.STDOUT, timeout=300, text=True,
                           env=vlib.base_env())
    except Exception as ex:  # gdb missing / timeout
        return None, "gdb: %s" % ex
    out = p.stdout
    sig = re.search(r"Program received signal (\w+)", out)
    sym = re.search(r"^(\w+)(?: \+ \d+)? in section", out, re.M)
    tail = "\n".join([l for l in out.splitlines() if not l.startswith("@@")][-14:])
    return (sig.group(1) if sig else None, sym.group(1) if sym else None), tail


def _probe_job(exe, cpu_s):
    # RLIMIT_CPU: a probe that burns many times the CPU time of the whole sweep inside one call
    # window is certified as not returning (CPU time, not wall clock: load cannot fake it)
    return dict(argv=["bash", "-c", "ulimit -S -t %d; exec %s" % (cpu_s, exe)], timeout=900)


def _classify_probe(ck, r, exe, tag):
    out = r["out"]
    lines = _one_sample(out, sum(map(ord, tag))).splitlines()
    progress = [l for l in lines if l.startswith("@@P ")]
    last = progress[-1].split() if progress else None
    done = "@@DONE" in lines
    # '@@' lines except the private progress/done markers
    ck.consume("\n".join(l.replace("@@DISTINCT L2/", "@@DISTINCT L2/%s/" % tag, 1).replace("@@COUNT cases_L2_", "@@COUNT cases_L2_%s_" % tag, 1)
                         .replace("@@COUNT placement_pairs_covered_max1024_L2_", "@@COUNT placement_pairs_covered_max1024_L2_%s_" % tag, 1)
                         for l in lines if l.startswith("@@") and not l.startswith(("@@P ", "@@DONE"))), context=tag)
    if r["timed_out"]:
        ck.note_inconclusive("%s: watchdog fired (last progress %s)" % (tag, last))
        return False
    rc = r["rc"]
    if rc in (0, 1) and done:
        ck.note_distinct("L2/%s/completed" % tag)
        ck.count("probe_variants_completed")
        return True
    in_window = bool(last) and last[2] in FNS
    detail = {"probe": tag, "exit": rc, "last_progress": " ".join(last[1:]) if last else None,
              "stderr": r["err"][-400:], "stdout_head": "\n".join(lines[:3])}
    if rc is not None and (rc < 0 or rc >= 128):
        if rc in (-24, 128 + 24):
            # CPU limit: non-termination certificate
            if in_window:
                ck.violation("C08/probe/no-return/%s" % last[2], dict(detail, what="CPU limit exhausted inside the call window"))
            else:
                ck.note_inconclusive("%s: CPU limit exhausted outside a call window (last progress %s)" % (tag, last))
            return False
        where, gtail = _gdb_where(exe)
        detail["gdb"] = gtail
        if where and where[1] in SYMS:
            ck.violation("C08/probe/fault-inside/%s" % where[1],
                         dict(detail, what="%s with the program counter inside the linked %s" % (where[0], where[1])))
        elif in_window:
            ck.violation("C08/probe/crash-in-call-window/%s" % last[2],
                         dict(detail, what="the probe died between two progress marks, where only the oracle's volatile loops and calls of the function under test run"))
        else:
            ck.note_inconclusive("%s: probe died with status %s outside a call window and outside the mem symbols (gdb: %s)" % (tag, rc, where))
        return False
    ck.note_inconclusive("%s: unexpected exit status %s without @@DONE (last progress %s)" % (tag, rc, last))
    return False


def run(ck, replay=None):
    quick = ck.tier == "quick"
    dbg = vlib.cargo_build(H, "h_mem-debug") + "/h_mem"
    rel = vlib.cargo_build(H, "h_mem-release", release=True) + "/h_mem"
    if replay:
        d = json.load(open(replay)).get("detail", {})
        c = d.get("case")
        if not c:
            vlib.log("this witness is a probe / Miri finding without a single-case record: re-run `bin/check C08`; detail:\n%s" % json.dumps(d, indent=1)[:3000])
            return "replay: nothing to run"
        if c.get("placement") != "red-zones":
            for exe in (dbg, rel):
                ck.consume_result(vlib.run_one([exe, "guard", str(ck.seed), "20000"]), "replay guard placements")
            return "replay of the guard-page placements"
        dist = c.get("dst_minus_src", 0) if c.get("buffers") == "one" else 0
        dm = c["dst_mis"]
        if dist:
            dm = (dm - ((128 + abs(dist) + 7) & ~7)) % 16
        aux = c.get("c", c.get("first_diff", 0))
        var = {"equal": 0, "a<b": 1, "a>b": 2}.get(c.get("relation"), 0)
        for exe in (dbg, rel):
            r = vlib.run_one([exe, "one", "0", "0", str(FNS.index(c["fn"])), str(c["n"]), str(dm), str(c.get("src_mis", 0)), str(dist), str(aux), str(var)])
            vlib.log(r["out"])
            ck.consume_result(r, "replay")
        return "replay of one case"
    probes = []
    for m in MODES:
        for release in (False, True):
            try:
                d = vlib.build_nolibc(P, "mem_probe", m, release)
                probes.append(("%s-%s" % (m, "release" if release else "debug"), d + "/mem_probe", release))
            except vlib.BuildError as ex:
                ck.note_inconclusive("mem_probe %s %s failed to build: %s" % (m, "release" if release else "debug", str(ex)[-600:]))

    # threaded no-libc variant: two-thread neighbour watcher on the linked symbols
    two_cpus = len(os.sched_getaffinity(0)) >= 2
    if two_cpus:
        for release in (False, True):
            try:
                d = vlib.build_nolibc(P, "mem_probe_watch", "static", release, features=["watch"])
                probes.append(("watch-static-%s" % ("release" if release else "debug"), d + "/mem_probe", release))
            except vlib.BuildError as ex:
                ck.note_inconclusive("mem_probe watch variant failed to build: %s" % str(ex)[-600:])
    else:
        ck.note_inconclusive("neighbour watcher needs 2 CPUs; only %d available" % len(os.sched_getaffinity(0)))

    jobs = []
    nsh = 4
    for prof, exe in (("debug", dbg), ("release", rel)):
        for i in range(nsh):
            jobs.append(("L1 small %s shard %d/%d" % (prof, i, nsh), dict(argv=[exe, "small", str(ck.seed), "0", str(i), str(nsh)], timeout=1800), "small"))
        nl = 4 if quick else 16
        for i in range(nl):
            jobs.append(("L1 large %s #%d" % (prof, i), dict(argv=[exe, "large", str(ck.seed * 1009 + i), str(2500 if quick else 40000)], timeout=3600), "large"))
        # placement cross product: each operand independently flush-before / flush-after an inaccessible page / interior
        for i in range(nsh):
            jobs.append(("L1 placement %s shard %d/%d" % (prof, i, nsh),
                         dict(argv=[exe, "xplace", str(ck.seed * 613 + i), str(60 if quick else 600), str(i), str(nsh), str(2 if quick else 6)], timeout=3600), "xplace"))
        # very large sizes: around every power of two 1 MiB .. 64 MiB and odd sizes in between
        mult = 1 if quick else 3
        for power, calls in ((20, 40), (21, 40), (22, 40), (23, 32), (24, 24), (25, 16), (26, 12)):
            if quick and prof == "debug" and power > 23:
                continue  # memory-bandwidth bound: the largest sizes once (release) in the quick tier
            for fn in ((255,) if power < 24 else (0, 1, 2, 3, 4)):
                jobs.append(("L1 huge %s 2^%d fn=%s" % (prof, power, "all" if fn == 255 else FNS[fn]),
                             dict(argv=[exe, "huge", str(ck.seed * 17 + power), str(calls * mult), str(power), str(fn)], timeout=3600), "huge"))
        # two-thread neighbour watcher (writes outside the destination that restore the old value)
        if two_cpus:
            jobs.append(("L1 watch %s" % prof, dict(argv=[exe, "watch", str(ck.seed), str(1_000_000 if quick else 5_000_000)], timeout=3600), "watch"))
        ng = 2 if quick else 8
        for i in range(ng):
            jobs.append(("L1 guard %s #%d" % (prof, i), dict(argv=[exe, "guard", str(ck.seed * 31 + i), str(12000 if quick else 100000)], timeout=3600), "guard"))
    pj = [(tag, exe, _probe_job(exe, 60 if release else 300)) for tag, exe, release in probes]
    # Miri: stratified sample of the same case generator
    msh = 16
    mcases = 130 if quick else 2500
    argv, env, cwd = vlib.miri_cmd(H, "h_mem-miri", "h_mem", ["sample", 0, 0], [])
    vlib.run_one(argv, env=env, cwd=cwd, timeout=1200)  # builds once
    mj = []
    for i in range(msh):
        argv, env, cwd = vlib.miri_cmd(H, "h_mem-miri", "h_mem", ["sample", ck.seed * 7 + i, mcases], [])
        mj.append(dict(argv=argv, env=env, cwd=cwd, timeout=3000))
    # exactly-sized align-1 allocations: any access outside [p, p+n) is out of bounds for Miri
    xsh = 6 if quick else 16
    xcases = 50 if quick else 600
    for i in range(xsh):
        argv, env, cwd = vlib.miri_cmd(H, "h_mem-miri", "h_mem", ["exact", ck.seed * 13 + i, xcases], [])
        mj.append(dict(argv=argv, env=env, cwd=cwd, timeout=3000))
    import time
    t0 = time.time()
    # native jobs, probes and the Miri shards share the cores
    all_res = vlib.run_parallel([j for _, j, _ in jobs] + [j for _, _, j in pj] + mj)
    res = all_res[:len(jobs) + len(pj)]
    vlib.log("[c08] %d native jobs + %d probes %.1fs; slowest: %s" % (len(jobs), len(pj), time.time() - t0,
             ", ".join("%s %.1fs" % (w, r["wall"]) for w, r in sorted(zip([j[0] for j in jobs] + [p[0] for p in pj], res), key=lambda x: -x[1]["wall"])[:4])))
    t0 = time.time()
    small_ok = 0
    place_ok = 0
    for k, ((what, _, kind), r) in enumerate(zip(jobs, res[:len(jobs)])):
        r["out"] = _one_sample(r["out"], k)
        # exit 0 also after a reported fault (the handler exits 0 after writing its @@VIOL)
        ok = ck.consume_result(r, what)
        if ok and kind == "small" and "small_domain_shards_completed" in r["out"]:
            small_ok += 1
        if ok and kind == "xplace" and "placement_shards_completed" in r["out"]:
            place_ok += 1
    probe_ok = 0
    for (tag, exe, _), r in zip(pj, res[len(jobs):]):
        if _classify_probe(ck, r, exe, tag):
            if tag.startswith("watch-"):
                ck.count("probe_watch_variants_completed")
            else:
                probe_ok += 1

    mres = all_res[len(jobs) + len(pj):]
    vlib.log("[c08] slowest miri shard %.1fs" % max(r["wall"] for r in mres))
    for i, r in enumerate(mres[msh:]):
        what = "miri exact-size allocations shard %d" % i
        if _miri_classify(ck, r, what) and ck.consume_result(r, what):
            ck.count("miri_exact_shards_completed")
    for i, r in enumerate(mres[:msh]):
        what = "miri sample shard %d" % i
        r["out"] = _one_sample(r["out"], i)
        if _miri_classify(ck, r, what) and ck.consume_result(r, what):
            ck.count("miri_shards_completed")

    ck.exhaustive = small_ok == 2 * nsh
    ck.extra["exhaustive_domain"] = (
        "n in 0..=40 (2*threshold+word with word=8, threshold=16): memcpy/memmove all 16x16 destination/source "
        "misalignments in separate buffers; memmove every distance -(n+8)..=(n+8) in one buffer at 16 destination "
        "misalignments (memcpy: the non-overlapping ones); memset 16 misalignments x fill {0,1,0x7f,0x80,0xff} x 3 int "
        "encodings; memcmp/bcmp 16x16 misalignments x equal + every first-difference position x both directions; "
        "layer 1 in debug and release, layer 2 in %d of 6 link-mode/profile variants x 2 routes" % probe_ok)
    ck.extra["probe_variants_completed"] = probe_ok
    cells = [k for k in ck.distinct if k.startswith("L1-placement/")]
    ck.extra["placement_cells_layer1"] = len(cells)
    ck.extra["placement_cells_probes"] = len([k for k in ck.distinct if "/placement-px-" in k])
    ck.extra["placement_domain"] = (
        "two regions with an inaccessible page before and after each; operand 1 (dst/s1) and operand 2 (src/s2) independently in 32 "
        "placements (ends 0..7 bytes before the inaccessible page, starts 0..7 bytes after it, interior at address %% 16 = 0..15): all "
        "1024 pairs for every n in 0..=96 for memcpy, memmove, memcmp and bcmp (compare functions: equal + first difference in the byte "
        "head / a middle word / the sub-word tail / the last byte), memset in the 32 placements; larger n around multiples of 8/16/32/64 "
        "up to 6 KiB with every pair of placement classes sampled; layer 1 shards completed %d of %d, and the same in every probe variant "
        "on the linked symbols by both routes" % (place_ok, 2 * nsh))
    ck.assume("word size 8 and WORD_COPY_THRESHOLD 16 (x86_64) as in tiny-start/src/symbols/mem.rs; the harness mirrors the private constants")
    ck.assume("reads that stay inside mapped memory next to the buffer are not judged; any access that faults on the inaccessible page "
              "placed 0..7 bytes beyond either end of either operand is a violation (detected by the fault itself, natively and in the "
              "no-libc probes, not through Miri/sanitizers)")
    ck.assume("bcmp is judged on zero / non-zero only, memcmp on the sign; the int argument of memset is converted to unsigned char")
    ck.assume("Miri runs a sample (not the exhaustive domain); the no-libc probes cannot run under Miri or sanitizers")
    ck.assume("sizes above 96 bytes are sampled: around every power of two from 1 MiB to 64 MiB (+-0..32, every start misalignment and end "
              "alignment) and seeded odd sizes in between; strategy thresholds at other sizes between 40 bytes and 1 MiB are covered only by the "
              "1 MiB sweep's samples; references for the large sizes are x86 `rep movsb/stosb`")
    ck.assume("writes outside the destination that put the old value back are visible only (a) to Miri on exactly-sized align-1 allocations "
              "(sampled) and (b) to the two-thread neighbour watcher when a concurrent update actually falls into the window: a silent "
              "watcher run is weaker evidence than a silent content check; needs >= 2 CPUs")
    return ("each case = one call on buffers placed inside larger pattern-filled arenas; reference = volatile byte loops; the whole "
            "destination arena (red zones included), the source arena and the return pointer are compared. Small-n domain exhaustive "
            "(see exhaustive_domain), large n sampled up to 1 MiB around page/word/power-of-two sizes, guard-page placements "
            "(buffers ending/starting at PROT_NONE pages) under a fault handler, the full cross product of operand placements "
            "(see placement_domain), very large sizes (1..64 MiB) with 128-byte canaries and full-length comparison against rep-movsb/stosb references, "
            "a two-thread neighbour watcher (second thread sole writer of the 7 bytes either side of the destination; a lost update = write "
            "outside the destination), Miri on a sample and on exactly-sized align-1 allocations, and the no-libc probes repeating the small "
            "domain, the placement cross product, a few very large calls and (threaded variant) the watcher on the linked symbols. distinct = (function, n class, head/body-aligned|misaligned/tail path, direction) "
            "cells per layer, guard-placement cells, placement cross-product cells (function, operand-1 class, operand-2 class, n class, first-difference class), "
            "probe (link mode, profile, route, function, n class, direction | operand classes) cells")
