"""C18: io_uring operations complete once with the direct system call's result; teardown is exact.

Oracle 1 (harness engines/h_uring, mode twin): every operation is submitted through rusl's SQE constructors /
ring wrapper on side A and executed as a plain system call on an identical twin world (directory tree, files,
sockets) on side B; results, out-parameters and side effects are compared; the completions of every batch are
matched one-to-one against the submitted user_data values.
Oracle 2 (mode cycle under sysmon): the mmap results of setup_io_uring must be matched one-to-one by the munmap
calls of Drop, the ring descriptor closed exactly once, nothing else released; mmap failures are injected into
the set-up to look for mapping residue."""
import json
import os
import shlex
import shutil
import tempfile

import syslog
import vlib

HARNESS = "engines/h_uring"
LEVEL = "exploration"

NAMES = ["IOPOLL", "SQPOLL", "SQ_AFF", "CQSIZE", "CLAMP", "ATTACH_WQ", "R_DISABLED", "SUBMIT_ALL", "COOP_TASKRUN",
         "TASKRUN_FLAG", "SQE128", "CQE32", "SINGLE_ISSUER", "DEFER_TASKRUN"]
B = {n: 1 << i for i, n in enumerate(NAMES)}
UNUSABLE = B["IOPOLL"] | B["R_DISABLED"]   # rings on which the listed operations cannot run (kernel semantics)


def fl_names(bits):
    return "|".join(n for n in NAMES if bits & B[n]) or "none"


def fl_class(bits):
    v = [n for n, b in (("sqpoll", B["SQPOLL"]), ("sqe128", B["SQE128"]), ("cqe32", B["CQE32"]), ("defer", B["DEFER_TASKRUN"]))
         if bits & b]
    return "+".join(v) or "plain"


def build(release=False):
    return vlib.cargo_build(HARNESS, "h_uring-release" if release else "h_uring-debug", bins=["h_uring"], release=release)


def setup():
    build()
    syslog.sysmon_bin()


def probe(ck, exe):
    r = vlib.run_one([exe, "probe", str(ck.seed), "4"], timeout=300)
    ck.consume_result(r, "probe")
    acc = []
    for line in r["out"].splitlines():
        if line.startswith("ACCEPTED"):
            acc = [int(x, 16) for x in line.split()[1:]]
    return acc


def twin_plan(ck, accepted, quick):
    """[(flagbits, entries, batches)]"""
    rnd = vlib.rng(ck.seed, "c18-plan")
    runnable = [b for b in accepted if not b & UNUSABLE]
    acc = set(runnable)
    plan = []
    if quick:
        want = [0, B["SQPOLL"], B["SQPOLL"] | B["SQ_AFF"], B["CLAMP"], B["SUBMIT_ALL"], B["COOP_TASKRUN"],
                B["COOP_TASKRUN"] | B["TASKRUN_FLAG"], B["SQE128"], B["CQE32"], B["SQE128"] | B["CQE32"],
                B["SINGLE_ISSUER"], B["SINGLE_ISSUER"] | B["DEFER_TASKRUN"],
                B["SINGLE_ISSUER"] | B["DEFER_TASKRUN"] | B["TASKRUN_FLAG"] | B["SQE128"] | B["CQE32"] | B["SUBMIT_ALL"] | B["CLAMP"],
                B["SQPOLL"] | B["SQE128"] | B["CQE32"] | B["SUBMIT_ALL"] | B["SINGLE_ISSUER"]]
        sets = [b for b in want if b in acc]
        skipped = [b for b in want if b not in acc]
        extra = [b for b in runnable if b not in sets]
        rnd.shuffle(extra)
        sets += extra[:max(0, 18 - len(sets))]
        sizes = [1, 2, 3, 4, 8, 16, 32, 64, 5, 8, 12, 64, 2, 24, 7, 4, 48, 8]
        for i, b in enumerate(sets):
            e = sizes[i % len(sizes)]
            n = 500 if e <= 8 else (220 if e <= 32 else 110)
            plan.append((b, e, n))
        # one long-lived small ring: every slot is reused more than a thousand times
        plan.append((0, 4, 2500))
        return plan, skipped
    # thorough: every accepted, usable flag set; ring sizes 1..64; >= 50 000 batches in total
    sizes = [1, 2, 3, 4, 6, 8, 13, 16, 27, 32, 50, 64]
    per = max(60, 52000 // max(1, len(runnable)))
    for b in runnable:
        e = sizes[rnd.randrange(len(sizes))]
        n = per if e <= 16 else max(40, per // 2)
        plan.append((b, e, n))
    for b, e, n in ((0, 1, 6000), (0, 2, 6000), (0, 8, 8000), (B["SQPOLL"], 4, 5000), (B["SQE128"] | B["CQE32"], 4, 6000),
                    (B["SINGLE_ISSUER"] | B["DEFER_TASKRUN"], 16, 4000), (B["SUBMIT_ALL"], 64, 1500), (B["COOP_TASKRUN"], 32, 2500)):
        if b in acc:
            plan.append((b, e, n))
    return plan, []


def analyse_cycles(ck, evs, what):
    """Mapping / descriptor bookkeeping of set-up and drop windows in one sysmon log."""
    windows = []
    cur = None
    for e in evs:
        if e.k == "M" and e.kind == syslog.MARK["BEGIN"]:
            cur = {"scn": e.a[0], "case": e.a[1], "x": e.a[2], "ev": []}
        elif e.k == "M" and e.kind == syslog.MARK["END"]:
            if cur is not None:
                cur["end"] = e.a
                windows.append(cur)
            cur = None
        elif cur is not None and e.k == "S":
            cur["ev"].append(e)
    rings = {}
    ncycles = 0
    for w in windows:
        if w["scn"] == 1:
            bits = w["x"] & 0xffff
            entries = w["x"] >> 16
            ok, fd_reported, inj_k = w["end"][2], w["end"][3], w["end"][4]
            ringfd = None
            maps = []
            injected = 0
            unmapped = []
            closed = []
            for e in w["ev"]:
                if e.nr == syslog.NR["io_uring_setup"] and e.ret >= 0:
                    ringfd = e.ret
                elif e.nr == syslog.NR["mmap"]:
                    if e.inj:
                        injected += 1
                    elif e.ret > 0 and ringfd is not None and syslog.s64(e.args[4]) == ringfd:
                        maps.append((e.ret, e.args[1]))
                elif e.nr == syslog.NR["munmap"] and e.ret == 0:
                    unmapped.append((e.args[0], e.args[1]))
                elif e.nr == syslog.NR["close"] and e.ret == 0:
                    closed.append(syslog.s64(e.args[0]))
            eclass = "1" if entries == 1 else ("2-8" if entries <= 8 else "16-64")
            if ringfd is None:
                ck.count("setup_rejected_by_kernel_in_cycle")
                continue
            if ok == 1:
                rings[w["case"]] = {"fd": ringfd, "maps": maps, "bits": bits, "entries": entries, "injected": injected}
                if len(maps) not in (2, 3):
                    ck.note_inconclusive("%s cycle %d: %d ring mappings seen in the set-up window" % (what, w["case"], len(maps)))
                ck.note_distinct("setup/%s/entries%s/%dmaps/inject-%s" % (fl_class(bits), eclass, len(maps),
                                                                           "none" if inj_k < 0 else "k%d-not-reached" % inj_k))
                continue
            # set-up failed
            if injected == 0:
                ck.note_inconclusive("%s cycle %d: set-up failed without an injected failure" % (what, w["case"]))
                continue
            ck.add_eval(1)
            ck.count("setup_failure_injections")
            residue = [m for m in maps if m not in unmapped]
            fd_leaked = ringfd not in closed
            ck.note_distinct("setup-failure/%s/entries%s/mmap%d/%s%s" % (fl_class(bits), eclass, inj_k,
                                                                         "mapping-residue" if residue else "mappings-released",
                                                                         "+fd-open" if fd_leaked else ""))
            if fd_leaked:
                ck.count("setup_failure_ring_fd_left_open")   # descriptor part: property C12
            if residue:
                ck.violation("C18/setup/mapping-leak-on-mmap-failure",
                             {"flags": fl_names(bits), "entries": entries, "failed_mmap_index": inj_k,
                              "mappings_made": [[hex(a), l] for a, l in maps],
                              "left_mapped": [[hex(a), l] for a, l in residue],
                              "ring_fd_left_open": fd_leaked, "context": what})
            ck.sample({"cycle": "set-up with injected mmap failure", "flags": fl_names(bits), "entries": entries,
                       "failed_mmap_index": inj_k, "mappings_left": len(residue), "ring_fd_left_open": fd_leaked},
                      key="inj-%d-%s" % (inj_k, bool(residue)))
        elif w["scn"] == 2:
            ring = rings.pop(w["case"], None)
            if ring is None:
                continue
            ncycles += 1
            ck.add_eval(1)
            bits, entries = ring["bits"], ring["entries"]
            live = dict(ring["maps"])
            done = {}
            problems = []
            closes = []
            for e in w["ev"]:
                if e.nr == syslog.NR["munmap"]:
                    a, l = e.args[0], e.args[1]
                    if a in live and live[a] == l and a not in done:
                        done[a] = 1
                        if e.ret != 0:
                            problems.append(("C18/drop/munmap-failed", "munmap(%#x,%d) -> %d" % (a, l, e.ret)))
                    elif a in done:
                        # the kernel answers 0 for a range that is no longer mapped; in a threaded program the
                        # range may by now belong to somebody else
                        single = len(ring["maps"]) == 2
                        problems.append(("C18/drop/double-munmap-single-mmap" if single else "C18/drop/double-munmap",
                                         "munmap(%#x,%d) issued again after the range was already unmapped (ret %d)" % (a, l, e.ret)))
                    elif a in live:
                        problems.append(("C18/drop/munmap-wrong-length", "munmap(%#x,%d), mapping length %d" % (a, l, live[a])))
                    else:
                        problems.append(("C18/drop/unrelated-munmap", "munmap(%#x,%d) is none of the ring's mappings" % (a, l)))
                elif e.nr == syslog.NR["close"]:
                    closes.append((syslog.s64(e.args[0]), e.ret))
            for a, l in ring["maps"]:
                if a not in done:
                    problems.append(("C18/drop/mapping-not-unmapped", "mapping %#x len %d still mapped after drop" % (a, l)))
            ringcl = [c for c in closes if c[0] == ring["fd"]]
            if len(ringcl) == 0:
                problems.append(("C18/drop/fd-not-closed", "ring descriptor %d not closed" % ring["fd"]))
            elif len(ringcl) > 1:
                problems.append(("C18/drop/fd-closed-twice", "ring descriptor closed %d times" % len(ringcl)))
            for c in closes:
                if c[0] != ring["fd"]:
                    problems.append(("C18/drop/other-fd-closed", "close(%d) in drop, ring descriptor is %d" % (c[0], ring["fd"])))
            eclass = "1" if entries == 1 else ("2-8" if entries <= 8 else "16-64")
            ck.note_distinct("drop/%s/entries%s/%dmaps/%s" % (fl_class(bits), eclass, len(ring["maps"]),
                                                              "exact" if not problems else problems[0][0].split("/")[-1]))
            ck.sample({"cycle": "drop", "flags": fl_names(bits), "entries": entries,
                       "mappings": [[hex(a), l] for a, l in ring["maps"]],
                       "munmap_calls": sum(1 for e in w["ev"] if e.nr == syslog.NR["munmap"]),
                       "close_calls": closes, "verdict": [p[0] for p in problems] or "exact"},
                      key="drop-%d-%s" % (len(ring["maps"]), bool(problems)))
            seen = set()
            for sig, text in problems:
                if sig in seen:
                    continue
                seen.add(sig)
                ck.violation(sig, {"flags": fl_names(bits), "entries": entries, "what": text,
                                   "ring_mappings": [[hex(a), l] for a, l in ring["maps"]],
                                   "calls_in_drop": ["%s(%s) -> %d" % (syslog.NAME.get(e.nr, e.nr),
                                                                         ",".join(hex(x) for x in e.args[:2]), e.ret)
                                                     for e in w["ev"]][:12],
                                   "context": what})
    ck.count("setup_drop_cycles_traced", ncycles)
    return ncycles


def explore(ck, quick, exe, exes, plan, accepted, tmp):
    """run the twin shards and the traced set-up/drop cycles; every process starts in (and writes only below) tmp"""
    jobs = []
    for i, (b, e, n) in enumerate(plan):
        x = exes[i % len(exes)]
        argv = [x, "twin", str(ck.seed * 7919 + i), str(n), "%x" % b, str(e)]
        jobs.append(dict(argv=argv, timeout=1500 if quick else 7200, env=vlib.base_env({"C18_TMP": tmp}), cwd=tmp))
    # SQPOLL wake-up protocol (idle poller, overflowed completion queue, submit, require the completion); the flag
    # sets the kernel rejects (COOP_TASKRUN / TASKRUN_FLAG together with SQPOLL on current kernels) are recorded as skipped
    sq = B["SQPOLL"]
    psets = [sq, sq | B["SQ_AFF"], sq | B["COOP_TASKRUN"], sq | B["COOP_TASKRUN"] | B["TASKRUN_FLAG"], sq | B["CQE32"],
             sq | B["SQE128"], sq | B["SUBMIT_ALL"] | B["SINGLE_ISSUER"], sq | B["CLAMP"] | B["SQE128"] | B["CQE32"]]
    if not quick:
        psets += [b for b in accepted if b & sq and not b & UNUSABLE and b not in psets]
    pjobs = []
    for i, b in enumerate(psets):
        e = (1, 2, 4, 1, 8, 2, 1, 16)[i % 8]
        argv = [exe, "sqpoll", str(ck.seed * 31 + i), str(12 if quick else 60), "%x" % b, str(e)]
        pjobs.append(dict(argv=argv, timeout=600, env=vlib.base_env({"C18_TMP": tmp}), cwd=tmp))
    jobs += pjobs
    # set-up / drop cycles under the tracer (all accepted sets, including the ones no operation can run on)
    rnd = vlib.rng(ck.seed, "c18-cycles")
    cyc_sets = list(accepted)
    rnd.shuffle(cyc_sets)
    head = [b for b in (0, B["SQPOLL"], B["SQE128"] | B["CQE32"], B["IOPOLL"], B["R_DISABLED"], B["CLAMP"],
                        B["SINGLE_ISSUER"] | B["DEFER_TASKRUN"]) if b in set(accepted)]
    nshard = 4 if quick else 16
    per = 15 if quick else 3 * max(1, (len(accepted) + nshard - 1) // nshard)
    cjobs = []
    for s in range(nshard):
        sets = (head + cyc_sets)[s::nshard] if quick else cyc_sets[s::nshard] + head
        sets = sets[:per] or [0]
        log = os.path.join(tmp, "cycle-%d.log" % s)
        prog = [exe, "cycle", str(ck.seed + s), str(per), ",".join("%x" % b for b in sets)]
        cjobs.append((log, syslog.sysmon_cmd(log, prog, scope_markers=True, timeout_s=600 if quick else 3000, idle_ms=0)))
    res = vlib.run_parallel(jobs + [dict(argv=c, timeout=700 if quick else 3200, cwd=tmp) for _, c in cjobs])
    flagsets_run = set()
    for j, r in zip(jobs, res[:len(jobs)]):
        what = "twin:" + " ".join(shlex.quote(a) for a in j["argv"])
        if ck.consume_result(r, what, expect_rc=(0, 3)) and j["argv"][1] == "twin":
            flagsets_run.add(int(j["argv"][4], 16))
    ck.count("flag_sets_with_twin_runs", len(flagsets_run))
    ck.extra["flag_sets_with_twin_runs"] = sorted(fl_names(b) for b in flagsets_run)[:60]
    total_cycles = 0
    for (log, c), r in zip(cjobs, res[len(jobs):]):
        what = "cycle:" + " ".join(c[c.index("--") + 1:])
        ck.consume_result(r, what)
        try:
            evs = syslog.parse(log)
        except OSError:
            ck.note_inconclusive("no sysmon log for " + what)
            continue
        total_cycles += analyse_cycles(ck, evs, what)
        try:
            os.unlink(log)
        except OSError:
            pass
    return total_cycles


def run(ck, replay=None):
    quick = ck.tier == "quick"
    dbg = build()
    exe = os.path.join(dbg, "h_uring")
    if replay:
        with open(replay) as f:
            rp = json.load(f)
        ctx = (rp.get("detail") or {}).get("context", "")
        if ctx.startswith("twin:"):
            argv = shlex.split(ctx[5:])
            argv[0] = exe
            tmp = tempfile.mkdtemp(prefix="c18-", dir="/tmp")
            try:
                ck.consume_result(vlib.run_one(argv, timeout=1800, env=vlib.base_env({"C18_TMP": tmp}), cwd=tmp), ctx, expect_rc=(0, 3))
            finally:
                shutil.rmtree(tmp, ignore_errors=True)
        else:
            replay = None  # cycle findings are deterministic in every cycle: a normal run shows them again
        if replay:
            return "replay of one twin shard: " + ctx
    accepted = probe(ck, exe)
    if not accepted:
        ck.note_inconclusive("no set-up flag set accepted (io_uring unavailable?)")
        return "nothing ran"
    plan, skipped = twin_plan(ck, accepted, quick)
    for b in skipped:
        ck.count("planned_flag_sets_skipped_rejected_by_kernel")
        ck.note_distinct("flagset-skipped/" + fl_names(b))
    exes = [exe]
    if not quick:
        exes.append(os.path.join(build(release=True), "h_uring"))
    # private sandbox: harness processes run with it as cwd and build their twin worlds below it; removed on every path
    tmp = tempfile.mkdtemp(prefix="c18-", dir="/tmp")
    try:
        total_cycles = explore(ck, quick, exe, exes, plan, accepted, tmp)
    finally:
        shutil.rmtree(tmp, ignore_errors=True)
    if total_cycles == 0:
        ck.note_inconclusive("no set-up/drop cycle was traced")
    ck.exhaustive = False
    ck.assume("the equivalent direct call of readv/writev and of the fixed read/write is preadv/pwritev/pread/pwrite at offset 0 "
              "(the constructors hard-wire off = 0; readv/writev without offset on sockets)")
    ck.assume("IOSQE_IO_LINK semantics as documented in io_uring_enter(2): an error or a short read/write severs the chain; for statx "
              "and the path-based file-system operations, whose failed-request marking differs between kernel versions, the replay follows the running kernel")
    ck.assume("operations of one batch that are not linked touch disjoint resources (entries, descriptors, sockets), so their mutual order cannot matter")
    ck.assume("argument combinations with two invalid arguments whose error precedence differs between the system call and the io_uring "
              "preparation step are not generated (empty path together with other invalid arguments, tv_nsec >= 1e9)")
    ck.assume("socket state after an asynchronous release (close through the ring) is compared once both sides have settled")
    ck.assume("the kernel's SQ flags word is read through a second read-only mapping of the ring descriptor, offsets from a scratch io_uring_setup with identical "
              "parameters; NEED_WAKEUP set before and after a needs_wakeup() call means it was set during the call (only a wake-up clears it)")
    ck.assume("IOPOLL and R_DISABLED rings only take part in the set-up/drop cycles: the listed operations cannot run on them")
    ck.assume("a missing completion shows as a watchdog (inconclusive) unless io_uring_enter returned saying the completions are there")
    return ("seeded batches of 1..ring-size operations (independent, IOSQE_IO_LINK/HARDLINK chains, wake-up pairs; valid and invalid arguments) "
            "on one ring per process for every chosen set-up flag set and ring size; each operation compared with the direct system call on a twin "
            "world (result / errno, buffers, statx fields, descriptor identity, peer address, control messages, directory tree, open-file content, "
            "socket state); completions matched one-to-one with submitted user_data; SQPOLL wake-up protocol rounds (idle poller, overflowed CQ) deciding with needs_wakeup() only, "
            "checked against the kernel's own SQ flags word; set-up/drop cycles traced by sysmon incl. injected mmap failures; "
            "distinct = (opcode, result class, linked?, ring-size class, flag class) cells plus set-up/drop classes")
