"""C09: every raw system-call wrapper of rusl returns Err exactly for kernel results in [-4095,-1] with the
positive errno, otherwise Ok with the kernel's value unchanged, and issues the call once (only dup may repeat
after EBUSY).

Oracle: probes/wrap_probe calls each wrapper under engines/sysmon. For a *forced* case sysmon suppresses the
call and puts the chosen kernel result r into the return register (50 times in a row, then EBADF as a fuse);
for a *real* case the call runs on harmless real arguments. The log holds every issue of the expected system
call between the case's BEGIN and END markers together with the value the wrapper's caller saw; the decode is
judged offline against a table built from each wrapper's signature (unit / count / descriptor / id / offset /
address / struct-out), not from its implementation."""
import concurrent.futures
import json
import os
import re
import shutil
import subprocess
import time

import syslog
import vlib

LEVEL = "fault_enumeration"
MIN_DISTINCT = 20
PROBE = "probes/wrap_probe"

FORCED_N = 50          # must match wrap_probe
REAL_N = 50
EBUSY = 16

I32MAX = 2 ** 31 - 1
SMALL = [0, 1, 2, 3, 15, 16, 17, 4095, 4096]
PIDS = [1, 2, 15, 16, 17, 4095, 4096, 32768, 4194304]
# success values the kernel can produce, per result type; 64-bit register values written as signed numbers
SUCC = {
    "unit": [0],
    "fd": SMALL + [I32MAX],
    "flags": SMALL + [0o100000, 0o102002, I32MAX],
    "count_rw": SMALL + [0x7FFFF000],
    "count_int": SMALL + [I32MAX],
    "reg": SMALL + [I32MAX, 2 ** 31, 2 ** 32, 2 ** 47, -2 ** 63, -4097, -4096],
    "addr": [0, 4096, 65536, 2 ** 31, 2 ** 32, 2 ** 47 - 4096, 2 ** 47, 2 ** 56, -2 ** 63, -8192, -4096],
    "off": SMALL + [I32MAX, 2 ** 31, 2 ** 32, 2 ** 47, 2 ** 62, 2 ** 63 - 1, -2 ** 63, -4097, -4096],
    "u32": SMALL + [65534, I32MAX, 2 ** 31, 2 ** 32 - 4096, 2 ** 32 - 4095, 2 ** 32 - 16, 2 ** 32 - 1],
    "pid": PIDS,
    "dupfd": SMALL + [I32MAX],
    "sid": PIDS,
    "plain_pid": PIDS,
}
LABEL = {I32MAX: "i32max", 2 ** 31: "2p31", 2 ** 32: "2p32", 2 ** 47: "2p47", 2 ** 47 - 4096: "2p47-page",
         2 ** 56: "2p56", 2 ** 62: "2p62", 2 ** 63 - 1: "i64max", -2 ** 63: "2p63", -4097: "neg4097",
         -4096: "neg4096", -8192: "neg8192", 0x7FFFF000: "maxrw", 2 ** 32 - 1: "u32max",
         2 ** 32 - 4096: "u32-4096", 2 ** 32 - 4095: "u32-4095", 2 ** 32 - 16: "u32-16",
         0o100000: "o100000", 0o102002: "o102002"}

# how the Ok value relates to the register: "same" = carried as is, "zero" = unit / struct (nothing carried),
# "i32"/"u32" = the low 32 bits as the signature's integer type
PROJ = {"unit": "zero", "struct": "zero", "dupfd": "zero", "sid": "zero", "fd": "i32", "flags": "i32",
        "pid": "i32", "plain_pid": "i32", "u32": "u32", "count_rw": "same", "count_int": "same", "reg": "same",
        "addr": "same", "off": "same", "pidu64": "same", "wpid": "i32", "errs": "zero"}
SUCC["pidu64"] = PIDS
# register values outside [-4095,-1] that do not fit the i32-typed result of descriptor / flag wrappers: the
# statement still demands Ok (Err exactly for [-4095,-1]); the carried value cannot be "unchanged", so these
# are judged on Ok-vs-Err (and panic) only
WIDE = [-4096, -4097, 2 ** 31, 2 ** 32 - 4095, 2 ** 32 - 1, 2 ** 32, 2 ** 47]
WIDE_KINDS = ("fd", "flags")


def W(nr, kind, real=(0,), forced_success=True):
    return dict(nr=nr, kind=kind, real=list(real), forced_success=forced_success)


# name -> expected system call (x86_64), result type from the signature, real-run variants.
# struct-out wrappers and accept/wait/io_uring_setup (kernel fills caller memory) get no forced successes.
TABLE = {
    "chdir": W(80, "unit"), "close": W(3, "unit"), "copy_file_range": W(326, "count_rw"),
    "dup2": W(292, "dupfd", real=(3, 15, 16, 17)), "dup3": W(292, "dupfd", real=(3, 15, 16, 17)),
    "dup3_nocloexec": W(292, "dupfd", real=(3, 15, 16, 17)),
    "fcntl_get_file_status": W(72, "flags"), "fcntl_set_file_status": W(72, "unit"),
    "fcntl_dupfd_cloexec": W(72, "fd", real=(3, 16)),
    "get_dents": W(217, "count_rw"), "get_uid": W(102, "u32"),
    "mkdir": W(258, "unit"), "mkdir_at": W(258, "unit"),
    "mmap": W(9, "addr"), "munmap": W(11, "unit"),
    "mount": W(165, "unit"), "mount_data": W(165, "unit"), "unmount": W(166, "unit"),
    "open": W(257, "fd", real=(0, 16)), "open_mode": W(257, "fd", real=(0, 16)),
    "open_at": W(257, "fd", real=(0, 16)), "open_at_mode": W(257, "fd", real=(0, 16)),
    "open_raw": W(257, "fd", real=(0, 16)),
    "pipe": W(293, "struct", forced_success=False), "pipe2": W(293, "struct", forced_success=False),
    "read": W(0, "count_rw"), "readv": W(19, "count_rw"),
    "rename": W(316, "unit"), "rename_flags": W(316, "unit"), "rename_at": W(316, "unit"),
    "rename_at2": W(316, "unit"),
    "lseek": W(8, "off"),
    "setgid": W(106, "unit"), "setpgid": W(109, "unit"), "setsid": W(112, "sid", real=(0, 1)),
    "setuid": W(105, "unit"),
    "stat": W(262, "struct", forced_success=False), "statat": W(262, "struct", forced_success=False),
    "stat_fd": W(262, "struct", forced_success=False),
    "swapon": W(167, "unit"), "uname": W(63, "struct", forced_success=False),
    "rmdir": W(263, "unit"), "unlink": W(263, "unit"), "unlink_flags": W(263, "unit"),
    "unlink_at": W(263, "unit"), "unshare": W(272, "unit"),
    "write": W(1, "count_rw"), "writev": W(20, "count_rw"),
    "accept_unix": W(288, "fd", real=(0, 16), forced_success=False),
    "accept_inet": W(288, "fd", real=(0, 16), forced_success=False),
    "bind_unix": W(49, "unit"), "bind_inet": W(49, "unit"),
    "connect_unix": W(42, "unit"), "connect_inet": W(42, "unit"),
    "listen": W(50, "unit"), "socket": W(41, "fd", real=(0, 16)),
    "get_unix_sock_name": W(51, "struct", forced_success=False),
    "get_inet_sock_name": W(51, "struct", forced_success=False),
    "sendmsg": W(46, "count_int"), "recvmsg": W(47, "count_int"),
    "fork": W(57, "pid", real=()), "clone": W(56, "pid", real=()), "clone3": W(435, "pidu64", real=()),
    "execve": W(59, "errs", forced_success=False),
    "get_pid": W(39, "plain_pid"),
    "wait_pid": W(61, "wpid", forced_success=False),
    "add_signal_action": W(13, "unit"),
    "ioctl": W(16, "reg"),
    "tcgetattr": W(16, "struct", forced_success=False), "tcsetattr": W(16, "unit"),
    "clock_get_time": W(228, "struct", real=(0, 1), forced_success=False),
    "nanosleep": W(35, "unit"), "nanosleep_same_ptr": W(35, "unit"), "nanosleep_rem": W(35, "unit"),
    "epoll_create": W(291, "fd", real=(0, 16)), "epoll_create_nocloexec": W(291, "fd", real=(0, 16)), "epoll_ctl": W(233, "unit"), "epoll_del": W(233, "unit"),
    "epoll_wait": W(281, "count_int"), "ppoll": W(271, "count_int"),
    "futex_wait": W(202, "unit"), "futex_wait_notimeout": W(202, "unit"), "futex_wake": W(202, "count_int"),
    "bulk_transfer": W(16, "count_int"), "claim_interface": W(16, "unit"), "reset_usb_device": W(16, "unit"),
    "release_interface": W(16, "unit"), "get_hid_dev_dev_info": W(16, "struct", forced_success=False),
    "io_uring_setup": W(425, "fd", real=(0, 16), forced_success=False),
    "io_uring_register_files": W(427, "unit"), "io_uring_register_io_slices": W(427, "unit"),
    "io_uring_register_buffers": W(427, "unit"), "io_uring_enter": W(426, "count_int"),
}
# public functions of rusl that contain a system call but are outside C09 (with the reason)
NOT_WRAPPERS = {
    "exit": "never returns", "setup_io_uring": "compound operation (C12/C18)",
    "clock_get_real_time": "no Result (ignores the register)", "clock_get_monotonic_time": "no Result",
    "empty": "UnlinkFlags constructor", "at_removedir": "UnlinkFlags constructor",
}
# second argument shape of the same public function (other branch inside the wrapper)
SOURCE_NAME = {"mount_data": "mount", "dup3_nocloexec": "dup3", "nanosleep_rem": "nanosleep",
               "epoll_create_nocloexec": "epoll_create", "futex_wait_notimeout": "futex_wait"}
# argument corner shapes of wrap_probe (forced mode only: the kernel never sees the odd arguments)
SHAPES = {0: "plain", 1: "equal-fds", 2: "fd-0", 3: "fd-i32max", 4: "empty-path", 5: "same-paths", 6: "empty-buffers",
          7: "zero-scalars", 8: "extreme-scalars"}
SHAPE_ERRNOS = [1, 4, 9, 11, 16, 22, 4095]
QUICK_ERRNOS = [1, 2, 4, 9, 11, 16, 22, 38, 133, 134, 511, 512, 516, 530, 4094, 4095]


def label(v):
    """value class used in signatures and distinct keys: named boundary values, small values literally,
    everything else by magnitude bucket (random domain values never put a seed-dependent number in a key)"""
    if v in LABEL:
        return LABEL[v]
    if -8192 <= v <= 8192:
        return str(v)
    if v < 0:
        return "ge2p63"
    for b in (31, 32, 47, 63):
        if v < 2 ** b:
            return "lt2p%d" % b
    return "big"


def random_values(rng, kind, n):
    """n seeded success values inside the kernel's domain for the result type (half of them hugging a boundary)"""
    out = []
    edges = {"off": [2 ** 31, 2 ** 32, 2 ** 47, 2 ** 63 - 1, -4096, -2 ** 63 + 2 ** 20],
             "reg": [2 ** 31, 2 ** 32, 2 ** 47, 2 ** 63 - 1, -4096, -2 ** 63 + 2 ** 20],
             "u32": [2 ** 31, 2 ** 32 - 1, 65536], "fd": [I32MAX, 65536], "flags": [I32MAX], "dupfd": [I32MAX, 65536],
             "count_int": [I32MAX, 65536], "count_rw": [0x7FFFF000, 65536]}
    for i in range(n):
        if kind in ("fd", "flags", "count_int", "dupfd"):
            v = rng.randint(0, I32MAX)
        elif kind == "count_rw":
            v = rng.randint(0, 0x7FFFF000)
        elif kind == "u32":
            v = rng.randint(0, 2 ** 32 - 1)
        elif kind in ("pid", "sid", "plain_pid", "pidu64"):
            v = rng.randint(1, 4194304)
        elif kind == "addr":
            v = rng.randint(0, 2 ** 52 - 1) << 12
            v = v - 2 ** 64 if v >= 2 ** 63 else v
        elif kind in ("off", "reg"):
            v = rng.randint(-2 ** 63, 2 ** 63 - 1)
        else:
            return out
        if i % 2 and kind in edges:
            v = rng.choice(edges[kind]) - rng.randint(0, 5000)
        if is_err(v):
            v = -4096 - rng.randint(0, 4096)
        out.append(v)
    return out


def errno_class(e):
    if e in (1, 4, 11, 16, 4095):
        return "errno-%d" % e
    if e <= 133:
        return "errno-defined"
    if 512 <= e <= 531:
        return "errno-kernel-internal"
    return "errno-undefined"


def is_err(r):
    return -4095 <= r <= -1


def project(kind, r):
    p = PROJ[kind]
    if p == "zero":
        return 0
    if p == "same":
        return r
    lo = r & 0xFFFFFFFF
    if p == "u32":
        return lo
    return lo - (1 << 32) if lo >= (1 << 31) else lo


def judge(name, mode, x, rets, out, shape=0):
    """rets: [(ret, injected, nr)] of every system call the calling thread made inside the case (markers excluded,
    whatever the number: which of several equivalent calls a wrapper uses is not judged); out: (kind, val, extra) reported by
    the probe or None when the case never reached END. Returns (violations [(sig, what)], inconclusive text)."""
    info = TABLE[name]
    row = name
    name = SOURCE_NAME.get(name, name)  # signatures name the public function, not the argument shape
    viol = []
    if not rets:
        if out is not None and out[0] == 3:
            return [], "probe could not build the arguments for %s" % row
        if out is None:
            return [], "%s: the probe stopped inside the case before any system call" % row
        return [("C09/%s/no-syscall-issued" % name,
                 "the wrapper answered %s(%d) without entering the kernel: no system call between the markers "
                 "(argument shape %s)" % (["Ok", "Err", "panic"][min(out[0], 2)], out[1], SHAPES[shape]))], None
    if mode == 0 and (rets[0][0] != x or not rets[0][1]):
        return [], "%s: sysmon did not force %d (log shows %r)" % (name, x, rets[0])
    nrs = sorted(set(t[2] for t in rets))
    if out is not None and out[0] == 2:
        # later system calls in the window belong to the panic runtime (the probe disarms the forcing in its hook)
        return [("C09/%s/panic" % name, "wrapper panicked on kernel result %d" % rets[0][0])], None
    for r, _inj, _nr in rets[:-1] if out is not None else rets[:FORCED_N]:
        if name in ("dup2", "dup3") and r == -EBUSY:
            continue  # the documented race: may repeat
        if is_err(r):
            viol.append(("C09/%s/reissue-on-errno-%d" % (name, -r), "another system call issued after error %d (numbers %s)" % (-r, nrs)))
        else:
            viol.append(("C09/%s/reissue-on-success-value-%s" % (name, label(r)),
                         "another system call issued after the successful result %d (numbers %s)" % (r, nrs)))
        break
    if out is None:
        return viol, None
    kind, val, extra = out
    r = rets[-1][0]
    if kind == 2:
        viol.append(("C09/%s/panic" % name, "wrapper panicked on kernel result %d" % r))
    elif kind == 3:
        return viol, "probe could not build the arguments for %s" % name
    elif is_err(r):
        if kind == 0:
            viol.append(("C09/%s/error-reported-as-success" % name, "kernel %d decoded as Ok(%d)" % (r, val)))
        elif extra == 1:
            viol.append(("C09/%s/errno-missing" % name, "kernel %d decoded as Err without code" % r))
        elif val == r:
            viol.append(("C09/%s/errno-not-negated" % name, "kernel %d decoded as Err(code %d)" % (r, val)))
        elif val != -r:
            viol.append(("C09/%s/errno-wrong" % name, "kernel %d decoded as Err(code %d)" % (r, val)))
    elif info["kind"] in WIDE_KINDS and not 0 <= r <= I32MAX:
        if kind == 1 and extra == 1 and not info["forced_success"]:
            return viol, "%s: Err without code on a forced wide result with unwritten out-parameters" % row
        if kind == 1:
            viol.append(("C09/%s/success-reported-as-error-wide-register" % name,
                         "kernel %d (outside [-4095,-1]) decoded as Err(code %d)" % (r, val)))
    else:
        want = project(info["kind"], r)
        if kind == 1:
            viol.append(("C09/%s/success-reported-as-error-%s" % (name, label(r)),
                         "kernel %d decoded as Err(code %d)" % (r, val)))
        elif val != want:
            viol.append(("C09/%s/success-value-changed-%s" % (name, label(r)),
                         "kernel %d decoded as Ok(%d), expected %d" % (r, val, want)))
    return viol, None


def parse_log(path, ids):
    """-> (finished {c: (w, mode, x, rets, out, others, shape)}, inflight (c, w, mode, x, rets, shape) or None)"""
    fin = {}
    cur = None
    try:
        f = open(path, "r", errors="replace")
    except OSError:
        return fin, None
    with f:
        for line in f:
            p = line.split(" ")
            try:
                if p[0] == "M":
                    k = int(p[4])
                    if k == 1:
                        w = int(p[5])
                        cur = dict(w=w, c=int(p[6]), mode=int(p[7]), x=int(p[8]), shape=int(p[9]), tid=p[3], rets=[],
                                   others=0)
                    elif k == 2 and cur is not None and int(p[6]) == cur["c"]:
                        fin[cur["c"]] = (cur["w"], cur["mode"], cur["x"], cur["rets"],
                                         (int(p[7]), int(p[8]), int(p[9])), cur["others"], cur["shape"])
                        cur = None
                elif p[0] == "S" and cur is not None and p[3] == cur["tid"]:
                    cur["rets"].append((int(p[11]), p[12].strip() == "i", int(p[4])))
            except (ValueError, IndexError):
                continue
    inflight = (cur["c"], cur["w"], cur["mode"], cur["x"], cur["rets"], cur["shape"]) if cur else None
    return fin, inflight


def run_shard(job):
    """Worker (own process): run the shard's cases under sysmon, resume after a case that hangs or crashes."""
    sid, flavour, probe, sysmon, cases, ids, wdir, timeout_s = job
    res = dict(evals=0, viol=[], incon=[], distinct=set(), samples={}, counts={}, reissue={}, per_wrapper={},
               pairs=set(), wall=0.0, observed={})
    cnt = res["counts"]

    def bump(k, n=1):
        cnt[k] = cnt.get(k, 0) + n

    def account(c, w, mode, x, rets, out, others, shape=0):
        name = ids[w]
        v, inc = judge(name, mode, x, rets, out, shape)
        if inc:
            res["incon"].append("%s case %s: %s" % (flavour, (name, "forced" if mode == 0 else "real", x), inc))
            return
        res["evals"] += 1
        r_last = rets[-1][0] if rets else None
        if rets:
            res["observed"].setdefault(name, set()).add(rets[0][2])
            res["distinct"].add("%s/nr-%d" % (name, rets[0][2]))
        pw = res["per_wrapper"].setdefault(name, [0, 0, 0, 0, 0])
        if mode == 0 and shape:
            bump("corner_shape_cases")
            pw[4] += 1
            res["distinct"].add("%s/shape-%s/%s" % (name, SHAPES[shape], "errno" if is_err(x) else "ok"))
            res["pairs"].add((w, x))
        elif mode == 0:
            if is_err(x):
                bump("forced_error_cases")
                pw[0] += 1
                res["distinct"].add("%s/%s" % (name, errno_class(-x)))
            else:
                bump("forced_success_cases")
                pw[1] += 1
                wide = TABLE[name]["kind"] in WIDE_KINDS and not 0 <= x <= I32MAX
                if wide:
                    bump("forced_wide_register_cases")
                res["distinct"].add("%s/%s-%s" % (name, "wide" if wide else "ok", label(x)))
            res["pairs"].add((w, x))
        else:
            bump("real_cases")
            if r_last is not None and is_err(r_last):
                bump("real_kernel_errors")
                pw[3] += 1
                res["distinct"].add("%s/real-errno" % name)
            else:
                bump("real_kernel_successes")
                pw[2] += 1
                res["distinct"].add("%s/real-ok%s" % (name, "-16" if r_last == 16 else ""))
        if len(rets) > 1:
            bump("cases_with_reissue")
            key = "%s/%s" % (name, label(rets[0][0]))
            res["reissue"][key] = max(res["reissue"].get(key, 0), len(rets))
        case = dict(wrapper=name, build=flavour, mode="forced" if mode == 0 else "real", arguments=SHAPES[shape],
                    forced_result=x if mode == 0 else None, variant=x if mode else None,
                    syscall_numbers=sorted(set(t[2] for t in rets)), issued=[t[0] for t in rets[:3]] + (["... %d issues" % len(rets)] if len(rets) > 3 else []),
                    reported=None if out is None else dict(kind=["Ok", "Err", "panic", "setup"][out[0]],
                                                           value=out[1], extra=out[2]))
        for sig, what in v:
            res["viol"].append((sig, dict(case, what=what, replay_cases=[[name, mode, x, shape]])))
        cls = "viol" if v else ("real" if mode else ("shape" if shape else ("ferr" if is_err(x) else "fok")))
        bucket = res["samples"].setdefault(cls, [])
        if len(bucket) < 6 and (v or c % 13 == 0 or shape or (mode == 0 and not is_err(x) and abs(x) > 4096)):
            bucket.append(case)

    remaining = list(cases)
    t0 = time.time()
    attempt = 0
    while remaining and attempt < 8:
        attempt += 1
        cfile = os.path.join(wdir, "cases-%s-%d-%d.txt" % (flavour, sid, attempt))
        log = os.path.join(wdir, "log-%s-%d-%d.txt" % (flavour, sid, attempt))
        with open(cfile, "w") as f:
            for c, w, mode, x, shape in remaining:
                f.write("%d %d %s %d %d\n" % (w, c, "F" if mode == 0 else "R", x, shape))
        cmd = syslog.sysmon_cmd(log, [probe, "run"], timeout_s=timeout_s, idle_ms=0, scope_markers=True,
                                sysmon=sysmon)
        try:
            with open(cfile, "rb") as fin:
                p = subprocess.run(cmd, stdin=fin, stdout=subprocess.PIPE, stderr=subprocess.PIPE,
                                   timeout=timeout_s + 30)
            rc, errtxt = p.returncode, p.stderr.decode("utf-8", "replace")[-300:]
        except subprocess.TimeoutExpired:
            rc, errtxt = -1, "driver timeout"
        fin, inflight = parse_log(log, ids)
        for c, (w, mode, x, rets, out, others, shape) in fin.items():
            account(c, w, mode, x, rets, out, others, shape)
        try:
            os.unlink(log)
            os.unlink(cfile)
        except OSError:
            pass
        order = [t[0] for t in remaining]
        if rc == 0 and all(c in fin for c in order):
            remaining = []
            break
        # something stopped the shard: find the case in flight and continue behind it
        if inflight is not None:
            c, w, mode, x, rets, shape = inflight
            if len(rets) > FORCED_N:
                account(c, w, mode, x, rets, None, 0, shape)  # still re-issuing after the fuse: judged on the log
                bump("cases_cut_by_watchdog")
                # the wrapper loops without end for this kind of result: its other cases would only repeat that
                pos = order.index(c) + 1
                same = [t for t in remaining[pos:] if t[1] == w and t[2] == mode and is_err(t[3]) == is_err(x)]
                if same:
                    bump("cases_skipped_after_endless_loop", len(same))
                    drop = set(t[0] for t in same)
                    remaining = [t for t in remaining if t[0] not in drop]
                    order = [t[0] for t in remaining]
            else:
                res["incon"].append("%s: case %s stopped the probe (sysmon rc=%s %s)"
                                    % (flavour, (ids[w], mode, x), rc, errtxt.strip()[-160:]))
            cut = order.index(c) + 1 if c in order else len(order)
        else:
            done = [i for i, c in enumerate(order) if c in fin]
            cut = (max(done) + 1) if done else 0
            if cut < len(order):
                c, w, mode, x, _shape = remaining[cut]
                res["incon"].append("%s: probe stopped before case %s (sysmon rc=%s %s)"
                                    % (flavour, (ids[w], mode, x), rc, errtxt.strip()[-160:]))
                cut += 1
        remaining = remaining[cut:]
    if remaining:
        res["incon"].append("%s shard %d: %d cases not run after %d restarts" % (flavour, sid, len(remaining), attempt))
    res["wall"] = time.time() - t0
    return res


def scan_source():
    """Public functions of rusl whose file issues system calls: the set the table must cover."""
    root = os.path.join(vlib.REPO, "rusl", "src")
    found = {}
    for d, _dirs, files in os.walk(root):
        rel = os.path.relpath(d, root)
        if rel.startswith("platform") or rel.startswith("string"):
            continue
        for fn in files:
            if not fn.endswith(".rs") or fn in ("test.rs", "verif.rs", "macros.rs"):
                continue
            txt = open(os.path.join(d, fn), errors="replace").read()
            txt = re.split(r"#\[cfg\(test\)\]\s*mod \w+\s*\{", txt)[0]
            if "syscall!(" not in txt and "ioctl(" not in txt:
                continue
            for m in re.finditer(r"^\s*pub (?:unsafe )?(?:const )?fn (\w+)", txt, re.M):
                found[m.group(1)] = os.path.join(rel, fn)
    return found


def build_cases(ck, ids, quick, only=None, shapes=None):
    cases = []
    rng = vlib.rng(ck.seed, "c09")
    sample = os.environ.get("C09_ERRNO_SAMPLE")  # debugging aid: a seeded sample instead of the whole range
    for w, name in enumerate(ids):
        info = TABLE[name]
        if only is not None:
            continue
        if sample:
            es = set(QUICK_ERRNOS)
            pool = [e for e in range(1, 4096) if e not in es]
            es.update(rng.sample(pool, max(0, int(sample) - len(es))))
            errnos = sorted(es)
        else:
            errnos = range(1, 4096)
        if info["kind"] != "plain_pid":
            for e in errnos:
                cases.append((w, 0, -e, 0))
        if info["kind"] in WIDE_KINDS:
            for v in WIDE:
                cases.append((w, 0, v, 0))
        if info["forced_success"]:
            vals = list(SUCC[info["kind"]])
            vals += [v for v in random_values(rng, info["kind"], 32 if quick else 2048) if v not in vals]
            for v in vals:
                cases.append((w, 0, v, 0))
        for var in info["real"]:
            cases.append((w, 1, var, 0))
        # argument corner shapes: a few errnos and every success class of the result type, forced
        for sh in (shapes or {}).get(name, ()):
            if info["kind"] != "plain_pid":
                for e in SHAPE_ERRNOS:
                    cases.append((w, 0, -e, sh))
            if info["kind"] in WIDE_KINDS:
                cases.append((w, 0, -4096, sh))
            if info["forced_success"]:
                for v in SUCC[info["kind"]]:
                    cases.append((w, 0, v, sh))
    if only is not None:
        for t in only:
            cases.append((ids.index(t[0]), int(t[1]), int(t[2]), int(t[3]) if len(t) > 3 else 0))
    return cases


def collapse(viol):
    """Many value-specific signatures of one wrapper and one kind are one defect: fold them."""
    groups = {}
    for sig, det in viol:
        m = re.match(r"(C09/\w+/(?:reissue-on-errno|success-reported-as-error|success-value-changed))-(.+)$", sig)
        key = m.group(1) if m else sig
        groups.setdefault(key, {}).setdefault(sig, []).append(det)
    out = []
    for key, sigs in groups.items():
        if len(sigs) > 4:
            first = next(iter(sigs.values()))[0]
            out.append((key, dict(first, folded_signatures=sorted(sigs)[:40])))
        else:
            for sig, dets in sigs.items():
                out.append((sig, dict(dets[0], occurrences=len(dets))))
    # the same failure in more than 8 wrappers is one defect in the shared decoding helper
    by_what = {}
    for sig, det in out:
        by_what.setdefault(sig.split("/", 2)[2], []).append((sig, det))
    folded = []
    for what, lst in by_what.items():
        if len(lst) > 8:
            folded.append(("C09/shared-decoder/%s" % what,
                           dict(lst[0][1], wrappers=sorted(sg.split("/")[1] for sg, _ in lst))))
        else:
            folded += lst
    return folded


def setup():
    vlib.cargo_build(PROBE, "wrap_probe-debug", bins=["wrap_probe"])
    syslog.sysmon_bin()


def run(ck, replay=None):
    quick = ck.tier == "quick"
    sysmon = syslog.sysmon_bin()
    flavours = [("debug", os.path.join(vlib.cargo_build(PROBE, "wrap_probe-debug", bins=["wrap_probe"]), "wrap_probe"))]
    if not quick:
        flavours.append(("release", os.path.join(
            vlib.cargo_build(PROBE, "wrap_probe-release", bins=["wrap_probe"], release=True), "wrap_probe")))
    # identifiers come from the probe; names, numbers must agree with the table above
    lst = vlib.run_one([flavours[0][1], "list"], timeout=60)
    ids = []
    shapes = {}
    for line in lst["out"].splitlines():
        i, name, nr, sh = line.split()
        shapes[name] = [int(t) for t in sh.split(",")] if sh != "-" else []
        if any(t not in SHAPES or t == 0 for t in shapes[name]):
            raise RuntimeError("wrap_probe announces an unknown argument shape: %r" % line)
        if name not in TABLE or TABLE[name]["nr"] != int(nr) or int(i) != len(ids):
            raise RuntimeError("wrap_probe table and checks/c09.py disagree on %r" % line)
        ids.append(name)
    if set(ids) != set(TABLE):
        raise RuntimeError("wrappers missing in wrap_probe: %s" % sorted(set(TABLE) - set(ids)))
    src = scan_source()
    for fn, where in sorted(src.items()):
        if fn not in TABLE and fn not in NOT_WRAPPERS:
            ck.note_inconclusive("public function %s (%s) issues a system call but is not in the C09 table" % (fn, where))
    for name in TABLE:
        if SOURCE_NAME.get(name, name) not in src:
            ck.note_inconclusive("table entry %s not found in the rusl sources" % name)

    only = None
    if replay:
        det = json.load(open(replay)).get("detail", {})
        only = det.get("replay_cases") or []
    cases = build_cases(ck, ids, quick, only, shapes)
    numbered = [(c, w, mode, x, sh) for c, (w, mode, x, sh) in enumerate(cases)]
    nshard = max(1, min(vlib.NCPU, len(numbered) // 50 or 1))
    wdir = "/tmp/c09-%d" % os.getpid()
    shutil.rmtree(wdir, ignore_errors=True)
    os.makedirs(wdir)
    jobs = []
    for flav, probe in flavours:
        for s in range(nshard):
            jobs.append((s, flav, probe, sysmon, numbered[s::nshard], ids, wdir, 120 if quick else 600))
    results = []
    try:
        with concurrent.futures.ProcessPoolExecutor(max_workers=vlib.NCPU) as ex:
            for r in ex.map(run_shard, jobs):
                results.append(r)
    finally:
        shutil.rmtree(wdir, ignore_errors=True)
        for d in os.listdir("/tmp"):  # directories of probes that were killed
            if d.startswith("c09-probe-") and not os.path.exists("/proc/%s" % d[10:]):
                shutil.rmtree(os.path.join("/tmp", d), ignore_errors=True)

    viol = []
    per_wrapper = {}
    reissue = {}
    observed = {}
    pairs = set()
    for r in results:
        ck.add_eval(r["evals"])
        for k, n in r["counts"].items():
            ck.count(k, n)
        for d in r["distinct"]:
            ck.note_distinct(d)
        for t in r["incon"]:
            ck.note_inconclusive(t)
        viol += r["viol"]
        for name, v in r["per_wrapper"].items():
            a = per_wrapper.setdefault(name, [0, 0, 0, 0, 0])
            for i in range(5):
                a[i] += v[i]
        for k, n in r["reissue"].items():
            reissue[k] = max(reissue.get(k, 0), n)
        for name, nrs in r["observed"].items():
            observed.setdefault(name, set()).update(nrs)
        pairs |= r["pairs"]
    # samples: violating cases, then forced errors / forced successes / real calls in turn, distinct wrappers
    seen = set()
    pools = {cls: [s for r in results for s in r["samples"].get(cls, [])]
             for cls in ("viol", "ferr", "fok", "shape", "real")}
    for rnd in range(6):
        for cls in ("viol", "ferr", "fok", "shape", "real"):
            for s in pools[cls]:
                k = (s["wrapper"], cls)
                if k not in seen:
                    seen.add(k)
                    ck.sample(s)
                    break
    for sig, det in collapse(viol):
        ck.violation(sig, det)

    covered = sorted(n for n, v in per_wrapper.items() if sum(v))
    ck.count("wrapper_rows_covered", len(covered))
    ck.count("public_functions_covered", len(set(SOURCE_NAME.get(n, n) for n in covered)))
    ck.count("wrapper_value_pairs", len(pairs))
    ck.extra["wrappers"] = covered
    ck.extra["per_wrapper_cases"] = {n: dict(forced_errors=v[0], forced_successes=v[1], real_successes=v[2],
                                             real_errors=v[3], corner_shape_cases=v[4]) for n, v in sorted(per_wrapper.items())}
    ck.extra["reissue_max_issues"] = reissue
    # the table's number is informational: a wrapper may use any equivalent system call
    ck.extra["observed_syscall_numbers"] = {n: sorted(v) for n, v in sorted(observed.items())}
    differs = {n: dict(expected=TABLE[n]["nr"], observed=sorted(v)) for n, v in sorted(observed.items())
               if v != {TABLE[n]["nr"]}}
    if differs:
        ck.extra["syscall_number_differs_from_table_note"] = differs
    ck.extra["argument_shapes"] = {n: [SHAPES[t] for t in v] for n, v in sorted(shapes.items()) if v}
    ck.count("wrapper_argument_shapes", sum(1 + len(v) for v in shapes.values()))
    ck.extra["builds"] = [f for f, _ in flavours]
    ck.extra["shard_wall_s_max"] = round(max([r["wall"] for r in results] or [0]), 1)
    no_real_ok = sorted(n for n, i in TABLE.items() if not i["forced_success"] and i["kind"] != "errs"
                        and per_wrapper.get(n, [0, 0, 0, 0, 0])[2] == 0)
    if no_real_ok and not replay:
        ck.extra["no_success_observed"] = no_real_ok
    want_err = sum(4095 for n in TABLE if TABLE[n]["kind"] != "plain_pid")
    full = (not replay and not os.environ.get("C09_ERRNO_SAMPLE") and
            all(per_wrapper.get(n, [0])[0] == 4095 * len(flavours) for n in TABLE if TABLE[n]["kind"] != "plain_pid"))
    ck.exhaustive = bool(full)
    ck.extra["errno_range_exhaustive"] = bool(full)
    ck.extra["errno_cases_for_exhaustive_run"] = want_err
    ck.assume("the forcing is number-agnostic: inside a case every non-marker system call of the calling thread is the "
              "wrapper's (the first one is forced, all are counted); the table's system call number is informational, a "
              "different observed number is an evidence note, never a violation; no wrapper at HEAD makes more than one call")
    ck.assume("sysmon (ptrace) suppresses the system call and writes the forced value into the return register; "
              "the first forced value of every case is cross-checked against the log")
    ck.assume("value-compared success values are limited to what the kernel can return for the call's result type; "
              "wrappers whose result is written by the kernel into caller memory get forced errors, real successes and "
              "(descriptor-typed ones) wide-register results judged on Ok-vs-Err only")
    ck.assume("argument corner shapes (equal / 0 / i32::MAX descriptors, empty paths and buffers, zero and extreme "
              "scalars) are only run with forced results, so the kernel never acts on them; a wrapper that answers "
              "without a system call of the expected number is a violation (no-syscall-issued)")
    ck.assume("dup2/dup3 may repeat the call after EBUSY, nothing else may issue a second system call")
    ck.assume("excluded: exit, rt_sigreturn (never return), setup_io_uring (compound, C12/C18), "
              "clock_get_real_time/clock_get_monotonic_time (no Result)")
    return ("for each of the %d public wrappers (%d rows with second argument shapes): forced kernel results -e for %s, every success class of the result type "
            "(0, small values incl. 16, 4095/4096, type maximum, 2^31..2^63 and -4096/-4097 for register-wide types) plus "
            "seeded random values of the type's kernel domain, for descriptor/flag-typed wrappers also register values that "
            "do not fit i32 (-4096, -4097, 2^31, 2^32-4095, 2^32-1, 2^32, 2^47; judged on Ok-vs-Err only), "
            "the same forced decode (7 errnos + every success class) for each argument corner shape the signature allows "
            "(equal descriptors, descriptor 0 / i32::MAX, empty path, equal paths, empty buffers, zero / extreme scalars), "
            "and real calls on harmless arguments (descriptor 16 provoked for descriptor-returning calls, dup targets "
            "3/15/16/17); each case judged on the logged return values of all system calls of the calling thread between its markers, "
            "whatever their number "
            "(count of issues, Err/Ok, code, value); distinct = (wrapper, errno class | success value class | real outcome | shape x err/ok); the exhaustive flag refers to the "
            "(wrapper, errno) fault space, success values are classes plus seeded samples"
            % (len(set(SOURCE_NAME.get(n, n) for n in TABLE)), len(TABLE), "every errno 1..=4095 (debug build)" if quick else "every errno 1..=4095 (debug and release build)"))
