"""C05: closure runs once; join awaits exit and returns the value / None on panic; spawn fails cleanly.
Oracles: in-probe monitors of thread_probe (run counters, tagged results, plain-memory visibility buffer)
in three link modes, sysmon process/thread log (one exit per clone, join-vs-exit orders actually seen),
sysmon fault injection into every system call spawn performs (read from an un-injected traced run) with a
logical hang certificate; futex-hook scenarios for early wake-ups and for the thread exiting inside the wait's window."""
import os

import syslog
import threadprobe as tp
import vlib

LEVEL = "fault_enumeration"


def setup():
    syslog.sysmon_bin()
    for m, r in tp.flavours(True):
        tp.build(m, r)


def run(ck, replay=None):
    quick = ck.tier == "quick"
    syslog.sysmon_bin()
    exes = [(m, r, tp.build(m, r)) for m, r in tp.flavours(quick)]
    n_cells = 150 if quick else 400
    n_mixed = 1500 if quick else 6000
    jobs, meta = [], []
    # which system calls does spawn perform? (read from an un-injected traced run, per flavour; every one of
    # them is then refused in turn - the list is not fixed to today's mmap + clone)
    spawn_calls = tp.discover_spawn_calls(exes, ck.seed, "c05")
    # and which does the finishing THREAD perform after its closure returned (e.g. the munmap of its own stack)?
    exit_calls = tp.discover_exit_calls(exes, ck.seed, "c05")
    # thorough repeats the whole matrix at several seeds: the interleavings seen differ from run to run
    reps = 1 if quick else 6
    for i, (m, r, exe) in [(i + 5000 * rep, f) for rep in range(reps) for i, f in enumerate(exes)]:
        jobs.append(tp.native_job(exe, "cells", ck.seed + i, n_cells, timeout=150 if quick else 1800))
        meta.append(("native", m, r, "cells", None))
        jobs.append(tp.native_job(exe, "mixed", ck.seed + 100 + i, n_mixed, timeout=150 if quick else 1800))
        meta.append(("native", m, r, "mixed", None))
        # same mixture with the monitor's quarantine off: freed join states are re-used at once, so a stale kernel
        # or runtime pointer into a freed join state hits the NEXT thread's join word / result
        jobs.append(tp.native_job(exe, "mixed", ck.seed + 120 + i, n_mixed, quar=0, timeout=150 if quick else 1800))
        meta.append(("native", m, r, "mixed", None))
        # the kernel may end any futex wait early (EINTR, or a wake-up meant for an earlier user of the word):
        # injected at the futex hook while joins really park
        for scen in ("spurious_eintr", "spurious_wake", "exit_window"):
            jobs.append(tp.native_job(exe, scen, ck.seed + 150 + i, 150 if quick else 400, timeout=150 if quick else 1800))
            meta.append(("native", m, r, scen, None))
        # traced run: thread/exit accounting and observed orders
        log = tp.tmp_log("c05-cells")
        jobs.append(tp.sysmon_job(exe, "cells", ck.seed + 200 + i, 25 if quick else 40, log, timeout_s=90 if quick else 600, entries=True))
        meta.append(("sysmon", m, r, "cells", log))
        if i >= 5000:
            continue    # the refusal positions are enumerated once per flavour, not per repetition
        # a closure that panics while printing (print lock held by the dying thread): join must still return None
        log = tp.tmp_log("c05-panicprint")
        jobs.append(tp.sysmon_job(exe, "panic_in_print", ck.seed + 250 + i, 3, log, timeout_s=8))
        meta.append(("sysmon", m, r, "panic_in_print", log))
        ecalls = exit_calls.get((m, r))
        if ecalls is None:
            ck.note_inconclusive("%s/%s: the finishing thread's system calls could not be read from the un-injected run" % (m, "release" if r else "debug"))
        else:
            ck.extra.setdefault("thread_exit_system_calls", {})["%s/%s" % (m, "release" if r else "debug")] = \
                ["%s#%d" % (syslog.NAME.get(nr, nr), occ) for nr, occ in ecalls]
            for nr, occ in ecalls:
                log = tp.tmp_log("c05-exitfault")
                jobs.append(tp.sysmon_job(exe, "exit_fault_nr", ck.seed + 400 + i, nr, log, timeout_s=8, extra=(occ,)))
                meta.append(("sysmon", m, r, "exitfault:%d:%d" % (nr, occ), log))
        calls = spawn_calls.get((m, r))
        if not calls:
            ck.note_inconclusive("%s/%s: spawn's system calls could not be read from the un-injected run" % (m, "release" if r else "debug"))
            continue
        ck.extra.setdefault("spawn_system_calls", {})["%s/%s" % (m, "release" if r else "debug")] = \
            ["%s#%d" % (syslog.NAME.get(nr, nr), occ) for nr, occ in calls]
        for nr, occ in calls:
            log = tp.tmp_log("c05-fault")
            jobs.append(tp.sysmon_job(exe, "fault_nr", ck.seed + 300 + i, nr, log, timeout_s=8, extra=(occ,)))
            meta.append(("sysmon", m, r, "fault:%d:%d" % (nr, occ), log))
    if not quick:
        for k in range(8):
            m, r, exe = exes[k % len(exes)]
            jobs.append(tp.native_job(exe, "mixed", ck.seed + 1000 + k, n_mixed, timeout=1800))
            meta.append(("native", m, r, "mixed", None))
    res = vlib.run_parallel(jobs)
    orders = dict(exit_before_join=0, join_parked_then_woken=0, handle_side_release=0, thread_side_release=0)
    # a crash in a run with injected early wake-ups is blamed on them only if the same flavour survives without
    crashed_plain = {(m, r) for (how, m, r, scen, log), rr in zip(meta, res)
                     if how == "native" and not scen.startswith("spurious") and rr["rc"] is not None and rr["rc"] < 0}
    for (how, m, r, scen, log), rr in zip(meta, res):
        label = "%s %s/%s %s" % (how, m, "release" if r else "debug", scen)
        text = tp.filter_lines(rr["out"], "C05")
        rr2 = dict(rr, out=text)
        if how == "native":
            if scen.startswith("spurious"):
                # a join that ends because the wait returned early is named after its cause
                cause = "EINTR" if scen == "spurious_eintr" else "spurious-futex-wake"
                crashed = rr["rc"] is not None and rr["rc"] < 0
                early = "@@VIOL C05/" in text or (crashed and (m, r) not in crashed_plain)
                if crashed and not early:
                    ck.violation("C05/probe-crash/%s" % scen, dict(label=label, signal=-rr["rc"], stderr=rr["err"][-800:]))
                    continue
                text = "\n".join(l for l in text.splitlines() if not l.startswith("@@VIOL"))
                rr2 = dict(rr, out=text, rc=0 if early else rr["rc"])
                if early:
                    ck.violation("C05/join/returns-early-on-%s" % cause,
                                 dict(label=label, probe_output_tail=rr["out"][-700:], exit=rr["rc"]))
            if rr["rc"] is not None and rr["rc"] < 0 and not scen.startswith("spurious"):
                ck.violation("C05/probe-crash/%s" % scen, dict(label=label, signal=-rr["rc"], stderr=rr["err"][-800:]))
            elif ck.consume_result(rr2, label):
                ck.note_distinct("flavour/%s/%s/%s" % (m, "release" if r else "debug", scen))
            continue
        evs = syslog.parse(log)
        try:
            os.unlink(log)
        except OSError:
            pass
        if scen.startswith("exitfault"):
            # the closure has run and produced its value; a call of the finishing thread was refused afterwards
            ck.consume(text, context=label)
            nr, occ = [int(x) for x in scen.split(":")[1:]]
            cname = str(syslog.NAME.get(nr, nr)) + ("" if occ == 0 else "#%d" % occ)
            injected = [e for e in evs if e.k == "S" and e.inj and e.nr == nr]
            ck.count("thread_exit_faults_injected", len(injected))
            joins = [e for e in evs if e.k == "M" and e.kind == syslog.MARK["REPORT"] and e.a[0] == 82]
            if rr["rc"] is not None and rr["rc"] >= 128 and rr["rc"] not in (124, 125):
                ck.violation("C05/probe-crash/thread-exit-%s-refused" % cname,
                             dict(label=label, exit_status=rr["rc"], signal=rr["rc"] - 128, faults_injected=len(injected),
                                  joins_returned_before_crash=len(joins), probe_output_tail=rr["out"][-400:]))
            elif rr["rc"] == 1 and "Main thread panicked" in rr["err"] and "/verif/probes/" not in rr["err"].split("Main thread panicked", 1)[1][:200]:
                ck.violation("C05/join/panic-after-thread-exit-%s-refused" % cname,
                             dict(label=label, panic=rr["err"].split("Main thread panicked", 1)[1][:300]))
            elif rr["rc"] == 124 or rr["timed_out"]:
                ck.note_inconclusive("%s: watchdog fired (%d of 3 joins returned)" % (label, len(joins)))
            elif rr["rc"] != 0:
                ck.note_inconclusive("%s: exit status %s" % (label, rr["rc"]))
            elif not injected:
                ck.note_inconclusive("%s: no refusal was delivered" % label)
            else:
                ck.note_distinct("exitfault/%s/%s/joined-with-value" % (cname, m))
            continue
        if scen.startswith("fault"):
            ck.consume(text, context=label)
            nr, occ = [int(x) for x in scen.split(":")[1:]]
            cname = str(syslog.NAME.get(nr, nr)) + ("" if occ == 0 else "#%d" % occ)
            scen = "fault_" + cname
            reports = [e for e in evs if e.k == "M" and e.kind == syslog.MARK["REPORT"] and e.a[0] == 77]
            injected = [e for e in evs if e.k == "S" and e.inj and e.nr == nr]
            for e in injected:
                ck.count("faults_injected")
            if len(injected) < len(reports):
                ck.note_inconclusive("%s: %d refusals asked for, %d delivered" % (label, len(reports), len(injected)))
            for e in reports:
                pos, err_at = e.a[1], e.a[2]
                ck.add_eval(1)
                ck.note_distinct("fault/%s/pos%d/%s" % (scen, pos, m))
                ck.sample(dict(scenario=scen, flavour=label, injected_position=pos, spawn_err_at=err_at))
                if err_at != pos:
                    ck.count("spawn_ok_despite_failed_syscall")
            cert = tp.hang_certificate(evs)
            if cert:
                ck.violation("C05/spawn/ok-despite-failed-%s/join-never-returns" % cname,
                             dict(label=label, certificate=cert))
            elif rr["rc"] == 124 or rr["timed_out"]:
                ck.note_inconclusive("%s: watchdog fired without a hang certificate" % label)
            elif rr["rc"] is not None and rr["rc"] >= 128 and rr["rc"] not in (124, 125):
                # the probe died from a signal while spawn was handling the refused system call
                ck.violation("C05/spawn/crash-on-failed-%s" % cname,
                             dict(label=label, exit_status=rr["rc"], signal=rr["rc"] - 128,
                                  faults_injected=len(injected), probe_output_tail=rr["out"][-400:]))
            elif rr["rc"] == 1 and "Main thread panicked" in rr["err"] and "/verif/probes/" not in rr["err"].split("Main thread panicked", 1)[1][:200]:
                # tiny-std's own panic handler: a panic inside repository code while spawn handles the refusal
                ck.violation("C05/spawn/panic-on-failed-%s" % cname,
                             dict(label=label, panic=rr["err"].split("Main thread panicked", 1)[1][:300]))
            elif rr["rc"] != 0:
                ck.note_inconclusive("%s: exit status %s" % (label, rr["rc"]))
            else:
                # spawn said Ok although one of its calls was refused, the run ended normally and the probe's
                # own oracles (closure ran once, join returned its value) raised nothing: the refused call was
                # not needed for creating the thread (e.g. a best-effort mprotect of a guard page). The statement
                # only forbids a handle whose thread does not exist; that case ends in the branches above.
                for e in reports:
                    if e.a[2] != e.a[1]:
                        ck.count("refused_call_tolerated_thread_ran_and_joined")
                        ck.note_distinct("fault/%s/tolerated" % scen)
            continue
        if scen == "panic_in_print":
            ck.consume(text, context=label)
            cert = tp.hang_certificate(evs)
            if cert:
                ck.violation("C05/join/never-returns-after-panic-inside-print", dict(label=label, certificate=cert))
            elif rr["rc"] == 124 or rr["timed_out"]:
                ck.note_inconclusive("%s: watchdog fired without a hang certificate" % label)
            elif rr["rc"] is not None and rr["rc"] >= 128 and rr["rc"] not in (124, 125):
                ck.violation("C05/probe-crash/panic_in_print", dict(label=label, exit_status=rr["rc"]))
            elif rr["rc"] != 0:
                ck.note_inconclusive("%s: exit status %s" % (label, rr["rc"]))
            else:
                ck.note_distinct("flavour/%s/%s/panic_in_print" % (m, "release" if r else "debug"))
            continue
        # traced cells run
        if not ck.consume_result(rr2, label):
            continue
        threads, _ = tp.thread_lifecycle(evs)
        spawned = [t for t in threads.values() if t["spawned"]]
        ck.count("traced_threads", len(spawned))
        for t in spawned:
            if not t["exited"]:
                ck.violation("C05/thread-never-exited", dict(label=label, tid=t["tid"]))
        oc = tp.order_classes(evs, threads)
        for k, v in oc.items():
            orders[k] += v
            if v:
                ck.note_distinct("order/%s" % k)
    ck.extra["observed_orders"] = orders
    ck.assume("join's visibility relies on the kernel's clear-child-tid store being observed with a Relaxed load; on x86-64 this cannot be seen failing; aarch64 paths (__clone, _start) are not executed")
    ck.assume("a hang is only reported with a logical certificate (single remaining thread parked in futex wait on the join word); watchdog alone is inconclusive")
    return ("thread_probe (no-libc, three link modes) runs the 6 disposition x 2 outcome cells over the result-layout family, "
            "random mixtures with up to 512 live threads, spawn with sysmon refusing each system call spawn performs (list read from an "
            "un-injected traced run) at first, middle, last position, each call the finishing thread makes after its closure returned "
            "(munmap of its own stack; list read the same way) refused with join still owed the value, joins/drops whose futex wait is ended early or entered after the "
            "thread has exited; per thread: run counter == 1, tagged result, plain buffer written before return must be visible after join; "
            "distinct = (cell, outcome, layout), flavours, fault positions and observed join-vs-exit orders")
