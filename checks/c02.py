"""C02: tiny-std RwLock - writer exclusion, reader sharing, visibility, no lost wake-up for any
reader/writer mix, try_read/try_write never block and succeed only when the lock state admits them.
Oracles and workload: engines/h_locks (harness) + engines/h_locks/driver.py (Miri, native, TSan).
Each native process also runs the reader-count boundary battery (reader_limit_battery in the harness):
signatures C02/reader-limit/{admitted-beyond-max,try-write-admitted-with-readers,count-not-restored,count-drift}."""
import os
import sys

import vlib

sys.path.insert(0, os.path.join(vlib.VERIF, "engines", "h_locks"))
import driver  # noqa: E402

MIN_DISTINCT = 10


def setup():
    driver.setup()


def run(ck, replay=None):
    return driver.run(ck, "rw", replay)
