"""C11: UnixStr find / find_buf / match_up_to(_str) / ends_with / path_join(_fmt) / parent_path /
path_file_name agree with their byte-string definitions; no panic, no out-of-bounds read.

Oracle: naive references over &[u8] (content without the terminator; h_unixstr::refm, ~100 lines)
compared per case under catch_unwind (harness bin c11 of engines/h_unixstr); Miri and ASan watch the
same generator for reads outside the operands (operands live in allocations of exactly their size)."""
import os

import vlib
from checks import c10 as common

CRATE = common.CRATE
GROUPS = ["find", "match", "matchstr,tight", "ends", "path", "bytes"]


def setup():
    common.build_all()
    vlib.run_one(**common.miri_job("c11", ["noop"], 1800))


def run(ck, replay=None):
    if replay:
        return common.replay_case(ck, replay, "c11", ("self_hex", "other_hex"))
    quick = ck.tier == "quick"
    b = common.build_all()
    seed = ck.seed
    jobs = []

    def add(kind, label, job):
        jobs.append((label, kind, job))

    # ---- native: all pairs over {a,b,'/','.'} up to length L, path chains on all strings up to U
    if quick:
        plan = [("debug", 5, 8, 4), ("release", 5, 8, 4)]       # (profile, L, U, shards)
        rand_n, rand_sh = 12000, 4
    else:
        plan = [("debug", 6, 10, 16), ("release", 7, 10, 32)]
        rand_n, rand_sh = 60000, 16
    for prof, L, U, nsh in plan:
        exe = os.path.join(b[prof], "c11")
        for i in range(nsh):
            add("native", "%s exh L=%d U=%d shard=%d/%d" % (prof, L, U, i, nsh),
                dict(argv=[exe, "exh", str(seed), "0", str(L), str(nsh), str(i), "find,match,matchstr,ends,path,bytes", str(U)],
                     timeout=7000))
        for i in range(rand_sh):
            add("native", "%s rand seed=%d" % (prof, seed * 1000 + i),
                dict(argv=[exe, "rand", str(seed * 1000 + i), str(rand_n), "8192"], timeout=7000))
    # ---- ASan: one job per operation group (the first report ends a process)
    if b.get("asan"):
        exe = os.path.join(b["asan"], "c11")
        L, U = (4, 7) if quick else (5, 8)
        for g in GROUPS:
            add("asan", "asan exh L=%d U=%d ops=%s" % (L, U, g),
                dict(argv=[exe, "exh", str(seed), "0", str(L), "1", "0", g, str(U)], timeout=7000))
            add("asan", "asan rand ops=%s" % g,
                dict(argv=[exe, "rand", str(seed * 7 + 1), str(3000 if quick else 40000), "8192", g], timeout=7000))
    else:
        ck.note_inconclusive("ASan build failed; ASan pass skipped: %s" % b.get("asan_error", "")[-300:])
    # ---- Miri: per operation group; length <= 3 domain partitioned (quick: part of the residues,
    # thorough: all of them) + a drawn sample of the length <= 5 domain + short random strings
    if common.miri_warm(ck, "c11"):
        #        group            modulus  quick jobs  path-U
        mplan = [("find", 28, 4, 0), ("match", 14, 2, 0), ("matchstr,tight", 28, 2, 0), ("ends", 14, 3, 0), ("path", 36, 5, 4),
                 ("bytes", 12, 2, 0)]
        for g, mod, qjobs, U in mplan:
            for i in range(qjobs if quick else mod):
                add("miri", "miri exh L=3 ops=%s res=%d/%d" % (g, i, mod),
                    common.miri_job("c11", ["exh", seed, 0, 3, mod, i, g, U], 7000))
            if not quick:
                smod = 3700 if g in ("find", "matchstr,tight", "path") else (600 if g == "bytes" else 1850)
                for i in range(8):
                    add("miri", "miri exh L=5 sample ops=%s res=%d mod=%d" % (g, i, smod),
                        common.miri_job("c11", ["exh", seed, 0, 5, smod, i, g, 8], 7000))
                for i in range(2):
                    add("miri", "miri rand ops=%s %d" % (g, i),
                        common.miri_job("c11", ["rand", seed * 10 + i, 40, 200, g], 7000))

    res = vlib.run_parallel([j for _, _, j in jobs])
    common.log_slowest(jobs, res)
    exh_ok = True
    for (label, kind, _), r in zip(jobs, res):
        if kind == "native":
            ok = ck.consume_result(r, label)
            if " exh " in label and not ok:
                exh_ok = False
        else:
            ok = common.consume_tool_run(ck, r, label, "C11", kind)
        if ok:
            w = label.split()
            ck.note_distinct("run/%s/%s" % (w[0], w[1]))
            ck.count("%s_jobs_completed" % kind)
    ck.exhaustive = bool(exh_ok)
    ck.extra["exhaustive_domain"] = (
        "native %s: every ordered pair of strings over {a,b,'/','.'} through find, find_buf, match_up_to, match_up_to_str, "
        "ends_with, path_join, path_join_fmt; every single string up to the longer bound through parent_path / "
        "path_file_name chains; random long strings and the Miri/ASan passes are samples"
        % ", ".join("%s pairs of length <= %d, singles <= %d" % (p, L, U) for p, L, U, _ in plan))
    ck.assume("content of a produced value is taken by the library's own convention (all bytes but the last); whether the "
              "last byte is NUL is C10's claim and only counted here (results_without_terminator_left_to_C10)")
    ck.assume("references follow the documented edge cases: parent_path is None for content of <= 1 byte, without a separator, "
              "and for a double separator at the split point, root for a separator at index 0 (a double separator elsewhere: "
              "None or the split are both accepted); path_file_name is None when nothing follows the last separator "
              "(without any separator: None or the whole string are both accepted); path_join only normalises the boundary")
    ck.assume("find_buf with caller bytes that contain NUL / 0xFF (needles over {00,a,'/',FF}, incl. needles one longer than the "
              "content): the definition observed on HEAD 91549aa is 'first occurrence in the haystack slice including its "
              "terminator, None if longer than that slice'; for needles containing NUL a search over the content only (None) is "
              "accepted too. Every such search runs twice on a haystack that is a sub-slice of a larger buffer, once followed by "
              "the bytes the needle would want next and once by different bytes: differing answers are "
              "<op>/result-depends-on-memory-after-haystack; the exactly-sized run lets ASan/Miri report the over-read itself. "
              "Text passed to path_join_fmt stays NUL-free here (C10 covers NUL there)")
    ck.assume("Miri and ASan stop at their first report: later cases of that job are not run; jobs are per operation group")
    return ("all ordered pairs over {a,b,'/','.'} up to the stated length (including empty needle/haystack, needle longer than "
            "haystack, match at the very end) and random strings up to 8 KiB with needles planted at start/middle/end, "
            "near-miss needles (last or first byte changed), empty, longer-than-haystack and single-byte needles, plus a byte-needle pass "
            "for find_buf / match_up_to_str (needles over {00,a,'/',FF} starting with / containing / ending in NUL, the terminator "
            "position, run twice with different memory behind the haystack); each "
            "operation compared with the naive &[u8] reference under catch_unwind; match_up_to_str's &str argument is "
            "followed in memory by self's continuation so an over-read lengthens the match; parent/file-name/re-join "
            "chains; native debug+release, ASan, Miri sample. distinct = (operation, length class, operand relation, "
            "result position / shape class) cells plus (tool, mode) cells")
