"""C15: Read/Write helpers (read_to_end, read_to_string, read_exact, write_all, write_fmt) are exact for
any pattern of short transfers, EINTR and errors.
Oracle: scripted tiny_std::io::Read / Write implementations + trivial reference (engines/h_io), native
debug and release for the big sweep, Miri for a stratified sample (uninitialised reads, set_len soundness)."""
import json
import re

import vlib

CRATE = "engines/h_io"


def setup():
    vlib.cargo_build(CRATE, "h_io-debug", bins=["h_io"])
    vlib.cargo_build(CRATE, "h_io-release", bins=["h_io"], release=True)


def _ub_signature(err):
    """stable signature for a Miri UB report: kind of UB + first backtrace frame inside the repository"""
    m = re.search(r"error: Undefined Behavior: (.*)", err)
    msg = (m.group(1) if m else "unknown").lower()
    for word, kind in (("uninitialized", "uninitialized-read"), ("out-of-bounds", "out-of-bounds"),
                       ("dangling", "dangling-pointer"), ("data race", "data-race"),
                       ("borrow", "aliasing"), ("tag", "aliasing"), ("unaligned", "unaligned")):
        if word in msg:
            break
    else:
        kind = "_".join(re.findall(r"[a-z]+", re.sub(r"0x[0-9a-f]+|alloc\d+|\d+", "", msg))[:6])
    where = "harness"
    for fm in re.finditer(r"^\s*\d+: (.+)$", err, re.M):
        fn = fm.group(1).strip()
        if fn.startswith(("tiny_std::", "rusl::", "<tiny_std::", "<rusl::")):
            fn = re.sub(r"::<.*", "", fn)
            fn = re.sub(r"::\{closure.*", "", fn)
            where = re.sub(r"[^A-Za-z0-9_:]", "", fn)
            break
    return "C15/miri/ub/%s/%s" % (kind, where)


def run(ck, replay=None):
    if replay:
        with open(replay) as f:
            rp = json.load(f)
        ck.seed = int(rp.get("seed", ck.seed))
        ck.tier = rp.get("tier", ck.tier)
    quick = ck.tier == "quick"
    dbg = vlib.cargo_build(CRATE, "h_io-debug", bins=["h_io"])
    rel = vlib.cargo_build(CRATE, "h_io-release", bins=["h_io"], release=True)
    seed = ck.seed
    jobs = []

    def add(prof, d, mode, budget, shard, nshards, sd=None):
        s = seed if sd is None else sd
        jobs.append(dict(argv=[d + "/h_io", mode, str(s), str(budget), str(shard), str(nshards)],
                         timeout=3000, _what="%s %s seed=%d budget=%s shard=%d/%d" % (prof, mode, s, budget, shard, nshards)))

    for prof, d in (("debug", dbg), ("release", rel)):
        if quick:
            maxlen, nsh = 5, 4
        else:
            maxlen, nsh = (7, 16) if prof == "release" else (6, 16)
        for i in range(nsh):
            add(prof, d, "exh", maxlen, i, nsh)
        nt = 2 if quick else 4
        for i in range(nt):
            add(prof, d, "totals", 0, i, nt)
        add(prof, d, "utf8", 0, 0, 1)
        ne = 2 if quick else 4
        for i in range(ne):
            add(prof, d, "errwin", 0, i, ne)
        add(prof, d, "fmt", 20_000 if quick else 400_000, 0, 1, seed * 31 + 7)
        nr = 2 if quick else 12
        for i in range(nr):
            add(prof, d, "random", 60_000 if quick else 1_500_000, i, nr, seed * 1000 + 17 * i)
    res = vlib.run_parallel([{k: v for k, v in j.items() if not k.startswith("_")} for j in jobs])
    for j, r in zip(jobs, res):
        if ck.consume_result(r, j["_what"]):
            ck.note_distinct("profile/%s/%s" % (j["_what"].split()[0], j["argv"][1]))

    # Miri: stratified sample, time-boxed per shard (the clock needs isolation off; nothing else does)
    nm = 12 if quick else 16
    secs = 35 if quick else 420
    budget = 40 if quick else 2500
    # build once so that the shards do not queue on the cargo lock inside their timeouts
    argv, env, cwd = vlib.miri_cmd(CRATE, "h_io-miri", "h_io", ["none", 0, 0], ["-Zmiri-disable-isolation"])
    warm = vlib.run_one(argv, env=env, cwd=cwd, timeout=1800)
    mj = []
    for i in range(nm):
        argv, env, cwd = vlib.miri_cmd(CRATE, "h_io-miri", "h_io",
                                       ["miri", seed * 131 + i, budget, i, nm, secs],
                                       ["-Zmiri-disable-isolation"])
        mj.append(dict(argv=argv, env=env, cwd=cwd, timeout=secs * 6 + 600))
    ok_miri = 0
    for i, r in enumerate(vlib.run_parallel(mj)):
        what = "miri sample shard %d/%d seed=%d" % (i, nm, seed * 131 + i)
        if "error: Undefined Behavior" in r["err"]:
            ck.consume(r["out"], context=what)
            ck.violation(_ub_signature(r["err"]), {"context": what, "stderr": r["err"][-3500:]})
        elif ck.consume_result(r, what):
            ok_miri += 1
            ck.count("miri_shards_completed")
            ck.count("miri_evaluations", sum(int(l.split()[1]) for l in r["out"].splitlines() if l.startswith("@@EVAL ")))
    if ok_miri:
        ck.note_distinct("profile/miri/sample")
    elif warm["rc"] != 0:
        ck.note_inconclusive("miri build/run failed: %s" % warm["err"][-400:])
    ck.exhaustive = False
    ck.extra["exhaustive_scripts_up_to"] = 5 if quick else 7
    ck.extra["script_alphabet"] = "1,2,31,32,33,len,Ok(0),EINTR,error"
    ck.assume("a scripted reader never hands over more than the offered length and a writer never accepts more "
              "(0<k<=len); Ok(0) for a non-empty buffer is the end of the stream / a write-zero condition")
    ck.assume("when read_to_end surfaces a non-EINTR error, every byte the reader handed over before it must be in the "
              "buffer (appended after the existing content, nothing else appended), as std documents and the unchanged code "
              "does; read_to_string: the same when those bytes are valid UTF-8, and the String exactly as before when they "
              "end in an invalid or incomplete sequence (the unchanged code rolls back); resumed histories (call, Err, call "
              "again on the same reader and buffer) must add up to exactly what the reader handed out; for read_exact the "
              "buffer content after a failure is not judged")
    ck.assume("debug build has overflow checks and debug assertions on, release has them off; Miri runs use the "
              "default borrow tracker and interpret unoptimised MIR (time-boxed, skipped cases are counted)")
    ck.assume("print!/eprint! (unix/print.rs) are not exercised by this check")
    return ("every response script over {1,2,31,32,33,len,Ok(0),EINTR,error} up to %d responses (then whole buffers until "
            "the stream ends) is run against read_to_end/read_to_string/read_exact/write_all/write_fmt with several stream "
            "lengths and initial length/capacity combinations incl. exact fit; plus totals 0..200 x constant chunk sizes x "
            "49+ initial len/capacity combinations, UTF-8 texts split at every byte boundary and invalid sequences, "
            "write_fmt templates, and long random scripts; debug + release natively and a time-boxed stratified sample "
            "under Miri. Each run is judged against the first genuine end the scripted side reported (position, kind). "
            "distinct = (helper, script length bucket, EINTR/error/zero presence, size class vs the 32-byte threshold, "
            "initial buffer class, outcome) cells" % (5 if quick else 7))
