"""C16: stream sockets deliver bytes intact; waits, timeouts, try-variants, fd passing.

Engines (crate engines/h_sock, std harness over /repo/tiny-std + /repo/rusl):
  xfer stream    position-dependent payloads 0..8 MiB over Unix / TCP-loopback pairs (two threads or
                 two processes), seeded chunking, think times and connect/accept/close orders; the
                 receiver compares every byte with f(seed, offset); an in-process monitor judges
                 "parked although the awaited readiness holds" from its own poll + /proc/<tid>/syscall
  xfer timeouts  *_with_timeout: a Timeout earlier than the limit (std Instant started before) refutes
  xfer intr      a worker parked in ppoll inside accept/connect/read/write (+ timed variants) gets SIGUSR1
                 (counting handler, no SA_RESTART) once or several times, then the peer acts: the call must
                 not be over before that (EINTR surfaced), not time out early, and deliver intact data;
                 one run under sysmon has the first ppoll answered with an injected -EINTR instead
  xfer origins   every way of obtaining a stream (accept / accept_with_timeout / try_accept / connect /
                 connect_with_timeout / try_connect / in-progress try_connect / connect_blocking, Unix and TCP)
                 x read_with_timeout (silent peer, late peer), read, signal-interrupted read, buffer-filling
                 write; a time-limited or try call found parked in read/accept4/connect/... on a descriptor
                 without O_NONBLOCK (5 samples, limit long passed) is refuted; F_GETFL per origin is recorded;
                 the same calls are judged from a sysmon log (socket call on a blocking descriptor inside the window)
  xfer tries     try_* calls between sysmon markers; the log must show no blocking system call inside
  fdpass         SCM_RIGHTS via rusl sendmsg/recvmsg: iterator output vs an independent walk of the same
                 control bytes, fstat identity, control buffer exact-size (ASan) / against a PROT_NONE page
  cmsg_miri      the pure iterator on hand-built buffers under Miri
"""
import json
import os
import re
import tempfile

import syslog as sl
import vlib

CRATE = "engines/h_sock"
FAMILY = "C16/cmsg-iter/end-of-buffer-test-uses-local-addresses"

SAMPLE_QUOTA = {"transfer": 3, "fdpass": 3, "timeout": 2, "cmsg-pure": 1, "observation": 1, "interrupted-wait": 2}


def setup():
    _build_all()
    sl.sysmon_bin()


def _build_all():
    dbg = vlib.cargo_build(CRATE, "h_sock-debug", bins=["xfer", "fdpass", "cmsg_miri"])
    rel = vlib.cargo_build(CRATE, "h_sock-release", bins=["xfer", "fdpass", "cmsg_miri"], release=True)
    asan = vlib.cargo_build(CRATE, "h_sock-asan", bins=["fdpass"], release=True, toolchain="nightly",
                            rustflags=["-Zsanitizer=address", "-Cforce-frame-pointers=yes"], target=vlib.TARGET)
    return dbg, rel, asan


class Feeder:
    """feeds harness output into the Check, keeping the sample mix balanced"""

    def __init__(self, ck):
        self.ck = ck
        self.used = {}

    def feed(self, res, what, expect_rc=(0,)):
        keep = []
        for line in res["out"].splitlines():
            if line.startswith("@@SAMPLE "):
                try:
                    kind = json.loads(line[9:]).get("kind", "other")
                except ValueError:
                    kind = "other"
                if self.used.get(kind, 0) >= SAMPLE_QUOTA.get(kind, 1):
                    continue
                self.used[kind] = self.used.get(kind, 0) + 1
            keep.append(line)
        r2 = dict(res)
        r2["out"] = "\n".join(keep)
        return self.ck.consume_result(r2, what, expect_rc=expect_rc)


# ------------------------------------------------------------------ sysmon log oracles

WAITS = {7: "poll", 23: "select", 270: "pselect6", 271: "ppoll", 232: "epoll_wait", 281: "epoll_pwait",
         441: "epoll_pwait2", 35: "nanosleep", 230: "clock_nanosleep"}
SOCK_OPS = {0: "read", 1: "write", 42: "connect", 43: "accept", 288: "accept4", 44: "sendto", 45: "recvfrom",
            46: "sendmsg", 47: "recvmsg", 19: "readv", 20: "writev"}
TRY_SCN = ["", "unix-try_accept-nothing-pending", "unix-try_accept-connection-pending",
           "tcp-try_accept-nothing-pending", "tcp-try_accept-connection-pending",
           "unix-try_connect-backlog-has-room", "unix-try_connect-backlog-full",
           "tcp-try_connect-listener-ready", "tcp-try_connect-accept-queue-full",
           "tcp-inprogress-try_connect-accept-queue-full"]
SOCK_NONBLOCK = 0o4000
ORIGINS = ["unix-accept", "unix-accept_with_timeout", "unix-try_accept", "unix-connect", "unix-try_connect",
           "tcp-accept", "tcp-accept_with_timeout", "tcp-try_accept", "tcp-connect", "tcp-connect_with_timeout",
           "tcp-try_connect-then-try_connect", "tcp-try_connect-then-connect_blocking"]


def _window_name(scn):
    """-> (family, name, timed?)  timed windows may wait in ppoll with a (non-NULL) timeout"""
    if 100 <= scn < 100 + len(ORIGINS):
        return "timed-variants", "read_with_timeout-on-stream-from-" + ORIGINS[scn - 100], True
    if 200 <= scn < 200 + len(ORIGINS):
        o = ORIGINS[scn - 200]
        is_try = "try_" in o
        return ("try-variants" if is_try else "timed-variants"), "obtaining-stream-by-" + o, not is_try
    return "try-variants", (TRY_SCN[scn] if 0 < scn < len(TRY_SCN) else "scn%d" % scn), False


def judge_try_log(ck, log):
    """'never blocks' = no blocking system call between the BEGIN and END marker of a try_* call."""
    evs = sl.parse(log)
    nonblock = {}          # fd -> bool (ground truth reported by the harness / creation flags)
    win = {}               # tid -> (scn, rep, [events])
    nwin = 0
    for e in evs:
        if e.k == "M":
            if e.kind == sl.MARK["REPORT"] and e.a[0] == 100:
                nonblock[e.a[1]] = (e.a[2] == 1) if e.a[2] >= 0 else None
            elif e.kind == sl.MARK["BEGIN"]:
                win[e.tid] = (e.a[0], e.a[1], [])
            elif e.kind == sl.MARK["END"] and e.tid in win:
                scn, rep, calls = win.pop(e.tid)
                nwin += 1
                _judge_window(ck, scn, rep, calls, nonblock, closed=True)
        elif e.k in ("s", "S") and e.tid in win:
            win[e.tid][2].append(e)
        if e.k == "S" and e.ret is not None and e.ret >= 0 and not e.inj:
            # descriptors created anywhere: remember their blocking mode
            if e.nr == sl.NR["socket"]:
                nonblock[e.ret] = bool(e.args[1] & SOCK_NONBLOCK)
            elif e.nr == sl.NR["accept4"]:
                nonblock[e.ret] = bool(e.args[3] & SOCK_NONBLOCK)
            elif e.nr == sl.NR["accept"]:
                nonblock[e.ret] = False
            elif e.nr == sl.NR["close"]:
                nonblock.pop(sl.s64(e.args[0]), None)
    for tid, (scn, rep, calls) in win.items():
        # window never closed: the call was still inside a system call when the run ended
        _judge_window(ck, scn, rep, calls, nonblock, closed=False)
    ck.count("try_windows_judged_from_sysmon_log", nwin)
    return nwin


def _judge_window(ck, scn, rep, calls, nonblock, closed):
    fam, name, timed = _window_name(scn)
    local_nb = dict(nonblock)
    exits = {}
    for e in calls:
        if e.k == "S":
            exits[(e.nr, tuple(e.args))] = e
    names = []
    for e in calls:
        if e.k == "S":
            if e.ret is not None and e.ret >= 0:
                if e.nr == sl.NR["socket"]:
                    local_nb[e.ret] = bool(e.args[1] & SOCK_NONBLOCK)
                elif e.nr == sl.NR["accept4"]:
                    local_nb[e.ret] = bool(e.args[3] & SOCK_NONBLOCK)
            continue
        # entries
        nr = e.nr
        names.append(sl.NAME.get(nr, str(nr)))
        done = exits.get((nr, tuple(e.args)))
        det = {"scenario": name, "rep": rep, "syscall": sl.NAME.get(nr, nr), "args": ["%x" % a for a in e.args],
               "returned": (done.ret if done is not None else "never (still inside when the run ended)"),
               "window_closed": closed}
        if nr in WAITS:
            blocking = None
            if nr == 7:
                blocking = (e.args[2] & 0xffffffff) != 0
            elif nr in (232, 281):
                blocking = (e.args[3] & 0xffffffff) != 0
            elif nr in (271, 270, 441):
                tptr = e.args[2] if nr != 270 else e.args[4]
                blocking = True if tptr == 0 else None
            elif nr == 23:
                blocking = True if e.args[4] == 0 else None
            else:
                blocking = True
            if blocking and timed and nr in (271, 270, 441, 23):
                ck.violation("C16/timed-variants/%s/wait-without-timeout-inside-timed-call" % name, det)
            elif blocking is None and timed:
                pass  # a wait that carries a timeout is what a time-limited call is supposed to do
            elif blocking:
                ck.violation("C16/%s/%s/blocking-wait-syscall-inside-try-call" % (fam, name), det)
            elif blocking is None:
                ck.note_inconclusive("try window %s: %s with a finite timeout whose value the log does not show" % (name, WAITS[nr]))
        elif nr == sl.NR["futex"] and (e.args[1] & 0x7f) in (0, 9):
            ck.violation("C16/%s/%s/futex-wait-inside-call" % (fam, name), det)
        elif nr in SOCK_OPS:
            fd = sl.s64(e.args[0])
            nb = local_nb.get(fd)
            if nb is False:
                ck.violation("C16/%s/%s/%s-on-blocking-socket" % (fam, name, SOCK_OPS[nr]), det)
            elif nb is None and (done is None or done.ret not in (-11, -115, -114)):
                ck.note_inconclusive("try window %s: %s on fd %d of unknown blocking mode" % (name, SOCK_OPS[nr], fd))
    if not closed:
        ck.note_inconclusive("try window %s rep %d never closed; calls seen: %s" % (name, rep, ",".join(names)))
    else:
        ck.note_distinct("%s-log/%s/%s" % ("timed" if timed else "try", name, "+".join(sorted(set(names)))))


def count_retries(ck, log):
    """EAGAIN -> ppoll -> retry paths actually taken, per direction, from a traced transfer run."""
    evs = sl.parse(log)
    last = {}
    c = dict(read_eagain=0, write_eagain=0, accept_eagain=0, connect_einprogress=0,
             ppoll_after_read=0, ppoll_after_write=0, ppoll_after_accept=0, ppoll_after_connect=0, ppoll_total=0)
    for e in evs:
        if e.k != "S":
            continue
        if e.nr == 0 and e.ret == -11:
            c["read_eagain"] += 1
            last[e.tid] = "read"
        elif e.nr == 1 and e.ret == -11:
            c["write_eagain"] += 1
            last[e.tid] = "write"
        elif e.nr == sl.NR["accept4"] and e.ret == -11:
            c["accept_eagain"] += 1
            last[e.tid] = "accept"
        elif e.nr == sl.NR["connect"] and e.ret == -115:
            c["connect_einprogress"] += 1
            last[e.tid] = "connect"
        elif e.nr == sl.NR["ppoll"]:
            c["ppoll_total"] += 1
            w = last.pop(e.tid, None)
            if w:
                c["ppoll_after_" + w] += 1
    for k, v in c.items():
        ck.count("traced_" + k, v)
    if c["ppoll_after_read"]:
        ck.note_distinct("retry-path/read-empty-eagain-ppoll")
    if c["ppoll_after_write"]:
        ck.note_distinct("retry-path/write-full-eagain-ppoll")
    if c["ppoll_after_accept"]:
        ck.note_distinct("retry-path/accept-eagain-ppoll")
    if c["ppoll_after_connect"]:
        ck.note_distinct("retry-path/connect-einprogress-ppoll")
    return c


# ------------------------------------------------------------------ Miri

def judge_miri(ck, res, label):
    err = res["err"]
    if "error: Undefined Behavior" in err:
        case = [l for l in err.splitlines() if l.startswith("CASE ")]
        msg = [l for l in err.splitlines() if l.startswith("error: Undefined Behavior")]
        in_iter = "ControlMessageIterator" in err or "compat/socket.rs" in err
        m = msg[0] if msg else ""
        oob = any(w in m for w in ("out-of-bounds", "dangling", "memory access", "beyond", "bounds of"))
        unaligned = "unaligned" in m or "alignment" in m
        if in_iter and unaligned:
            sig = "C16/cmsg-iter/unaligned-control-buffer/miri-unaligned-reference"
        elif in_iter and oob:
            sig = FAMILY + "/overread"
        else:
            sig = "C16/cmsg-iter/miri-undefined-behaviour"
        where = [l.strip() for l in err.splitlines() if "socket.rs" in l][:3]
        ck.violation(sig, {"detector": "miri", "case": case[-1] if case else None, "error": m[:400], "where": where, "run": label})
        ck.consume(res["out"], context=label)
        ck.count("miri_runs_with_ub", 1)
        return
    if res["timed_out"]:
        ck.note_inconclusive("%s: Miri watchdog" % label)
        return
    ck.consume_result(res, label)
    ck.count("miri_runs_completed", 1)


# ------------------------------------------------------------------ main

def run(ck, replay=None):
    quick = ck.tier == "quick"
    seed = ck.seed
    dbg, rel, asan = _build_all()
    sysmon = sl.sysmon_bin()
    fd = Feeder(ck)
    tmp = tempfile.mkdtemp(prefix="c16-")
    import atexit
    import shutil
    atexit.register(shutil.rmtree, tmp, True)
    os.environ["C16_TMP"] = tmp  # harness scratch (socket paths, descriptor files) lives below the run's temp dir
    asan_env = vlib.base_env({"C16_ASAN": "1", "ASAN_OPTIONS": "detect_leaks=0:allocator_may_return_null=1"})

    if replay:
        with open(replay) as f:
            rp = json.load(f)
        det = rp.get("detail") or {}
        spec = det.get("replay") or (det.get("case") or {}).get("replay")
        if spec and str(spec).startswith("stream:"):
            _, shard, cid, mode = spec.split(":")
            for d, lab in ((dbg, "debug"), (rel, "release")):
                fd.feed(vlib.run_one([d + "/xfer", "stream", shard, str(int(cid) + 1), "mode=" + mode, "only=" + cid], timeout=300),
                        "replay transfer " + lab, expect_rc=(0, 3))
                ck.note_distinct("replay/stream/" + lab)
            return "replay of one transfer case (same shard seed and case id)"
        if spec and str(spec).startswith("trunc:"):
            _, tseed, treps = spec.split(":")
            for d, lab in ((dbg, "debug"), (rel, "release")):
                fd.feed(vlib.run_one([d + "/xfer", "trunc", tseed, treps], timeout=300), "replay peer-closes-mid-message " + lab)
                ck.note_distinct("replay/trunc/" + lab)
            return "replay of the peer-closes-mid-message family (same seed and case count)"
        if spec:
            for d, lab, env in ((dbg, "debug", None), (rel, "release", None), (asan, "asan", asan_env)):
                fd.feed(vlib.run_one([d + "/fdpass", "run", str(seed), "1", "only=" + spec], env=env, timeout=120), "replay fdpass " + lab)
                ck.note_distinct("replay/fdpass/" + lab)
            return "replay of one fd-passing case in the debug, release and ASan builds"
        ck.note_inconclusive("replay file carries no case specification; running the normal tier")

    jobs = []  # (label, kind, kwargs)

    def add(label, kind, **kw):
        jobs.append((label, kind, kw))

    # --- streams
    nthr_shards, thr_cases = (32, 50) if quick else (64, 600)
    for i in range(nthr_shards):
        d, lab = (dbg, "debug") if i % 2 == 0 else (rel, "release")
        add("xfer threads %s shard %d" % (lab, i), "plain",
            argv=[d + "/xfer", "stream", str(seed * 1000 + i), str(thr_cases), "mode=threads"], timeout=300 if quick else 1500)
    nproc_shards, proc_cases = (16, 30) if quick else (32, 300)
    for i in range(nproc_shards):
        d, lab = (dbg, "debug") if i % 2 == 0 else (rel, "release")
        add("xfer procs %s shard %d" % (lab, i), "plain",
            argv=[d + "/xfer", "stream", str(seed * 1000 + 500 + i), str(proc_cases), "mode=procs"], timeout=300 if quick else 1500)
    # --- peer closes mid-message: read_exact must fail on a truncated stream, read_to_end returns the prefix
    add("trunc debug", "plain", argv=[dbg + "/xfer", "trunc", str(seed * 31), "240" if quick else "3000"], timeout=300 if quick else 1500)
    add("trunc release", "plain", argv=[rel + "/xfer", "trunc", str(seed * 31 + 1), "240" if quick else "3000"], timeout=300 if quick else 1500)
    # --- timeouts
    add("timeouts debug", "plain", argv=[dbg + "/xfer", "timeouts", str(seed), "1" if quick else "6"], timeout=120 if quick else 600)
    add("timeouts release", "plain", argv=[rel + "/xfer", "timeouts", str(seed + 1), "1" if quick else "6"], timeout=120 if quick else 600)
    # --- signals while parked in ppoll
    for i in range(2 if quick else 8):
        d, lab = (dbg, "debug") if i % 2 == 0 else (rel, "release")
        add("intr %s %d" % (lab, i), "plain", argv=[d + "/xfer", "intr", str(seed * 17 + i), "2" if quick else "10"],
            timeout=300 if quick else 1500)
    ilog = os.path.join(tmp, "intr-inject.log")
    add("intr with sysmon-injected EINTR", "injectlog", log=ilog,
        argv=sl.sysmon_cmd(ilog, [rel + "/xfer", "intr", str(seed * 19), "1" if quick else "4", "inject"],
                           timeout_s=300, idle_ms=0, sysmon=sysmon), timeout=400)
    # --- every way of obtaining a stream x timed / blocking / interrupted / buffer-filling operations
    for i in range(2 if quick else 8):
        d, lab = (dbg, "debug") if i % 2 == 0 else (rel, "release")
        add("origins %s %d" % (lab, i), "plain", argv=[d + "/xfer", "origins", str(seed * 29 + i), "1" if quick else "6"],
            timeout=300 if quick else 1500)
    olog = os.path.join(tmp, "origins.log")
    add("origins under sysmon", "trylog", log=olog,
        argv=sl.sysmon_cmd(olog, [rel + "/xfer", "origins", str(seed * 31), "1" if quick else "3"], entries=True,
                           timeout_s=300, idle_ms=0, sysmon=sysmon), timeout=400)
    add("edge observations", "plain", argv=[rel + "/xfer", "edge", str(seed), "1"], timeout=120)
    # --- try-variants under sysmon
    for i, (d, lab) in enumerate(((dbg, "debug"), (rel, "release"))):
        log = os.path.join(tmp, "tries-%s.log" % lab)
        add("tries %s under sysmon" % lab, "trylog", log=log,
            argv=sl.sysmon_cmd(log, [d + "/xfer", "tries", str(seed + i), "3" if quick else "25"], entries=True,
                               timeout_s=120, sysmon=sysmon), timeout=200)
    # --- a traced subset of transfers: count the EAGAIN/ppoll paths
    for i, tr in enumerate(("unix", "tcp")):
        log = os.path.join(tmp, "xfer-%s.log" % tr)
        add("xfer traced %s" % tr, "retrylog", log=log,
            argv=sl.sysmon_cmd(log, [rel + "/xfer", "stream", str(seed * 7 + i), "6" if quick else "20", "mode=threads",
                                     "transport=" + tr, "maxlen=%d" % (4 << 20), "profile=retry"], timeout_s=300, idle_ms=0, sysmon=sysmon),
            timeout=400)
    # --- fd passing
    nfd_shards, fd_cases = (8, 400) if quick else (16, 20000)
    for i in range(nfd_shards):
        add("fdpass debug %d" % i, "plain", argv=[dbg + "/fdpass", "run", str(seed * 31 + i), str(fd_cases)], timeout=900)
        add("fdpass release %d" % i, "plain", argv=[rel + "/fdpass", "run", str(seed * 37 + i), str(fd_cases)], timeout=900)
    nas_shards, as_cases = (16, 25) if quick else (32, 300)
    for i in range(nas_shards):
        add("fdpass asan %d" % i, "plain", argv=[asan + "/fdpass", "run", str(seed * 41 + i), str(as_cases)],
            env=asan_env, timeout=900)
    # --- Miri on the pure iterator
    for i in range(6 if quick else 16):
        argv, env, cwd = vlib.miri_cmd(CRATE, "h_sock-miri", "cmsg_miri", ["run", seed * 13 + i, 5 if quick else 12],
                                       ["-Zmiri-permissive-provenance", "-Zmiri-seed=%d" % (seed % 1000 + i)])
        if i % 2 == 1:
            # release profile = no overflow checks: the iterator runs on past the data instead of panicking
            k = argv.index("run")
            argv = argv[:k + 1] + ["--release"] + argv[k + 1:]
        add("miri cmsg %d%s" % (i, " (no overflow checks)" if i % 2 == 1 else ""), "miri", argv=argv, env=env, cwd=cwd, timeout=1500)
    for i in range(2 if quick else 6):
        # control buffers that start at every offset 1..7 from an aligned address
        argv, env, cwd = vlib.miri_cmd(CRATE, "h_sock-miri", "cmsg_miri", ["run", seed * 23 + i, 7 if quick else 14, "unaligned"],
                                       ["-Zmiri-permissive-provenance", "-Zmiri-seed=%d" % (seed % 1000 + 50 + i)])
        if i % 2 == 1:
            k = argv.index("run")
            argv = argv[:k + 1] + ["--release"] + argv[k + 1:]
        add("miri cmsg unaligned %d" % i, "miri", argv=argv, env=env, cwd=cwd, timeout=1500)

    # Miri first (slowest), then the rest
    jobs.sort(key=lambda j: 0 if j[1] == "miri" else 1)
    results = vlib.run_parallel([j[2] if "log" not in j[2] else {k: v for k, v in j[2].items() if k != "log"} for j in jobs])

    retry_total = {}
    for (label, kind, kw), res in zip(jobs, results):
        if kind == "plain":
            if fd.feed(res, label, expect_rc=(0, 3)):
                ck.note_distinct("engine/" + re.sub(r"\s+\d+$", "", label.replace(" shard", "")).replace(" ", "-"))
        elif kind == "trylog":
            ok = fd.feed(res, label, expect_rc=(0, 3))
            if not os.path.exists(kw["log"]):
                ck.note_inconclusive("%s: no sysmon log" % label)
                continue
            n = judge_try_log(ck, kw["log"])
            if ok and n:
                ck.note_distinct("engine/" + label.replace(" ", "-"))
        elif kind == "injectlog":
            ok = fd.feed(res, label, expect_rc=(0, 3))
            if os.path.exists(kw["log"]):
                ninj = sum(1 for e in sl.parse(kw["log"]) if e.k == "S" and e.nr == sl.NR["ppoll"] and e.inj)
                ck.count("ppoll_eintr_injected_by_sysmon", ninj)
                if ok and ninj:
                    ck.note_distinct("engine/intr-sysmon-injected-eintr")
                elif ok:
                    ck.note_inconclusive("%s: no ppoll was answered with the injected EINTR" % label)
        elif kind == "retrylog":
            fd.feed(res, label)
            if os.path.exists(kw["log"]):
                c = count_retries(ck, kw["log"])
                for k, v in c.items():
                    retry_total[k] = retry_total.get(k, 0) + v
        elif kind == "miri":
            judge_miri(ck, res, label)
    ck.extra["eagain_ppoll_retries_traced"] = retry_total
    if retry_total and not (retry_total.get("ppoll_after_read") and retry_total.get("ppoll_after_write")):
        ck.note_inconclusive("traced transfers did not exercise both EAGAIN->ppoll directions: %s" % retry_total)
    # fold the many observations of one defect family into few replay files: vlib dedups by signature
    shutil.rmtree(tmp, ignore_errors=True)
    ck.exhaustive = False
    ck.assume("timeouts: only 'Timeout earlier than the requested limit' refutes; elapsed measured on std::time::Instant (CLOCK_MONOTONIC) started before the call and read after it returned, so measured >= waited; a relative ppoll timeout never expires early (hrtimer)")
    ck.assume("'completes when the peer acts' is refuted only by state: harness poll shows the awaited readiness, /proc/<tid>/syscall shows the thread inside ppoll, call sequence number unchanged over 5 samples")
    ck.assume("interrupted waits: a case counts only when the SIGUSR1 handler ran while /proc/<tid>/syscall showed the worker inside ppoll (or sysmon's log shows the injected -EINTR); 'before the peer acted' is judged by the harness's own order of actions")
    ck.assume("a time-limited call may only wait in a system call that carries its limit: refuted by the thread being inside read/recvfrom/accept4/connect/write on a descriptor whose F_GETFL lacks O_NONBLOCK, limit + 1 s passed, same call over 5 samples; a stream's blocking mode alone is recorded, not judged")
    ck.assume("try-variants: judged from the sysmon log (entries and exits between markers); a ppoll with a finite timeout pointer cannot be valued from the log and is inconclusive")
    ck.assume("fd passing: expected output is an independent walk of control[0..msg_controllen] as the kernel left it; control buffers start at every alignment (sub-slices at offsets 0..7), canary bytes around them and the msg_control/msg_controllen pair are checked before and after recvmsg")
    ck.assume("blocking connect returning EAGAIN/EALREADY while a backlog is full is recorded as an observation, not judged")
    return ("seeded transfers (transport x payload 0..8MiB x writer/reader chunk class x think-time x connect/accept/close order x write|write_all x read|read_exact|read_to_end, "
            "two threads and two processes, debug and release) with a position-dependent byte pattern checked at the receiver; *_with_timeout limits {0,1ms,50ms,1.1s,+seeded} in parallel and limits that are not whole milliseconds {137us,900us,999.999us,1.7ms,2.345678ms,2.999ms,10.5ms,10.999999ms, seeded sub-ms / n ms+0.6..1 ms / any ns up to 25 ms, 1 s + sub-ms rest} one call at a time; "
            "SIGUSR1 (1 or 2..6, seeded offsets) into a worker parked in ppoll for accept/accept_with_timeout/connect/connect_with_timeout/read/read_with_timeout/write, peer acting afterwards or never (timed); "
            "every try_* variant in pending / not-pending / queue-full situations between sysmon markers; SCM_RIGHTS cases n in 0..253 x control size CMSG_SPACE(n)-{8,4,0}+{0,4,8,64} x fill {0xFF,0x00,stale header} x "
            "buffer placement {exact heap (ASan), PROT_NONE guard page, stack, sub-slice at start offset 0..7 with canaries / ending at the allocation end / ending at a guard page} x msghdr on stack|heap x SO_PASSCRED, compared with a reference walk of the same bytes and fstat identity; Miri on hand-built buffers; "
            "distinct = (transport, payload class, chunk classes, order, close, 2thr/2proc) + (n class, buffer class, fill, placement) + timeout (op, limit class) + try scenario cells")
