"""C07: start-up delivers argv / environment / aux values exactly in every link mode; env lookup = value of the
first entry whose name equals the key exactly, else missing; vDSO clock agrees with the clock system call.

Oracle: the driver execs probes/start_probe (no-libc, through tiny-std's _start; dynamic PIE, static, static PIE x
debug/release) with an EXACT raw argv/envp (sysmon --spec), hands the lookup keys over on fd 0 and compares what the
probe echoes with a reference computed over the byte arrays it passed."""
import os
import shutil
import struct
import subprocess
import concurrent.futures
import json
import time

import vlib
import syslog

PROBE = "probes/start_probe"
MODES = ("dynpie", "static", "staticpie")
SIGNAMES = {4: "SIGILL", 6: "SIGABRT", 7: "SIGBUS", 8: "SIGFPE", 9: "SIGKILL", 11: "SIGSEGV", 5: "SIGTRAP"}
STAGE_AFTER = {None: "before-main-output", "L": "args_os", "O": "args_os", "l": "args", "A": "args", "a": "args",
               "U": "env-lookup", "V": "env-lookup", "v": "env-lookup", "k": "env-lookup", "G": "aux", "P": "aux",
               "p": "resolve", "R": "resolve", "r": "resolve", "E": "vdso-or-reloc", "T": "vdso-or-reloc", "S": "end", "W": "env-lookup", "H": "args-iterator-history", "h": "args-iterator-history",
               "B": "end"}
MAX_VIOL_PER_SIG = 6
ARG_BUDGET = 1_400_000      # bytes of argv+envp strings and pointers per launch (kernel limit: stack rlimit / 4)


def setup():
    syslog.sysmon_bin()
    build_all()


# Link-layout variants of the three link modes ("every supported link mode" is a configuration quantifier): other
# linkers and link options change the program header table (count, order, position of PT_DYNAMIC, PT_PHDR present or
# not), which the static-PIE self relocation walks. name -> (base mode, extra rustflags)
_MINHDR = ["-C", "link-arg=-Wl,-z,nognustack", "-C", "link-arg=-Wl,-z,norelro", "-C", "link-arg=-Wl,--no-eh-frame-hdr",
           "-C", "link-arg=-Wl,--build-id=none"]
VARIANTS = {
    "staticpie-minhdr": ("staticpie", _MINHDR),                                  # PT_DYNAMIC is the LAST header
    "staticpie-bfd": ("staticpie", ["-C", "link-arg=-fuse-ld=bfd"]),            # GNU ld: no PT_PHDR, 4 LOADs
    "staticpie-bfd-minhdr": ("staticpie", ["-C", "link-arg=-fuse-ld=bfd"] + _MINHDR),
    "staticpie-mold": ("staticpie", ["-C", "link-arg=-fuse-ld=mold"]),          # PT_NOTE before the LOADs
    "staticpie-norosegment": ("staticpie", ["-C", "link-arg=-Wl,-z,noseparate-code", "-C", "link-arg=-Wl,--no-rosegment"]),
    "dynpie-minhdr": ("dynpie", _MINHDR),
    "dynpie-bfd": ("dynpie", ["-C", "link-arg=-fuse-ld=bfd"]),
    "static-minhdr": ("static", _MINHDR),
    "static-bfd": ("static", ["-C", "link-arg=-fuse-ld=bfd"]),
}
PHDR_LAYOUT = {}        # (mode, profile) -> {"order": [...], "count": n, "dynamic": "first|middle|last|none", "key": str}
VARIANT_BUILD_FAILURES = []


def phdr_layout(exe):
    """program header order from readelf -lW"""
    try:
        o = subprocess.run(["readelf", "-lW", exe], stdout=subprocess.PIPE, stderr=subprocess.PIPE, timeout=60).stdout.decode()
    except (OSError, subprocess.TimeoutExpired):
        return None
    types = []
    for l in o.splitlines():
        f = l.split()
        if l.startswith("  ") and len(f) >= 6 and f[0].replace("_", "").isupper() and f[1].startswith("0x"):
            types.append(f[0])
    if not types:
        return None
    if "DYNAMIC" not in types:
        pos = "none"
    else:
        i = types.index("DYNAMIC")
        pos = "first" if i == 0 else "last" if i == len(types) - 1 else "middle"
    idx = types.index("DYNAMIC") if "DYNAMIC" in types else -1
    return {"order": types, "count": len(types), "dynamic": pos, "dynamic_index": idx,
            "key": "n=%d/dynamic=%s@%d/%s" % (len(types), pos, idx, ",".join(types))}


def build_all(variants=True):
    """-> {(mode-or-variant, profile): exe}. The three base modes must build (BuildError otherwise); a variant that
    does not link here (linker missing, option unknown) is skipped and reported inconclusive."""
    out = {}
    del VARIANT_BUILD_FAILURES[:]

    def build(name, base, extra):
        res = {}
        for rel in (False, True):
            if not extra:
                d = vlib.build_nolibc(PROBE, "start_probe", base, rel)
            else:
                rf = list(vlib.NOLIBC_BASE) + vlib.NOLIBC_MODES[base] + (vlib.NOLIBC_RELEASE_EXTRA if rel else []) + extra
                d = vlib.cargo_build(PROBE, "start_probe-" + name, release=rel, rustflags=rf, target=vlib.TARGET)
            res[(name, "release" if rel else "debug")] = os.path.join(d, "start_probe")
        return res

    jobs = [(m, m, None) for m in MODES]
    if variants:
        jobs += [(n, b, e) for n, (b, e) in sorted(VARIANTS.items())]
    with concurrent.futures.ThreadPoolExecutor(max_workers=6) as ex:
        futs = [(j, ex.submit(build, *j)) for j in jobs]
        for (name, base, extra), f in futs:
            try:
                out.update(f.result())
            except vlib.BuildError as e:
                if extra is None:
                    raise
                VARIANT_BUILD_FAILURES.append("%s: %s" % (name, str(e)[-300:].replace("\n", " | ")))
    PHDR_LAYOUT.clear()
    for k, exe in out.items():
        lay = phdr_layout(exe)
        if lay:
            PHDR_LAYOUT[k] = lay
    return out


# ------------------------------------------------------------------------------------------------
# reference model
def split_entry(e):
    """-> (name, value) ; value None for an entry without '='."""
    i = e.find(b"=")
    if i < 0:
        return e, None
    return e[:i], e[i + 1:]


def ref_lookup(envp, key):
    """value (bytes) of the FIRST entry whose name equals the key exactly; None = missing."""
    for e in envp:
        n, v = split_entry(e)
        if v is not None and n == key:
            return v
    return None


def is_utf8(b):
    try:
        b.decode("utf-8")
        return True
    except UnicodeDecodeError:
        return False


class EnvIndex:
    """Per-block index so that the reference and the relation classes cost O(len(key)) per lookup.
    Semantics are exactly those of ref_lookup() (kept above as the readable definition and cross-checked on a sample)."""

    def __init__(self, envp):
        import bisect
        self.bisect = bisect
        self.first = {}         # name -> (index, value) of the first '='-entry with that name
        self.last = {}          # name -> index of the last '='-entry with that name
        self.count = {}
        self.bare = set()
        for i, e in enumerate(envp):
            n, v = split_entry(e)
            if v is None:
                self.bare.add(n)
                continue
            if n not in self.first:
                self.first[n] = (i, v)
            self.last[n] = i
            self.count[n] = self.count.get(n, 0) + 1
        self.sorted_names = sorted(self.first)

    def lookup(self, key):
        f = self.first.get(key)
        return None if f is None else f[1]

    def prefix_entry_value(self, key):
        """value of the first '='-entry whose name is a non-empty proper prefix of the key and which comes before the
        reference match (what the known defect returns), else None."""
        f = self.first.get(key)
        lim = f[0] if f is not None else 1 << 60
        best = None
        for i in range(1, len(key)):
            g = self.first.get(key[:i])
            if g is not None and g[0] < lim and (best is None or g[0] < best[0]):
                best = g
        return None if best is None else best[1]

    def relation_class(self, key):
        """coarse class of (key, block): which key/name relations are present, relative to the reference match."""
        f = self.first.get(key)
        ppk_before = ppk_after = False
        for i in range(1, len(key)):
            p = key[:i]
            g = self.first.get(p)
            if g is None:
                continue
            if f is None or g[0] < f[0]:
                ppk_before = True
            elif self.last[p] > f[0]:
                ppk_after = True
        j = self.bisect.bisect_right(self.sorted_names, key)
        kpn = j < len(self.sorted_names) and self.sorted_names[j].startswith(key)
        parts = []
        if f is None:
            parts.append("missing")
        else:
            v = f[1]
            vc = "empty" if v == b"" else ("has-eq" if b"=" in v else ("non-utf8" if not is_utf8(v) else "plain"))
            parts.append("found-" + vc)
        if key == b"":
            parts.append("empty-key")
        elif not is_utf8(key):
            parts.append("non-utf8-key")
        if ppk_before:
            parts.append("name-ppfx-of-key-first")
        elif ppk_after:
            parts.append("name-ppfx-of-key-later")
        if kpn:
            parts.append("key-ppfx-of-name")
        if self.count.get(key, 0) > 1:
            parts.append("dup")
        if key in self.bare:
            parts.append("bare-entry")
        return "+".join(parts)


# ------------------------------------------------------------------------------------------------
# workload
SMALL_NAMES = [b""] + [bytes(x) for L in (1, 2, 3) for x in __import__("itertools").product(b"AB", repeat=L)]
SMALL_KEYS = [bytes(x) for L in (1, 2, 3, 4) for x in __import__("itertools").product(b"AB", repeat=L)]


def small_blocks(max_entries=3, names=SMALL_NAMES):
    import itertools
    for k in range(max_entries + 1):
        for tup in itertools.product(range(len(names)), repeat=k):
            yield tup


def small_launch(tup, names=SMALL_NAMES, forms=None):
    envp = []
    for i, ni in enumerate(tup):
        form = forms[i] if forms else 0
        n = names[ni]
        if form == 0:
            envp.append(n + b"=v%d" % i)
        elif form == 1:
            envp.append(n + b"=")
        elif form == 2:
            envp.append(n)                      # no '='
        elif form == 3:
            envp.append(n + b"=w%d=x=" % i)
        else:
            envp.append(n + b"=\xff\xfe%d" % i)
    keys = list(SMALL_KEYS)
    return envp, keys


WORDS = [b"HOME", b"PATH", b"USER", b"LANG", b"LC_ALL", b"LC", b"TERM", b"SHELL", b"PWD", b"OLDPWD", b"X", b"XDG",
         b"XDG_RUNTIME_DIR", b"XDG_RUNTIME", b"_", b"__", b"a", b"ab", b"abc", b"\xc3\xa5", b"\xc3\xa5\xc3\xa4",
         b"\xff", b"\xff\xfe", b"N\xffME", b"A B", b"1", b"12", b"HOME2", b"HOMEX", b"HO", b"H", b"PATHS", b"P"]


def rbytes(r, n):
    """n random bytes without NUL"""
    return r.randbytes(n).replace(b"\0", b"\x01")


def rand_name(r):
    c = r.random()
    if c < 0.55:
        w = r.choice(WORDS)
    elif c < 0.75:
        w = r.choice(WORDS) + r.choice([b"_", b"X", b"2", b"\xff", b" ", b"_LONG_SUFFIX"]) * r.randint(1, 2)
    elif c < 0.85:
        w = r.choice(WORDS)
        w = w[:r.randint(0, len(w))]
    elif c < 0.95:
        w = bytes(r.choice(b"ABab_\xc3\xa5\xff 01") for _ in range(r.randint(1, 12)))
    else:
        w = rbytes(r, r.randint(20, 300))
    return w.replace(b"=", b"_")


def rand_value(r):
    c = r.random()
    if c < 0.15:
        return b""
    if c < 0.3:
        return r.choice([b"=", b"==", b"a=b", b"=a", b"a=", b"k=v=w"])
    if c < 0.45:
        return rbytes(r, r.randint(1, 40))
    if c < 0.5:
        return rbytes(r, r.randint(2000, 20000))
    if c < 0.6:
        return "våäö€".encode() * r.randint(1, 5)
    return b"/" + bytes(r.choice(b"abcdefghij/._-") for _ in range(r.randint(0, 30)))


def random_block(r, nent):
    envp = []
    names = []
    for i in range(nent):
        c = r.random()
        if names and c < 0.2:
            n = r.choice(names)                         # duplicate
        elif names and c < 0.3:
            n = r.choice(names)
            n = n[:r.randint(0, len(n))]                 # prefix of an existing name (maybe empty)
        elif names and c < 0.4:
            n = r.choice(names) + rand_name(r)[:3]       # extension of an existing name
        else:
            n = rand_name(r)
        names.append(n)
        c = r.random()
        if c < 0.08:
            envp.append(n)                              # entry without '='
        else:
            envp.append(n + b"=" + rand_value(r))
    return envp


def keys_for(r, envp, max_keys):
    names = []
    seen = set()
    for e in envp:
        n, _ = split_entry(e)
        if n not in seen:
            seen.add(n)
            names.append(n)
    keys = []
    ks = set()

    def add(k):
        if b"\0" in k or b"=" in k or k in ks:
            return
        if k == b"" and b"" not in [split_entry(e)[0] for e in envp if split_entry(e)[1] is not None]:
            return          # 5a: the empty key only against blocks that contain an empty-named entry
        ks.add(k)
        keys.append(k)

    cand = []
    for n in names:
        cand.append(n)
    for n in names:
        if len(n) <= 24:
            for i in range(len(n)):
                cand.append(n[:i])
        else:
            for i in (0, 1, len(n) // 2, len(n) - 1):
                cand.append(n[:i])
        cand.append(n + b"X")
        cand.append(n + r.choice([b"_", b"2", b"\xff", b" ", b"abc"]))
    for w in (b"ABSENT", b"zz", b"\xfe", b"HOMEX", b"Q" * 300):
        cand.append(w)
    if len(cand) > max_keys:
        head = cand[:len(names)]
        rest = cand[len(names):]
        r.shuffle(rest)
        cand = (head + rest)
        if len(names) > max_keys // 2:
            r.shuffle(cand)
    for k in cand:
        if len(keys) >= max_keys:
            break
        add(k)
    return keys


def rand_arg(r):
    c = r.random()
    if c < 0.15:
        return b""
    if c < 0.3:
        return rbytes(r, r.randint(1, 30))
    if c < 0.4:
        return "årg €".encode()
    if c < 0.5:
        return r.choice([b"-", b"--", b"--flag=val", b"=", b" ", b"\xff", b"\xc3", b"a\xc3\x28b"])
    return bytes(r.choice(b"abcXYZ-_=/. 0123") for _ in range(r.randint(1, 20)))


def random_argv(r, kind):
    if kind == "empty":
        return []
    if kind == "one":
        return [rand_arg(r)]
    if kind == "many":
        return [rand_arg(r) for _ in range(r.randint(2, 200))]
    if kind == "200":
        return [rand_arg(r) for _ in range(200)]
    if kind == "long":
        a = [rand_arg(r) for _ in range(r.randint(0, 5))]
        for _ in range(r.randint(1, 4)):
            ln = r.choice([100 * 1024, 100 * 1024, 131071, 65536, 4096, 4095, 4097])
            fill = r.choice([b"x", b"\xff", "€".encode(), b"ab"])
            a.insert(r.randint(0, len(a)), (fill * (ln // len(fill) + 1))[:ln])
        return a
    if kind == "all-empty":
        return [b""] * r.randint(1, 50)
    return [b"start_probe", rand_arg(r)]


def budget_ok(argv, envp):
    return sum(len(a) + 9 for a in argv) + sum(len(e) + 9 for e in envp) < ARG_BUDGET


# ------------------------------------------------------------------------------------------------
class Launch:
    __slots__ = ("mode", "prof", "exe", "path", "argv", "envp", "keys", "iters", "kind", "uid", "gid", "direct",
                 "expect_secure", "expect_uid", "expect_gid", "idx", "timens", "hist")

    def __init__(self, mode, prof, exe, argv, envp, keys, kind, iters=0, path=None, uid=None, gid=None,
                 direct=False, expect_secure=0, timens=None):
        self.hist = []              # Iterator API histories: list of lists of (op, a, b)
        self.timens = timens        # (monotonic offset s, boottime offset s): run inside `unshare --time --fork`
        self.mode, self.prof, self.exe = mode, prof, exe
        self.path = path or exe
        self.argv, self.envp, self.keys = argv, envp, keys
        self.kind, self.iters = kind, iters
        self.uid, self.gid, self.direct = uid, gid, direct
        self.expect_secure = expect_secure
        self.expect_uid = os.getuid() if uid is None else uid
        self.expect_gid = os.getgid() if gid is None else gid
        self.idx = 0

    def witness(self, key=None):
        def h(x):
            return x.hex() if len(x) <= 200 else x[:100].hex() + "...(%d bytes)" % len(x)
        w = {"mode": self.mode, "profile": self.prof, "kind": self.kind, "path": os.fsdecode(self.path),
             "argv_hex": [h(a) for a in self.argv[:40]], "argc": len(self.argv),
             "envp_hex": [h(e) for e in self.envp[:40]], "envc": len(self.envp)}
        lay = PHDR_LAYOUT.get((self.mode, self.prof))
        if lay:
            w["program_headers"] = lay["key"]
        if self.mode in VARIANTS:
            w["link_variant_flags"] = " ".join(VARIANTS[self.mode][1])
        if self.timens:
            w["time_namespace"] = {"launcher": "unshare --time --fork --monotonic %d --boottime %d" % self.timens,
                                   "monotonic_offset_s": self.timens[0], "boottime_offset_s": self.timens[1]}
        if len(self.envp) <= 40:
            w["envp_repr"] = [repr(e)[:120] for e in self.envp]
        if key is not None:
            w["key_hex"] = key.hex()
            w["key_repr"] = repr(key)
            # the entries that matter for this key
            rel = []
            for i, e in enumerate(self.envp):
                n, v = split_entry(e)
                if n == key or (n and key.startswith(n)) or n.startswith(key):
                    rel.append([i, repr(e)[:160]])
                if len(rel) >= 12:
                    break
            w["related_entries"] = rel
        return w

    def replay_obj(self):
        return {"mode": self.mode, "profile": self.prof, "kind": self.kind, "argv": [a.hex() for a in self.argv],
                "envp": [e.hex() for e in self.envp], "keys": [k.hex() for k in self.keys], "iters": self.iters,
                "uid": self.uid, "gid": self.gid, "direct": self.direct, "timens": list(self.timens) if self.timens else None,
                "hist": [[list(o) for o in h] for h in self.hist]}


def base_mode(mode):
    return VARIANTS[mode][0] if mode in VARIANTS else mode


def kernel_adds_empty_arg():
    try:
        a, b = os.uname().release.split(".")[:2]
        return (int(a), int("".join(c for c in b if c.isdigit()) or 0)) >= (5, 18)
    except ValueError:
        return True


def expected_argv(argv):
    """what the kernel hands to the program: since Linux 5.18 an empty argv is replaced by one empty string"""
    if argv or not kernel_adds_empty_arg():
        return list(argv)
    return [b""]


def probe_input(keys, iters, hist=()):
    b = b"C07I" + struct.pack("<II", iters, len(keys)) + b"".join(struct.pack("<I", len(k)) + k for k in keys)
    b += struct.pack("<I", len(hist))
    for h in hist:
        b += struct.pack("<I", len(h)) + b"".join(struct.pack("<BII", *o) for o in h)
    return b


# ------------------------------------------------------------------------------------------------
# Iterator API histories over args_os() / args(): reference = the same history applied to a plain cursor over the argv
# the driver passed
(OP_NEXT, OP_NTH, OP_SKIP_TAKE, OP_STEP_TAKE, OP_TAKE, OP_LAST, OP_COUNT, OP_FOLD, OP_SKIP_NTH, OP_FRESH, OP_FOR_BREAK,
 OP_SKIP_WHILE_LEN) = range(1, 13)
OP_NAMES = {1: "next", 2: "nth", 3: "by_ref.skip(a).take(b)", 4: "by_ref.step_by(a).take(b)", 5: "by_ref.take(b)",
            6: "by_ref.take(b).last", 7: "by_ref.take(b).count", 8: "by_ref.take(b).fold", 9: "by_ref.skip(a).nth(b)",
            10: "fresh", 11: "for-loop over by_ref, break after b", 12: "next until len>=a (at most b)"}
UMAX = 0xFFFFFFFF          # stands for usize::MAX in the probe
M64 = (1 << 64) - 1


def arg_desc(a, which):
    """what the probe reports for one yielded item: (status, len, adler32, first byte)"""
    import zlib
    if which == 1 and not is_utf8(a):
        return (2, 0, 1, 0)
    return (1, len(a), zlib.adler32(a), a[0] if a else 0)


class ArgCursor:
    """reference iterator: a cursor over the descriptors of the expected argv"""

    def __init__(self, descs):
        self.d = descs
        self.i = 0

    def rem(self):
        return len(self.d) - self.i

    def nth(self, k):
        if k < self.rem():
            self.i += k
            x = self.d[self.i]
            self.i += 1
            return [x]
        self.i = len(self.d)
        return []

    def take(self, b):
        n = min(b, self.rem())
        out = self.d[self.i:self.i + n]
        self.i += n
        return out

    def apply(self, op, a, b):
        """-> (items, nums)"""
        A = (1 << 64) - 1 if a == UMAX else a
        if op == OP_NEXT:
            return self.nth(0), []
        if op == OP_NTH:
            return self.nth(A), []
        if op == OP_SKIP_TAKE:
            if b == 0:
                return [], []
            if A >= self.rem():
                self.i = len(self.d)
                return [], []
            self.i += A
            return self.take(b), []
        if op == OP_STEP_TAKE:
            step = 1 if a == 0 else A
            out = []
            for j in range(b):
                x = self.nth(0 if j == 0 else step - 1)
                if not x:
                    break
                out += x
            return out, []
        if op == OP_TAKE:
            return self.take(b), []
        if op == OP_LAST:
            return self.take(b)[-1:], []
        if op == OP_COUNT:
            return [], [len(self.take(b))]
        if op == OP_FOLD:
            h = 0
            its = self.take(b)
            for (st, ln, hs, _f) in its:
                h = (((h << 7) | (h >> 57)) & M64) ^ hs ^ ln ^ (st << 56)
            return [], [len(its), h]
        if op == OP_SKIP_NTH:
            return self.nth(A + b), []
        if op == OP_FRESH:
            self.i = 0
            return [], []
        if op == OP_FOR_BREAK:
            return self.take(max(b, 1)), []
        if op == OP_SKIP_WHILE_LEN:
            out = []
            for _ in range(b):
                x = self.nth(0)
                if not x:
                    break
                out += x
                if x[0][1] >= a:
                    break
            return out, []
        return [], []


def gen_histories(r, argv, n):
    """n seeded histories; parameters are chosen around the reference cursor's remaining count"""
    descs = [arg_desc(a, 0) for a in argv]
    argc = len(argv)
    # the usual idioms first: pop the program name, then nth / skip / step_by
    hs = [[(OP_NEXT, 0, 0), (OP_NTH, 0, 0), (OP_NTH, 0, 0)],
          [(OP_NEXT, 0, 0), (OP_SKIP_TAKE, 1, argc + 5)],
          [(OP_NEXT, 0, 0), (OP_STEP_TAKE, 2, argc + 5)],
          [(OP_NEXT, 0, 0), (OP_NEXT, 0, 0), (OP_SKIP_NTH, 0, 0), (OP_TAKE, 0, argc + 5)]]
    hs = hs[:max(1, min(n, 4))]
    while len(hs) < n:
        cur = ArgCursor(descs)
        h = []
        for j in range(r.randint(3, 12)):
            rem = cur.rem()

            def pick_k():
                return max(0, r.choice([0, 0, 1, rem - 1, rem, rem + 1, rem // 2, r.randint(0, rem + 2), 2, 3]))

            def pick_b():
                return max(0, r.choice([0, 1, 2, rem, rem + 3, argc + 5, argc + 5, r.randint(0, argc + 5)]))
            c = r.random()
            if j == 0 and c < 0.6:
                o = (OP_NEXT, 0, 0)
            elif c < 0.18:
                o = (OP_NEXT, 0, 0)
            elif c < 0.36:
                o = (OP_NTH, UMAX if r.random() < 0.05 else pick_k(), 0)
            elif c < 0.48:
                o = (OP_SKIP_TAKE, UMAX if r.random() < 0.04 else pick_k(), pick_b())
            elif c < 0.60:
                o = (OP_STEP_TAKE, UMAX if r.random() < 0.04 else max(1, pick_k()), pick_b())
            elif c < 0.67:
                o = (OP_TAKE, 0, pick_b())
            elif c < 0.72:
                o = (OP_LAST, 0, pick_b())
            elif c < 0.77:
                o = (OP_COUNT, 0, pick_b())
            elif c < 0.82:
                o = (OP_FOLD, 0, pick_b())
            elif c < 0.90:
                o = (OP_SKIP_NTH, pick_k(), min(pick_k(), 1000))
            elif c < 0.93:
                o = (OP_FRESH, 0, 0)
            elif c < 0.97:
                o = (OP_FOR_BREAK, 0, pick_b())
            else:
                o = (OP_SKIP_WHILE_LEN, r.choice([0, 1, 2, 8, 4096, 100000]), pick_b())
            h.append(o)
            cur.apply(*o)
        hs.append(h)
    return hs


def parse_records(b):
    """-> (records, complete). records: list of (tag, payload)."""
    if b[:4] != b"C07P":
        return [], False
    i = 4
    recs = []
    n = len(b)
    while i < n:
        if i + 5 > n:
            return recs, False
        tag = chr(b[i])
        ln = struct.unpack_from("<I", b, i + 1)[0]
        if i + 5 + ln > n:
            return recs, False
        recs.append((tag, b[i + 5:i + 5 + ln]))
        i += 5 + ln
    return recs, bool(recs) and recs[-1] == ("Z", b"done")


def execute(lc, scratch, sysmon):
    d = os.path.join(scratch, "l%06d" % lc.idx)
    os.makedirs(d, exist_ok=True)
    inp = probe_input(lc.keys, lc.iters, lc.hist)
    res = {"log": None}
    try:
        if lc.direct:
            # no tracer: used for the long vDSO brackets (argv via subprocess, env as mapping: plain entries only)
            env = dict(split_entry(e) for e in lc.envp)
            kw = {}
            if lc.uid is not None:
                kw["user"] = lc.uid
            if lc.gid is not None:
                kw["group"] = lc.gid
                kw["extra_groups"] = []
            if lc.timens:
                # argv[0] is the path unshare execs (lc.argv[0] was planned as exactly that path)
                cmd = ["unshare", "--time", "--fork", "--monotonic", str(lc.timens[0]), "--boottime", str(lc.timens[1]),
                       "--", lc.path] + [a for a in lc.argv[1:]]
                p = subprocess.run(cmd, env=env, input=inp, stdout=subprocess.PIPE, stderr=subprocess.PIPE, timeout=600, **kw)
            else:
                p = subprocess.run([a for a in lc.argv], executable=lc.path, env=env, input=inp,
                                   stdout=subprocess.PIPE, stderr=subprocess.PIPE, timeout=600, **kw)
        else:
            if lc.uid is not None or lc.gid is not None:
                os.chmod(d, 0o777)
            spec = os.path.join(d, "spec")
            log = os.path.join(d, "log")
            syslog.write_spec(spec, os.fsencode(lc.path) if isinstance(lc.path, str) else lc.path, lc.argv, lc.envp)
            cmd = syslog.sysmon_cmd(log, [], timeout_s=120, idle_ms=0, scope_markers=True, spec=spec, sysmon=sysmon)
            kw = {}
            if lc.uid is not None:
                kw["user"] = lc.uid
            if lc.gid is not None:
                kw["group"] = lc.gid
                kw["extra_groups"] = []
            p = subprocess.run(cmd, input=inp, stdout=subprocess.PIPE, stderr=subprocess.PIPE, timeout=300, **kw)
            if lc.iters:
                try:
                    n228 = 0
                    with open(log, "rb") as f:
                        for line in f:
                            if line.startswith(b"S ") and line.split(b" ", 5)[4] == b"228":
                                n228 += 1
                    res["n228"] = n228
                except OSError:
                    pass
        res.update(rc=p.returncode, out=p.stdout, err=p.stderr.decode("utf-8", "replace"), timed_out=False)
    except subprocess.TimeoutExpired as ex:
        res.update(rc=None, out=ex.stdout or b"", err="", timed_out=True)
    shutil.rmtree(d, ignore_errors=True)
    return res


# ------------------------------------------------------------------------------------------------
class Judge:
    def __init__(self, ck):
        self.ck = ck
        self.nviol = {}
        self.vdso_used = 0
        self.nsample_lookup = 0
        self.nsample_args = 0
        self.nsample_hist = 0
        self.vdso_fallback = 0

    def viol(self, sig, lc, detail, key=None):
        self.ck.count("violating_observations/" + sig)
        n = self.nviol.get(sig, 0)
        self.nviol[sig] = n + 1
        if n >= MAX_VIOL_PER_SIG:
            return
        det = dict(detail)
        det["launch"] = lc.witness(key)
        if n == 0:
            det["replay"] = lc.replay_obj() if sum(map(len, lc.argv)) + sum(map(len, lc.envp)) < 200_000 else None
        self.ck.violation(sig, det)

    def judge(self, lc, res):
        ck = self.ck
        cell = "%s/%s" % (lc.mode, lc.prof)
        what = "launch %s %s kind=%s argc=%d envc=%d" % (lc.mode, lc.prof, lc.kind, len(lc.argv), len(lc.envp))
        if res["timed_out"]:
            ck.note_inconclusive(what + ": watchdog fired")
            return
        rc = res["rc"]
        recs, complete = parse_records(res["out"])
        if rc in (124, 125, 127) and not lc.direct:
            ck.note_inconclusive("%s: launcher status %d (124 watchdog, 125 sysmon, 127 execve refused): %s"
                                 % (what, rc, res["err"][-300:]))
            return
        if lc.timens and rc not in (0, None) and "unshare:" in res["err"]:
            ck.note_inconclusive("%s: unshare failed: %s" % (what, res["err"][-300:]))
            return
        if rc == 3:
            ck.note_inconclusive("%s: probe harness error: %s" % (what, res["err"][-300:]))
            return
        if rc != 0 or not complete:
            # the probe died inside code reached through tiny-std's entry point
            last = recs[-1][0] if recs else None
            stage = STAGE_AFTER.get(last, "unknown")
            sig_no = None
            if rc is not None and rc < 0:
                sig_no = -rc
            elif rc is not None and rc > 128:
                sig_no = rc - 128
            if sig_no is not None:
                how = SIGNAMES.get(sig_no, "signal-%d" % sig_no)
            elif "panicked" in res["err"]:
                how = "panic"
            else:
                how = "exit-%s" % rc
            self.viol("C07/crash/%s/%s/%s" % (lc.mode, stage, how), lc,
                      {"rc": rc, "stderr": res["err"][-600:], "records_seen": len(recs)})
            ck.add_eval(1)
            return
        ck.count("launches")
        ck.count("launches/" + cell)
        lay = PHDR_LAYOUT.get((lc.mode, lc.prof))
        if lay:
            ck.note_distinct("phdr-layout/%s/%s" % (cell, lay["key"]))
            ck.note_distinct("phdr-shape/%s/n=%d/dynamic=%s" % (base_mode(lc.mode), lay["count"], lay["dynamic"]))
        ck.add_eval(1)
        by = {}
        for t, pl in recs:
            by.setdefault(t, []).append(pl)
        by["_args_order"] = [(t, pl) for t, pl in recs if t in "Aa"]      # args(): order of Ok/Err matters
        # relation / argv classes of the link-layout variants are pooled per base mode (coarse distinct keys)
        dcell = cell if lc.mode in MODES else "link-variants"
        self.judge_args(lc, by, dcell)
        self.judge_lookups(lc, recs, dcell)
        self.judge_histories(lc, recs)
        auxv = self.judge_aux(lc, by, cell)
        self.judge_resolve(lc, by, auxv, cell)
        self.judge_vdso(lc, by, res, cell)
        self.judge_reloc(lc, by, cell)

    # --- Iterator API histories ---
    def judge_histories(self, lc, recs):
        ck = self.ck
        if not lc.hist:
            return
        exp_argv = expected_argv(lc.argv)
        argc = len(exp_argv)
        descs = [[arg_desc(a, w) for a in exp_argv] for w in (0, 1)]
        it = iter([(t, pl) for t, pl in recs if t in "Hh"])
        nsteps = 0
        for hidx, h in enumerate(lc.hist):
            for which in (0, 1):
                api = "args_os" if which == 0 else "args"
                cur = ArgCursor(descs[which])
                t, pl = next(it, (None, b""))
                if t != "H" or len(pl) != 37 or struct.unpack_from("<IB", pl, 0) != (hidx, which):
                    ck.note_inconclusive("iterator history records out of step (%s/%s)" % (lc.mode, lc.prof))
                    return
                broken = not self.check_len_hint(lc, api, h, -1, struct.unpack_from("<4Q", pl, 5), cur, argc)
                for step, (op, a, b) in enumerate(h):
                    t, pl = next(it, (None, b""))
                    if t != "h" or len(pl) < 10 or pl[0] != op:
                        ck.note_inconclusive("iterator history step record missing (%s/%s)" % (lc.mode, lc.prof))
                        return
                    if broken:
                        continue        # states have diverged; the first difference of this history was reported
                    if pl[1]:
                        ck.note_inconclusive("iterator history output truncated in the probe")
                        broken = True
                        continue
                    nitems, nnums = struct.unpack_from("<II", pl, 2)
                    got_items = [struct.unpack_from("<BQQB", pl, 10 + 18 * i) for i in range(nitems)]
                    got_nums = list(struct.unpack_from("<%dQ" % nnums, pl, 10 + 18 * nitems))
                    rem_before = cur.rem()
                    exp_items, exp_nums = cur.apply(op, a, b)
                    nsteps += 1
                    state = "fresh" if cur.i == 0 and rem_before == argc else "exhausted" if rem_before == 0 else "partly-consumed"
                    kcls = ("max" if a == UMAX else "lt-rem" if a < rem_before else "eq-rem" if a == rem_before else "gt-rem") \
                        if op in (OP_NTH, OP_SKIP_TAKE, OP_STEP_TAKE, OP_SKIP_NTH) else \
                        ("b0" if b == 0 else "b-lt-rem" if b < rem_before else "b-ge-rem") if op not in (OP_NEXT, OP_FRESH) else "-"
                    ck.note_distinct("iter/%s/%s/%s/%s" % (api, OP_NAMES[op].split(" ")[0], kcls, state))
                    if got_items != [tuple(x) for x in exp_items] or got_nums[:-4] != exp_nums:
                        broken = True
                        runaway = len(got_items) > rem_before and len(got_items) > len(exp_items) and \
                            (len(got_items) >= b > 0 or len(got_items) > argc)
                        sig = "C07/args/iterator-does-not-terminate" if runaway else "C07/args/iterator-history-differs"
                        self.viol(sig, lc, self.hist_detail(lc, api, h, step, rem_before, exp_items, exp_nums, got_items, got_nums[:-4]))
                        continue
                    if not self.check_len_hint(lc, api, h, step, got_nums[-4:], cur, argc):
                        broken = True
        ck.count("iterator_histories", len(lc.hist) * 2)
        ck.count("iterator_steps_compared", nsteps)
        ck.add_eval(nsteps)
        if self.nsample_hist < 2 and argc >= 3 and lc.hist:
            self.nsample_hist += 1
            ck.sample({"what": "iterator history", "cell": "%s/%s" % (lc.mode, lc.prof), "argc": argc,
                       "history": ["%s(a=%d,b=%d)" % (OP_NAMES[o], a, b) for o, a, b in lc.hist[-1]]}, key="hist/%d" % self.nsample_hist)

    def hist_detail(self, lc, api, h, step, rem_before, exp_items, exp_nums, got_items, got_nums):
        def show(items):
            return ["%s len=%d adler=%#x first=%#x" % ("Ok" if s == 1 else "Err", ln, hs, f) for s, ln, hs, f in items[:12]]
        return {"api": api, "history": ["%s(a=%s,b=%d)" % (OP_NAMES[o], "usize::MAX" if a == UMAX else a, b) for o, a, b in h],
                "first_differing_step": step, "remaining_before_step": rem_before,
                "expected_items": show(exp_items), "got_items": show(got_items), "expected_count": len(exp_items),
                "got_count": len(got_items), "expected_nums": exp_nums, "got_nums": got_nums,
                "argv_lengths": [len(a) for a in expected_argv(lc.argv)[:20]]}

    def check_len_hint(self, lc, api, h, step, st, cur, argc):
        """size_hint must bracket the true remaining count; len() must be the remaining count (ExactSizeIterator) -- the
        code at the time of writing reports the TOTAL argc from len() whatever was consumed, which is tolerated (counted)."""
        ln, lo, has_hi, hi = st
        rem = cur.rem()
        ok = lo <= rem and (not has_hi or hi >= rem) and ln in (rem, argc)
        if ln != rem:
            self.ck.count("iterator_len_reports_total_not_remaining")
        if not ok:
            self.viol("C07/args/iterator-len-or-size-hint-wrong", lc,
                      {"api": api, "history": ["%s(a=%s,b=%d)" % (OP_NAMES[o], "usize::MAX" if a == UMAX else a, b) for o, a, b in h],
                       "after_step": step, "remaining": rem, "argc": argc, "len": ln,
                       "size_hint": [lo, hi if has_hi else None]})
        return ok

    # --- argv ---
    def judge_args(self, lc, by, cell):
        ck = self.ck
        exp = expected_argv(lc.argv)
        got_os = by.get("O", [])
        ln = struct.unpack("<Q", by["L"][0])[0] if by.get("L") else None
        ln2 = struct.unpack("<Q", by["l"][0])[0] if by.get("l") else None
        ck.count("args_compared", len(exp) * 2)
        acls = "argv:%s" % ("argc0" if not lc.argv else "1" if len(exp) == 1 else "2-20" if len(exp) <= 20 else
                             "21-199" if len(exp) < 200 else "200+")
        feats = set()
        for a in exp:
            if a == b"":
                feats.add("empty")
            elif not is_utf8(a):
                feats.add("non-utf8")
            if len(a) >= 65536:
                feats.add("long")
        for f in feats or {"plain"}:
            ck.note_distinct("%s/%s/%s" % (cell, acls, f))
        if self.nsample_args < 3 and lc.kind.startswith("argv-") and (not lc.argv or "long" in feats):
            self.nsample_args += 1
            ck.sample({"what": "argv", "cell": cell, "kind": lc.kind, "argc_passed": len(lc.argv), "args_os_len": ln,
                       "lengths": [len(a) for a in exp[:12]], "first_bytes": [a[:8].hex() for a in exp[:6]]},
                      key="argv/%s/%s" % (cell, lc.kind))
        if ln != len(exp) or ln2 != len(exp):
            self.viol("C07/args/len-mismatch", lc, {"expected": len(exp), "args_os_len": ln, "args_len": ln2})
        if got_os != exp:
            first = next((i for i in range(min(len(exp), len(got_os))) if exp[i] != got_os[i]), min(len(exp), len(got_os)))
            self.viol("C07/args/args_os-differs-from-argv", lc,
                      {"expected_count": len(exp), "got_count": len(got_os), "first_diff_index": first,
                       "expected": exp[first][:64].hex() if first < len(exp) else None,
                       "got": got_os[first][:64].hex() if first < len(got_os) else None})
        # args(): Ok(str) iff valid UTF-8
        seq = list(by["_args_order"])
        exp_seq = [("A", a) if is_utf8(a) else ("a", b"") for a in exp]
        if seq != exp_seq:
            first = next((i for i in range(min(len(seq), len(exp_seq))) if seq[i] != exp_seq[i]), min(len(seq), len(exp_seq)))
            self.viol("C07/args/args-differs-from-argv", lc,
                      {"expected_count": len(exp_seq), "got_count": len(seq), "first_diff_index": first})

    # --- environment lookups ---
    def judge_lookups(self, lc, recs, cell):
        ck = self.ck
        it = [(t, pl) for t, pl in recs if t in "UVvk"]
        ix = self.ix = EnvIndex(lc.envp)
        pos = 0
        nlook = 0
        sampled = False
        # W records: var(key) repeated with hostile bytes right behind the (not NUL-terminated) &str key
        ws = {}
        kidx = -1
        for t, pl in recs:
            if t in "Uk":
                kidx += 1
            elif t == "W":
                ws.setdefault(kidx, []).append(pl)
        for kidx, key in enumerate(lc.keys):
            if pos >= len(it):
                ck.note_inconclusive("lookup records missing (%s)" % cell)
                return
            if it[pos][0] == "k":
                ck.note_inconclusive("probe skipped a key (%r)" % key[:40])
                pos += 1
                continue
            u = it[pos]
            v = it[pos + 1] if pos + 1 < len(it) else ("?", b"")
            pos += 2
            ref = ix.lookup(key)
            if nlook % 97 == 0 and ref_lookup(lc.envp, key) != ref:      # the index must agree with the plain definition
                raise RuntimeError("C07 driver: EnvIndex disagrees with ref_lookup for %r" % key)
            rcls = ix.relation_class(key)
            ck.note_distinct("%s/lookup/%s" % (cell, rcls))
            # var_unix
            exp_u = b"\x00" if ref is None else b"\x01" + ref
            nlook += 1
            if u[0] != "U" or u[1] != exp_u:
                self.lookup_viol(lc, key, "var_unix", ref, u[1], rcls)
            # var (needs a &str key)
            if is_utf8(key):
                if ref is None:
                    exp_v = b"\x00"
                elif is_utf8(ref):
                    exp_v = b"\x01" + ref
                else:
                    exp_v = b"\x02"
                nlook += 1
                if v[0] != "V" or v[1] != exp_v:
                    self.lookup_viol(lc, key, "var", ref, v[1], rcls, exp_v)
                for pl in ws.get(kidx, []):
                    nlook += 1
                    ck.count("lookups_with_hostile_byte_after_key")
                    if pl[1:] != exp_v:
                        ck.note_distinct("viol/%s/%s/byte-after-key" % (lc.mode, lc.prof))
                        self.viol("C07/env-lookup/result-depends-on-byte-after-key", lc,
                                  {"api": "var", "byte_after_key": pl[:1].hex(), "relation_class": rcls,
                                   "expected": repr(exp_v[:80]), "got": repr(pl[1:81])}, key=key)
                        break
            elif v[0] != "v":
                ck.note_inconclusive("probe used var() with a non-UTF-8 key?")
            if not sampled and "ppfx" in rcls and self.nsample_lookup < 6 and (lc.idx % 7 == 3 or lc.kind == "mixed"):
                sampled = True
                self.nsample_lookup += 1
                ck.sample({"what": "lookup", "cell": cell, "key": repr(key), "class": rcls,
                           "reference": "missing" if ref is None else repr(ref[:60]),
                           "var_unix(status byte + value)": repr(u[1][:60]),
                           "env_head": [repr(e)[:60] for e in lc.envp[:6]], "envc": len(lc.envp)},
                          key="lookup/" + cell + rcls)
        ck.count("lookups_compared", nlook)
        ck.add_eval(nlook)

    def lookup_viol(self, lc, key, api, ref, got, rcls, exp_v=None):
        pv = self.ix.prefix_entry_value(key)
        got_status = got[:1]
        got_val = got[1:]
        if pv is not None and ((got_status == b"\x01" and got_val == pv) or
                               (api == "var" and got_status == b"\x02" and not is_utf8(pv))):
            sig = "C07/env-lookup/name-is-proper-prefix-of-key"
        elif key == b"" and ref is not None and got_status == b"\x00":
            sig = "C07/env-lookup/empty-key-empty-name-not-found"
        elif ref is None and got_status != b"\x00":
            sig = "C07/env-lookup/expected-missing-got-found"
        elif ref is not None and got_status == b"\x00":
            sig = "C07/env-lookup/expected-found-got-missing"
        elif api == "var" and (got_status == b"\x02") != (exp_v == b"\x02"):
            sig = "C07/env-lookup/var-unicode-status-wrong"
        else:
            sig = "C07/env-lookup/wrong-value"
        self.ck.note_distinct("viol/%s/%s/%s/%s" % (lc.mode, lc.prof, sig.split("/")[-1], api))
        self.viol(sig, lc, {"api": api, "relation_class": rcls,
                            "expected": "missing" if ref is None else "found " + repr(ref[:200]),
                            "got_status": {b"\x00": "missing", b"\x01": "found", b"\x02": "not-unicode"}.get(got_status, "?"),
                            "got_value": repr(got_val[:200])}, key=key)

    # --- aux getters vs /proc/self/auxv ---
    def judge_aux(self, lc, by, cell):
        ck = self.ck
        if not by.get("P") or not by["P"][0] or not by.get("p") or not by.get("G"):
            ck.note_inconclusive("%s: /proc/self/auxv unreadable in the probe" % cell)
            return None
        raw = by["P"][0]
        auxv = {}
        for i in range(0, len(raw) - 15, 16):
            k, v = struct.unpack_from("<QQ", raw, i)
            if k == 0:
                break
            auxv.setdefault(k, v)
        g = by["G"][0]
        uid, gid = struct.unpack_from("<QQ", g, 0)
        has_r = g[16]
        rnd = g[17:33]
        has_e = g[33]
        execfn = g[34:]
        p = by["p"][0]
        own_rnd, own_execfn = p[:16], p[16:]
        n = 0
        checks = [("get_uid", uid, auxv.get(11, 0) & 0xffffffff), ("get_gid", gid, auxv.get(13, 0) & 0xffffffff),
                  ("get_uid-vs-launcher", uid, lc.expect_uid), ("get_gid-vs-launcher", gid, lc.expect_gid),
                  ("get_random-present", bool(has_r), 25 in auxv and auxv[25] != 0),
                  ("get_exec_fn-present", bool(has_e), 31 in auxv and auxv[31] != 0)]
        if has_r:
            checks.append(("get_random", rnd, own_rnd))
        if has_e:
            checks.append(("get_exec_fn", execfn, own_execfn))
            checks.append(("get_exec_fn-vs-launcher", execfn, os.fsencode(lc.path)))
        for name, got, exp in checks:
            n += 1
            if got != exp:
                self.viol("C07/aux/%s-mismatch" % name.split("-vs-")[0], lc,
                          {"field": name, "got": repr(got), "expected": repr(exp)})
        if lc.kind in ("set-user-id", "uid-65534-gid-4243") and lc.prof == "release" and lc.mode in ("dynpie", "staticpie"):
            ck.sample({"what": "aux", "cell": cell, "kind": lc.kind, "get_uid": uid, "get_gid": gid,
                       "auxv": {"AT_UID": auxv.get(11), "AT_EUID": auxv.get(12), "AT_GID": auxv.get(13), "AT_EGID": auxv.get(14),
                                "AT_SECURE": auxv.get(23), "AT_BASE": auxv.get(7), "AT_SYSINFO_EHDR": auxv.get(33)},
                       "get_exec_fn": repr(execfn[-40:])}, key="aux/%s/%s" % (lc.mode, lc.kind))
        ck.count("aux_fields_compared", n)
        ck.add_eval(n)
        ck.note_distinct("%s/aux/uid%s-gid%s-secure%d" % (cell, "0" if lc.expect_uid == 0 else "N",
                                                          "0" if lc.expect_gid == 0 else "N", auxv.get(23, 0)))
        return auxv

    # --- tiny_start::start::resolve on the kernel's initial stack pointer ---
    def judge_resolve(self, lc, by, auxv, cell):
        ck = self.ck
        r = by.get("R", [b"\0"])[0]
        if not r or r[0] != 1:
            ck.count("resolve_skipped")
            return
        vals = struct.unpack_from("<14Q", r, 1)
        sp, argc, argv_p, envp_p = vals[:4]
        names = ["at_base", "at_gid", "at_uid", "at_phdr", "at_phent", "at_phnum", "at_random", "at_secure",
                 "at_sysinfo_ehdr", "at_execfn"]
        keys = [7, 13, 11, 3, 4, 5, 25, 23, 33, 31]
        exp_argv = expected_argv(lc.argv)
        n = 0
        if argc != len(exp_argv) or by.get("r", []) != exp_argv:
            self.viol("C07/resolve/argv-differs", lc, {"argc": argc, "expected_argc": len(exp_argv),
                                                       "walked": len(by.get("r", []))})
        n += 1
        if by.get("E", []) != list(lc.envp):
            got = by.get("E", [])
            first = next((i for i in range(min(len(got), len(lc.envp))) if got[i] != lc.envp[i]), min(len(got), len(lc.envp)))
            self.viol("C07/resolve/environment-block-differs", lc,
                      {"expected_count": len(lc.envp), "got_count": len(got), "first_diff_index": first,
                       "got": repr(got[first][:80]) if first < len(got) else None})
        n += 1
        ck.count("env_entries_compared", len(lc.envp))
        if auxv is not None:
            for nm, k, got in zip(names, keys, vals[4:]):
                n += 1
                if got != auxv.get(k, 0):
                    self.viol("C07/aux/%s-mismatch" % nm, lc, {"field": nm, "got": got, "expected": auxv.get(k, 0),
                                                              "source": "tiny_start::start::resolve vs /proc/self/auxv"})
            if auxv.get(23, 0) != lc.expect_secure:
                ck.note_inconclusive("%s: AT_SECURE=%d, launcher expected %d" % (cell, auxv.get(23, 0), lc.expect_secure))
            ck.note_distinct("%s/auxv/base%s-vdso%s" % (cell, "0" if not auxv.get(7) else "N",
                                                        "0" if not auxv.get(33) else "N"))
        ck.count("aux_fields_compared", n)
        ck.add_eval(n)

    # --- vDSO bracket ---
    def judge_vdso(self, lc, by, res, cell):
        ck = self.ck
        for pl in by.get("T", []):
            clk, iters, fails, kinds = struct.unpack_from("<IIII", pl, 0)
            first = struct.unpack_from("<6q", pl, 16)
            last = struct.unpack_from("<2q", pl, 64)
            cname = "monotonic" if clk == 1 else "realtime"
            ck.count("vdso_brackets_checked", iters)
            ck.count("vdso_brackets_checked/" + cname, iters)
            ck.add_eval(iters)
            ck.note_distinct("%s/vdso/%s/%s" % (cell, cname, "timens" if lc.timens else "direct" if lc.direct else "traced"))
            if lc.timens:
                ck.count("vdso_brackets_checked/time-namespace", iters)
            det = {"clock": cname, "iterations": iters, "failures": fails, "kinds_bitmask(1 Instant,2 MonotonicInstant,4 SystemTime)": kinds,
                   "first_failure(before_s,before_ns,mid_s,mid_ns,after_s,after_ns)": list(first), "last_mid": list(last)}
            if fails and clk == 1:
                self.viol("C07/vdso-clock/monotonic-outside-syscall-bracket", lc, det)
            elif fails >= 2:
                self.viol("C07/vdso-clock/realtime-outside-syscall-bracket", lc, det)
            elif fails == 1:
                ck.note_inconclusive("%s: one REALTIME reading outside its bracket (a clock step cannot be excluded): %s"
                                     % (cell, list(first)))
            if lc.timens and lc.mode == "static" and lc.prof == "release":
                ck.sample({"what": "vdso-bracket in a time namespace", "cell": cell, "clock": cname, "iterations": iters,
                           "failures": fails, "last_mid": list(last), "offsets(monotonic,boottime)": list(lc.timens),
                           "host_monotonic_now": time.clock_gettime(time.CLOCK_MONOTONIC)}, key="vdso-timens/" + cname)
            if lc.direct and not lc.timens and lc.mode == "staticpie":
                ck.sample({"what": "vdso-bracket", "cell": cell, "clock": cname, "iterations": iters,
                           "failures": fails, "last_mid": list(last)}, key="vdso/" + cname)
        if lc.iters and not lc.direct and "n228" in res:
            # 2 clocks x iters brackets: 2 system calls per bracket when the vDSO answers, 3 when tiny-std falls back
            per = res["n228"] / float(2 * lc.iters)
            if abs(per - 2.0) < 0.01:
                self.vdso_used += 1
                ck.count("vdso_path_taken_launches")
                ck.note_distinct("%s/vdso/path-taken" % cell)
            elif abs(per - 3.0) < 0.01:
                self.vdso_fallback += 1
                ck.count("vdso_syscall_fallback_launches")
            else:
                ck.note_inconclusive("%s: unexpected clock_gettime count %d for %d iterations" % (cell, res["n228"], lc.iters))

    def judge_reloc(self, lc, by, cell):
        acc = 5
        acc = acc + 7
        acc = acc * 3
        acc ^= 0x5a5a
        x = acc & 0xffff
        acc = (acc + x * x) & (2 ** 64 - 1)
        x = acc & 0xffff
        acc = (acc + x * (x + 1) // 2) & (2 ** 64 - 1)
        acc = (acc + 42) & (2 ** 64 - 1)
        exp = b"alpha,beta,gamma,delta,epsilon,square,triangle," + struct.pack("<Q", acc)
        got = by.get("S", [b""])[0]
        self.ck.count("reloc_selftests")
        if got != exp:
            self.viol("C07/relocation/static-pointer-tables-wrong", lc, {"got": got.hex(), "expected": exp.hex()})
        # relocation bait: tables in .rodata that decode as RELATIVE records under any stride/phase, canaries in .bss/.data;
        # checked by the probe at main entry (a crash before main is the other outcome, judged as C07/crash/...)
        b = by.get("B", [b""])[0]
        if len(b) != 62:
            self.ck.note_inconclusive("%s: no relocation-bait record from the probe" % cell)
            return
        base, checked, skipped, modified, first_off, first_val = struct.unpack_from("<QIIIQQ", b, 0)
        bait_ok, data_ok = b[36], b[37]
        bait_at, data_at, inbuf_at = struct.unpack_from("<3Q", b, 38)
        self.ck.count("reloc_canary_words_checked", checked + 64)
        self.ck.add_eval(1)
        lay = BAIT_LAYOUT.get((lc.mode, lc.prof))
        if lay and lay.get("bait_start") is not None and lay["bait_start"] - lay["image_base"] != bait_at and lc.path == lc.exe:
            self.ck.note_inconclusive("%s: probe sees C07_BAIT at +%#x, nm says +%#x" % (cell, bait_at, lay["bait_start"] - lay["image_base"]))
        if checked == 0:
            self.ck.note_inconclusive("%s: no bait offset falls into the probe's .bss buffers (layout changed?)" % cell)
        if modified or not bait_ok or not data_ok:
            self.viol("C07/reloc/bait-or-canary-modified", lc,
                      {"image_base": hex(base), "canary_words_checked": checked, "canary_words_modified": modified,
                       "first_modified_link_offset": hex(first_off), "first_modified_value": hex(first_val),
                       "value_minus_base": hex((first_val - base) & (2 ** 64 - 1)),
                       "bait_tables_intact": bool(bait_ok), "data_canary_intact": bool(data_ok),
                       "layout": lay})
        self.ck.note_distinct("%s/reloc-bait/%s" % (cell, "base0" if base in (0, 0x200000, 0x400000) else "relocated"))


BAIT_LAYOUT = {}


def bait_layout(bins):
    """Where does .rela.dyn end and how closely does the bait follow it? (readelf -S / nm on the six binaries)"""
    out = {}
    for (mode, prof), exe in sorted(bins.items()):
        d = {"image_base": 0, "rela_dyn_end": None, "rela_dyn_size": None, "rodata_start": None, "bait_start": None}
        try:
            sec = subprocess.run(["readelf", "-SW", exe], stdout=subprocess.PIPE, stderr=subprocess.PIPE, timeout=60).stdout.decode()
            for line in sec.splitlines():
                f = line.replace("[", " ").replace("]", " ").split()
                if len(f) >= 6 and f[1] == ".rela.dyn":
                    d["rela_dyn_size"] = int(f[5], 16)
                    d["rela_dyn_end"] = int(f[3], 16) + int(f[5], 16)
                elif len(f) >= 6 and f[1] == ".rodata":
                    d["rodata_start"] = int(f[3], 16)
            nm = subprocess.run(["nm", exe], stdout=subprocess.PIPE, stderr=subprocess.PIPE, timeout=60).stdout.decode()
            for line in nm.splitlines():
                f = line.split()
                if len(f) == 3 and f[2] == "C07_BAIT":
                    d["bait_start"] = int(f[0], 16)
                elif len(f) == 3 and f[2] == "__ehdr_start":
                    d["image_base"] = int(f[0], 16)
        except (OSError, ValueError, subprocess.TimeoutExpired):
            pass
        if d["rela_dyn_end"] is not None and d["bait_start"] is not None:
            d["bait_gap_after_rela_dyn"] = d["bait_start"] - d["rela_dyn_end"]
            # a walk that is 1.5 times too long reads rela_dyn_size / 2 bytes behind the table
            d["bait_inside_1.5x_overrun_window"] = d["bait_gap_after_rela_dyn"] + 24 * 13 <= d["rela_dyn_size"] // 2
        out[(mode, prof)] = d
    return out


# ------------------------------------------------------------------------------------------------
TIMENS = {"ok": False, "offsets": (3600, 86400), "why": "not probed"}


def probe_timens():
    """Is `unshare --time` usable and effective here? Verified with an independent program (python) inside the
    namespace: its CLOCK_MONOTONIC / CLOCK_BOOTTIME must be shifted by the requested offsets."""
    mo, bo = TIMENS["offsets"]
    try:
        h1 = (time.clock_gettime(time.CLOCK_MONOTONIC), time.clock_gettime(time.CLOCK_BOOTTIME))
        p = subprocess.run(["unshare", "--time", "--fork", "--monotonic", str(mo), "--boottime", str(bo), "--",
                            os.sys.executable, "-c",
                            "import time;print(time.clock_gettime(time.CLOCK_MONOTONIC), time.clock_gettime(time.CLOCK_BOOTTIME))"],
                           stdout=subprocess.PIPE, stderr=subprocess.PIPE, timeout=60)
        h2 = (time.clock_gettime(time.CLOCK_MONOTONIC), time.clock_gettime(time.CLOCK_BOOTTIME))
        if p.returncode != 0:
            TIMENS.update(ok=False, why="unshare --time exit %d: %s" % (p.returncode, p.stderr.decode("utf-8", "replace")[-200:]))
            return
        m, b = (float(x) for x in p.stdout.split())
        if not (h1[0] + mo <= m <= h2[0] + mo and h1[1] + bo <= b <= h2[1] + bo):
            TIMENS.update(ok=False, why="clock offsets not in effect inside the namespace (monotonic %.1f vs host %.1f, boottime %.1f vs host %.1f)"
                          % (m, h1[0], b, h1[1]))
            return
        TIMENS.update(ok=True, why="")
    except (OSError, ValueError, subprocess.TimeoutExpired) as e:
        TIMENS.update(ok=False, why="unshare --time not usable: %r" % (e,))


def plan(ck, bins, scratch):
    quick = ck.tier == "quick"
    launches = []
    n_small_sample = 130 if quick else 0
    n_random = 120 if quick else 1300
    n_argv = 32 if quick else 96
    base_env = [b"HOME=/root", b"PATH=/usr/bin:/bin", b"LANG=C"]
    all_small = list(small_blocks(3))
    small2 = [t for t in small_blocks(2) if all(len(SMALL_NAMES[i]) <= 2 for i in t)]   # exhaustive core of the quick tier
    full_sizes = (n_small_sample, n_random, n_argv)
    for (mode, prof), exe in sorted(bins.items()):
        r = vlib.rng(ck.seed, "c07", mode, prof)
        mk = lambda argv, envp, keys, kind, **kw: launches.append(Launch(mode, prof, exe, argv, envp, keys, kind, **kw))
        # link-layout variants get the basic argv / env / aux / vDSO / relocation-bait cases (every launch carries the aux,
        # resolve, relocation self-test and bait records), the three base modes the whole workload
        full = mode in MODES
        if full:
            n_small_sample, n_random, n_argv = full_sizes
        else:
            n_small_sample, n_random, n_argv = (6, 4, 8) if quick else (130, 120, 32)
        # 1. small alphabet
        if not full:
            for t in (small2[::6] if quick else small2):
                envp, keys = small_launch(t)
                mk([b"p"], envp, keys_small(envp, keys), "small-exhaustive2")
            for _ in range(n_small_sample):
                t = r.choice(all_small)
                forms = [r.choice([0, 0, 0, 1, 2, 3, 4]) for _ in t]
                envp, keys = small_launch(t, forms=forms)
                mk([b"p"], envp, keys_small(envp, keys), "small-sampled")
        elif quick:
            for t in small2:
                envp, keys = small_launch(t)
                keys = keys_small(envp, keys)
                mk([b"p"], envp, keys, "small-exhaustive2")
            for _ in range(n_small_sample):
                t = r.choice(all_small)
                forms = [r.choice([0, 0, 0, 1, 2, 3, 4]) for _ in t]
                envp, keys = small_launch(t, forms=forms)
                mk([b"p"], envp, keys_small(envp, keys), "small-sampled")
        else:
            for t in all_small:
                envp, keys = small_launch(t)
                mk([b"p"], envp, keys_small(envp, keys), "small-exhaustive3")
            for _ in range(1500):
                t = r.choice(all_small)
                forms = [r.choice([0, 1, 2, 3, 4]) for _ in t]
                envp, keys = small_launch(t, forms=forms)
                mk([b"p"], envp, keys_small(envp, keys), "small-sampled")
        # 2. the hand-made witness and neighbours
        mk([b"start_probe"], [b"HOME=/r"], [b"HOME", b"HOMEX", b"HOM", b"H", b"HOME "], "witness")
        mk([b"start_probe"], [], [b"HOME", b"A"], "empty-env")
        mk([b"start_probe"], [b"A=1", b"AB=2", b"ABC=3", b"ABC=4", b"AB", b"=5", b"", b"B==", b"C="],
           [b"A", b"AB", b"ABC", b"ABCD", b"B", b"C", b"", b"D"], "mixed")
        # 3. random blocks
        for i in range(n_random):
            c = r.random()
            nent = r.randint(1, 12) if c < 0.4 else r.randint(13, 120) if c < 0.85 else r.randint(300, 2500)
            envp = random_block(r, nent)
            argv = random_argv(r, r.choice(["two", "one", "many"]))
            while not budget_ok(argv, envp):
                envp = envp[:len(envp) // 2]
            keys = keys_for(r, envp, 400 if quick else 600)
            mk(argv, envp, keys, "random-block")
        # 4. argv shapes
        kinds = ["empty", "one", "many", "200", "long", "all-empty", "two", "long"]
        for i in range(n_argv):
            kind = kinds[i % len(kinds)]
            argv = random_argv(r, kind)
            envp = list(base_env) if r.random() < 0.5 else random_block(r, r.randint(0, 30))
            while not budget_ok(argv, envp) and argv:
                argv.pop()
            mk(argv, envp, keys_for(r, envp, 40), "argv-" + kind)
        # 5. vDSO: a few traced launches (count of clock_gettime calls tells whether the vDSO answered) and one long
        #    untraced bracket run
        for i in range((2 if quick else 6) if full else 1):
            mk([b"start_probe", b"vdso"], list(base_env), [b"HOME"], "vdso-traced", iters=25)
        mk([b"start_probe", b"vdso"], list(base_env), [b"HOME"], "vdso-direct",
           iters=(400_000 if quick else 5_000_000) if full else (30_000 if quick else 400_000), direct=True)
        # 5b. the same brackets inside a time namespace where CLOCK_MONOTONIC, CLOCK_BOOTTIME (and so their distance
        #     to REALTIME) are pairwise far apart: a vDSO call with the wrong clock id cannot hide behind equal readings
        if TIMENS["ok"]:
            mk([os.fsencode(exe), b"vdso", b"timens"], list(base_env), [b"HOME"], "vdso-timens",
               iters=(60_000 if quick else 1_000_000) if full else (10_000 if quick else 60_000), direct=True,
               timens=TIMENS["offsets"])
        # 6. identities: gid != uid, unprivileged user, set-user-id copy (AT_SECURE), exec through a symlink with a
        #    non-UTF-8 name (AT_EXECFN)
        if os.getuid() == 0:
            mk([b"start_probe"], list(base_env), [b"HOME"], "gid-4242", gid=4242)
            mk([b"start_probe"], list(base_env), [b"HOME"], "uid-65534-gid-4243", uid=65534, gid=4243)
        link = os.path.join(os.fsencode(scratch), b"ln-\xff\xfe %s-%s" % (mode.encode(), prof.encode()))
        try:
            os.symlink(exe, link)
            mk([b"x"], list(base_env), [b"HOME"], "execfn-symlink", path=link)
        except OSError:
            pass
        suid = os.path.join(scratch, "suid-%s-%s" % (mode, prof))
        try:
            shutil.copy(exe, suid)
            # owned by root, started by an unprivileged user without a tracer: real uid 65534, effective uid 0, AT_SECURE = 1
            os.chown(suid, 0, 0)
            os.chmod(suid, 0o6755)
            if os.getuid() == 0:
                mk([b"start_probe"], list(base_env), [b"HOME"], "set-user-id", path=suid, expect_secure=1,
                   uid=65534, gid=4244, direct=True)
        except OSError:
            pass
    for i, lc in enumerate(launches):
        lc.idx = i
        # Iterator API histories: many on the argv-shaped launches, a few everywhere else
        nh = (24 if quick else 40) if lc.kind.startswith("argv-") else 2 if lc.direct else 5
        lc.hist = gen_histories(vlib.rng(ck.seed, "c07-hist", lc.mode, lc.prof, i), expected_argv(lc.argv), nh)
    return launches


def keys_small(envp, keys):
    ks = list(keys)
    if any(split_entry(e)[0] == b"" and split_entry(e)[1] is not None for e in envp):
        ks.append(b"")      # 5a: the empty key only where an empty-named entry exists
    return ks


def run(ck, replay=None):
    bins = build_all()
    for t in VARIANT_BUILD_FAILURES:
        ck.note_inconclusive("link-layout variant not built here (toolchain): " + t)
    ck.extra["program_header_layouts"] = {"%s/%s" % k: v["key"] for k, v in sorted(PHDR_LAYOUT.items())}
    BAIT_LAYOUT.clear()
    BAIT_LAYOUT.update(bait_layout(bins))
    ck.extra["reloc_bait_layout"] = {"%s/%s" % k: v for k, v in BAIT_LAYOUT.items()}
    for k, v in BAIT_LAYOUT.items():
        if k[0] == "staticpie" and not v.get("bait_inside_1.5x_overrun_window"):
            ck.note_inconclusive("staticpie/%s: relocation bait does not closely follow .rela.dyn (%r); an over-long relocation "
                                 "walk may find nothing to bite on" % (k[1], v))
    sysmon = syslog.sysmon_bin()
    scratch = "/tmp/c07-%d" % os.getpid()
    shutil.rmtree(scratch, ignore_errors=True)
    os.makedirs(scratch)
    os.chmod(scratch, 0o755)
    jd = Judge(ck)
    try:
        if replay:
            obj = json.load(open(replay))
            rp = obj["detail"].get("replay") or obj["detail"]
            exe = bins[(rp["mode"], rp["profile"])]
            lc = Launch(rp["mode"], rp["profile"], exe, [bytes.fromhex(a) for a in rp["argv"]],
                        [bytes.fromhex(a) for a in rp["envp"]], [bytes.fromhex(a) for a in rp["keys"]], rp["kind"],
                        iters=rp.get("iters", 0), uid=rp.get("uid"), gid=rp.get("gid"), direct=rp.get("direct", False),
                        timens=tuple(rp["timens"]) if rp.get("timens") else None)
            lc.hist = [[tuple(o) for o in h] for h in rp.get("hist", [])]
            launches = [lc]
        else:
            tp = time.time()
            probe_timens()
            if not TIMENS["ok"]:
                ck.note_inconclusive("time-namespace vDSO brackets skipped: " + TIMENS["why"])
            launches = plan(ck, bins, scratch)
            vlib.log("[c07] planned %d launches in %.1fs" % (len(launches), time.time() - tp))
        t0 = time.time()
        # long direct runs first so they overlap with the many short ones
        order = sorted(launches, key=lambda l: (not l.direct, l.idx))
        with concurrent.futures.ThreadPoolExecutor(max_workers=vlib.NCPU) as ex:
            futs = [(lc, ex.submit(execute, lc, scratch, sysmon)) for lc in order]
            for lc, f in futs:
                try:
                    res = f.result()
                except Exception as e:      # launcher problem, never a verdict
                    ck.note_inconclusive("launch failed in the driver: %r" % (e,))
                    continue
                jd.judge(lc, res)
        vlib.log("[c07] %d launches in %.1fs" % (len(launches), time.time() - t0))
    finally:
        shutil.rmtree(scratch, ignore_errors=True)
    if jd.vdso_used == 0 and not replay:
        ck.note_inconclusive("the vDSO path was never observed to be taken (fallback launches: %d); the vDSO clause is vacuous here"
                             % jd.vdso_fallback)
    ck.exhaustive = False
    ck.extra["small_alphabet_exhaustive"] = ("names over {'',A,B}^<=3, <=3 entries, keys {A,B}^1..4 (+'' where an empty name exists)"
                                             if ck.tier != "quick" else "names {'',A,B}^<=2, <=2 entries; larger blocks sampled")
    ck.extra["kernel"] = os.uname().release
    ck.assume("Linux >= 5.18: an empty argv reaches the program as argc = 1 with one empty string (observed on this kernel)")
    ck.assume("lookup keys contain neither '=' nor NUL; an entry without '=' has no value and matches no key; "
              "the empty key is looked up only against blocks that contain an empty-named entry")
    ck.assume("the initial stack pointer is taken from /proc/self/stat field 28 to re-run tiny_start::start::resolve (dynv = null) "
              "for the aux fields that tiny-std does not expose through getters")
    if TIMENS["ok"]:
        ck.assume("time-namespace launches: `unshare --time --fork --monotonic %d --boottime %d` (offsets verified with an independent "
                  "program inside the namespace); argv[0] there is the probe path because unshare execs it" % TIMENS["offsets"])
    ck.assume("one REALTIME reading outside its bracket per launch is tolerated as a possible clock step (inconclusive); "
              "monotonic brackets are strict")
    return ("probe exec'd with exact raw argv/envp in dynpie/static/staticpie x debug/release; keys on fd 0; reference = first entry "
            "whose name (bytes before first '=') equals the key; small alphabet blocks (names over {A,B}) enumerated, random blocks with "
            "prefix/duplicate/empty/no-'=' structure, keys = names, all proper prefixes, name+suffix, absent; argv 0..200 args, empty, "
            "non-UTF-8, 100-128 KiB; aux getters and tiny_start::resolve vs the probe's own /proc/self/auxv parse; vDSO readings bracketed "
            "by clock_gettime system calls; distinct = (link mode, profile) x (key/name relation class | argv class | aux identity | vdso clock)")
