"""C19: time arithmetic exact-or-None and panic-free; monotonic clock; sleep lower bound.
Oracle: i128 nanosecond reference + catch_unwind (harness bin c19), debug and release."""
import vlib

HARNESS = "engines/harness"


def setup():
    vlib.cargo_build(HARNESS, "harness-debug", bins=["c19"])
    vlib.cargo_build(HARNESS, "harness-release", bins=["c19"], release=True)
    for mode, release in (("staticpie", False), ("static", True), ("dynpie", False)):
        vlib.build_nolibc("probes/clock_probe", "clock_probe" + ("-rel" if release else ""), mode, release)


def run(ck, replay=None):
    quick = ck.tier == "quick"
    dbg = vlib.cargo_build(HARNESS, "harness-debug", bins=["c19"])
    rel = vlib.cargo_build(HARNESS, "harness-release", bins=["c19"], release=True)
    nshard = 4 if quick else 16
    budget = 250_000 if quick else 4_000_000
    jobs = []
    for prof, d in (("debug", dbg), ("release", rel)):
        for i in range(nshard):
            jobs.append(dict(argv=[d + "/c19", "arith", str(ck.seed * 1000 + i), str(budget)], timeout=900))
        jobs.append(dict(argv=[d + "/c19", "clock", str(ck.seed), str(200 if quick else 1500)], timeout=900))
    # the clock path of no-libc *executables* (vDSO when the `vdso` feature is on) is not in the std harness:
    # clock_probe brackets every reading with raw CLOCK_MONOTONIC syscalls, plainly and inside a time namespace
    # in which MONOTONIC, BOOTTIME and REALTIME are far apart (a wrong clock id then leaves the bracket)
    import os, shutil, subprocess
    pj = []
    for mode, release in (("staticpie", False), ("static", True), ("dynpie", False)) if quick else \
            [(m, r) for m in ("staticpie", "static", "dynpie") for r in (False, True)]:
        exe = os.path.join(vlib.build_nolibc("probes/clock_probe", "clock_probe" + ("-rel" if release else ""), mode, release), "clock_probe")
        n = 200_000 if quick else 3_000_000
        pj.append((mode, release, "plain", dict(argv=[exe, str(n)], timeout=600)))
        pj.append((mode, release, "timens", dict(argv=["unshare", "--time", "--fork", "--monotonic", "3600", "--boottime", "86400", "--", exe, str(n)], timeout=600)))
    timens_ok = False
    if shutil.which("unshare"):
        t = subprocess.run(["unshare", "--time", "--fork", "--monotonic", "3600", "--boottime", "86400", "--", "cat", "/proc/uptime"],
                           capture_output=True, text=True)
        try:
            timens_ok = t.returncode == 0 and float(t.stdout.split()[0]) > 86000
        except (ValueError, IndexError):
            timens_ok = False
    if not timens_ok:
        ck.note_inconclusive("time namespaces not usable here: executable clock brackets run without them only")
        pj = [x for x in pj if x[2] == "plain"]
    pres = vlib.run_parallel([x[3] for x in pj])
    for (mode, release, kind, _), r in zip(pj, pres):
        label = "clock_probe %s/%s %s" % (mode, "release" if release else "debug", kind)
        if r["rc"] is not None and r["rc"] < 0:
            ck.violation("C19/clock/executable/probe-crash", dict(label=label, signal=-r["rc"]))
        elif ck.consume_result(r, label):
            ck.note_distinct("executable-clock/%s/%s/%s" % (mode, "release" if release else "debug", kind))
    res = vlib.run_parallel(jobs)
    for j, r in zip(jobs, res):
        prof = "debug" if "harness-debug" in j["argv"][0] else "release"
        if ck.consume_result(r, "%s %s seed=%s" % (prof, j["argv"][1], j["argv"][2])):
            ck.note_distinct("profile/%s/%s" % (prof, j["argv"][1]))
    if not quick:
        # Miri adds little for this safe arithmetic; a small stratified run in thorough only
        mj = []
        for i in range(8):
            argv, env, cwd = vlib.miri_cmd(HARNESS, "harness-miri", "c19",
                                           ["arith", ck.seed * 77 + i, 150, 5 + i], [])
            mj.append(dict(argv=argv, env=env, cwd=cwd, timeout=1500))
        for r in vlib.run_parallel(mj):
            if "error: Undefined Behavior" in r["err"]:
                ck.violation("C19/miri/ub", {"stderr": r["err"][-3000:]})
            elif ck.consume_result(r, "miri arith"):
                ck.note_distinct("profile/miri/arith")
                ck.count("miri_runs")
    ck.exhaustive = False
    ck.extra["boundary_product_exhaustive"] = True
    ck.assume("exactness judged on normalised values with 0 <= seconds <= i64::MAX; negative SystemTime only for panic-freedom")
    ck.assume("sleep verdicts are lower bounds measured on std::time::Instant started before the call; signals delivered via pthread_kill(SIGUSR1)")
    ck.assume("debug build has overflow checks and debug assertions on, release has them off")
    return ("boundary cross product of (seconds, nanos) x durations run exhaustively for Instant and SystemTime in debug and release, "
            "plus boundary-biased random cases; each case compared with an i128-nanosecond reference under catch_unwind; "
            "distinct = (type, op, seconds class, nanos class, duration class, Some/None outcome) cells, clock/sleep cells and profiles")
