"""C01: tiny-std Mutex - mutual exclusion, visibility to the next holder, no lost wake-up / deadlock,
try_lock never blocks and fails only if the mutex was held at some instant during the call.
Oracles and workload: engines/h_locks (harness) + engines/h_locks/driver.py (Miri, native, TSan)."""
import os
import sys

import vlib

sys.path.insert(0, os.path.join(vlib.VERIF, "engines", "h_locks"))
import driver  # noqa: E402

MIN_DISTINCT = 10


def setup():
    driver.setup()


def run(ck, replay=None):
    return driver.run(ck, "m", replay)
