"""C14: tiny-std file-system operations establish their post-conditions for every path and tree.

Oracle: harness engines/h_fs — a model tree (path resolution + predicted snapshot) and std::fs as
independent observer (full snapshot of the sandbox before and after every operation), on the disk
file system and on tmpfs, native debug + release (+ chroot for one-component absolute paths,
+ ASan in the thorough tier for the getdents/Dirent parser)."""
import collections
import concurrent.futures
import json
import os
import shutil
import tempfile

import syslog
import vlib

H = "engines/h_fs"
MIN_DISTINCT = 20
ASAN_FLAGS = ["-Zsanitizer=address", "-Cforce-frame-pointers=yes"]


def setup():
    vlib.cargo_build(H, "h_fs-debug", bins=["h_fs"])
    vlib.cargo_build(H, "h_fs-release", bins=["h_fs"], release=True)


def _fstype(path):
    """file-system type of the mount holding `path` (longest mount-point prefix in mountinfo)"""
    best = ("", "unknown")
    real = os.path.realpath(path)
    try:
        with open("/proc/self/mountinfo") as f:
            for line in f:
                parts = line.split()
                mp = parts[4]
                sep = parts.index("-")
                fst = parts[sep + 1]
                if (real == mp or real.startswith(mp.rstrip("/") + "/")) and len(mp) >= len(best[0]):
                    best = (mp, fst)
    except (OSError, ValueError, IndexError):
        pass
    return best[1]


def _plan(tier, seed):
    """list of (profile, fslabel, mode, seed, budget, chroot)"""
    quick = tier == "quick"
    jobs = []
    for fs in ("disk", "tmpfs"):
        for prof in ("debug", "release"):
            nseq = 4 if quick else 12
            for i in range(nseq):
                jobs.append((prof, fs, "seq", seed * 1000 + i, 450 if quick else 4000, False))
            jobs.append((prof, fs, "rmall", seed * 1000 + 500, 60 if quick else 1500, False))
            jobs.append((prof, fs, "readdir", seed * 1000 + 600, 10 if quick else 100, False))
            jobs.append((prof, fs, "len", seed * 1000 + 700, 10 if quick else 100, False))
            jobs.append((prof, fs, "copy", seed * 1000 + 800, 10 if quick else 100, False))
            jobs.append((prof, fs, "rw", seed * 1000 + 900, 10 if quick else 100, False))
            jobs.append((prof, fs, "cda", seed * 1000 + 950, 12, False))
            # real short transfers: RLIMIT_FSIZE around writers/copy, chunk-fed fifo and /proc for readers
            jobs.append((prof, fs, "short", seed * 1000 + 990, 10 if quick else 100, False))
            # interrupted calls, real signals: SIGUSR1 storm (handler without SA_RESTART) while the call runs
            jobs.append((prof, fs, "sig", seed * 1000 + 995, 10 if quick else 100, False))
        # one-component absolute paths ("/x") can only be exercised inside a chroot
        jobs.append(("debug", fs, "cda", seed * 1000 + 960, 12, True))
        jobs.append(("debug", fs, "seq", seed * 1000 + 970, 300 if quick else 3000, True))
    # interrupted calls, deterministic: EINTR at every position of the operation's own call sequence (sysmon)
    for prof, fs in _eintr_plan(tier, seed):
        jobs.append((prof, fs, "eintr", seed * 1000 + 996, 12 if quick else 40, False))
    # multi-call copies: big copies under a signal storm, copy_file_range results read from the sysmon log
    for fs in ("disk", "tmpfs"):
        jobs.append(("debug", fs, "sigcopy", seed * 1000 + 997, 6 if quick else 30, False))
    if not quick:
        for fs in ("disk", "tmpfs"):
            jobs.append(("asan", fs, "readdir", seed * 1000 + 601, 100, False))
            jobs.append(("asan", fs, "seq", seed * 1000 + 31, 3000, False))
            jobs.append(("asan", fs, "len", seed * 1000 + 701, 10, False))
            jobs.append(("asan", fs, "rmall", seed * 1000 + 501, 300, False))
            jobs.append(("asan", fs, "short", seed * 1000 + 991, 10, False))
    return jobs


# system calls of an operation at which EINTR is injected under sysmon (suppress + return -EINTR)
EINTR_CALLS = ("read", "write", "open", "openat", "getdents64", "copy_file_range", "unlink", "unlinkat",
               "mkdir", "mkdirat", "rmdir")


def _eintr_plan(tier, seed):
    """(profile, fs) pairs for the deterministic EINTR enumeration under engines/sysmon"""
    if tier == "quick":
        return [("debug", "disk"), ("debug", "tmpfs"), ("release", "tmpfs")]
    return [(p, f) for p in ("debug", "release") for f in ("disk", "tmpfs")]


def _eintr_job(binary, base, fs, seed, workdir, tag, max_positions):
    """dry run under sysmon -> per-scenario system-call sequence -> plan (scenario, nr, k) -> injected run.
    Returns dict(dry=run_one result, run=run_one result or None, planned=n, fired=n, seqs={scenario: n calls})."""
    inv = {v: k for k, v in syslog.NR.items()}
    dry_log = os.path.join(workdir, "eintr-%s-dry.log" % tag)
    argv = [binary, "eintr", str(seed), "10", base, fs]
    dry = vlib.run_one(syslog.sysmon_cmd(dry_log, argv, scope_markers=True, timeout_s=200), timeout=300)
    out = dict(dry=dry, run=None, planned=0, fired=0, seqs={})
    if dry["rc"] != 0 or dry["timed_out"]:
        return out
    cur, seqs = {}, collections.defaultdict(list)
    for e in syslog.parse(dry_log):
        if e.k == "M" and e.kind == syslog.MARK["BEGIN"]:
            cur[e.tid] = e.a[0]
        elif e.k == "M" and e.kind == syslog.MARK["END"]:
            cur.pop(e.tid, None)
        elif e.k == "S" and e.tid in cur:
            seqs[cur[e.tid]].append(e.nr)
    rng = vlib.rng(seed, "eintr", tag)
    lines = []
    for scen in sorted(seqs):
        cnt = collections.Counter(seqs[scen])
        out["seqs"][scen] = len(seqs[scen])
        for nr, n in sorted(cnt.items()):
            if inv.get(nr) not in EINTR_CALLS:
                continue
            if n <= max_positions:
                ks = list(range(n))
            else:
                edge = max_positions // 3
                ks = list(range(edge)) + list(range(n - edge, n))
                ks += rng.sample(range(edge, n - edge), min(max_positions - 2 * edge, n - 2 * edge))
            for k in sorted(set(ks)):
                pos = "only" if n == 1 else "first" if k == 0 else "last" if k == n - 1 else "middle"
                lines.append("%d %d %d %s" % (scen, nr, k, pos))
    plan = os.path.join(workdir, "eintr-%s.plan" % tag)
    with open(plan, "w") as f:
        f.write("\n".join(lines) + "\n")
    out["planned"] = len(lines)
    run_log = os.path.join(workdir, "eintr-%s-run.log" % tag)
    out["run"] = vlib.run_one(syslog.sysmon_cmd(run_log, argv + ["plan=" + plan], scope_markers=True, timeout_s=400),
                              timeout=500)
    out["fired"] = sum(1 for e in syslog.parse(run_log) if e.k == "S" and e.inj)
    return out


def _sigcopy_job(binary, base, fs, seed, budget, workdir, tag):
    """big copies under a signal storm, watched by sysmon: how many copy_file_range calls came back partial"""
    log = os.path.join(workdir, "sigcopy-%s.log" % tag)
    argv = [binary, "sigcopy", str(seed), str(budget), base, fs]
    r = vlib.run_one(syslog.sysmon_cmd(log, argv, scope_markers=True, timeout_s=300), timeout=400)
    calls = partial = 0
    for e in syslog.parse(log):
        if e.k == "S" and e.nr == syslog.NR["copy_file_range"]:
            calls += 1
            if 0 < e.ret < e.args[4]:
                partial += 1
    return dict(run=r, calls=calls, partial=partial)


def _label(j):
    prof, fs, mode, seed, budget, chroot = j
    return "%s %s %s seed=%d budget=%d%s" % (prof, fs, mode, seed, budget, " chroot" if chroot else "")


def _parse_label(text):
    w = text.split()
    return (w[0], w[1], w[2], int(w[3].split("=")[1]), int(w[4].split("=")[1]), len(w) > 5 and w[5] == "chroot")


def run(ck, replay=None):
    quick = ck.tier == "quick"
    plan = _plan(ck.tier, ck.seed)
    if replay:
        with open(replay) as f:
            rp = json.load(f)
        ctx = (rp.get("detail") or {}).get("context")
        if ctx:
            plan = [_parse_label(ctx)]
        vlib.log("replaying job: %s" % (ctx or "(whole tier)"))
    bins = {}
    need = {j[0] for j in plan}
    if "debug" in need:
        bins["debug"] = vlib.cargo_build(H, "h_fs-debug", bins=["h_fs"])
    if "release" in need:
        bins["release"] = vlib.cargo_build(H, "h_fs-release", bins=["h_fs"], release=True)
    if "asan" in need:
        try:
            bins["asan"] = vlib.cargo_build(H, "h_fs-asan", bins=["h_fs"], toolchain="nightly",
                                            rustflags=ASAN_FLAGS, target=vlib.TARGET)
        except vlib.BuildError as ex:
            ck.note_inconclusive("ASan build of h_fs failed: %s" % str(ex)[-300:])

    bases = {}
    fstypes = {}
    try:
        bases["disk"] = tempfile.mkdtemp(prefix="c14-", dir=os.environ.get("TMPDIR") or "/tmp")
        if os.path.isdir("/dev/shm") and os.access("/dev/shm", os.W_OK):
            bases["tmpfs"] = tempfile.mkdtemp(prefix="c14-", dir="/dev/shm")
        for k, b in bases.items():
            fstypes[k] = _fstype(b)
        if fstypes.get("tmpfs") != "tmpfs":
            ck.note_inconclusive("/dev/shm is not a writable tmpfs (%s): tmpfs scenarios skipped" % fstypes.get("tmpfs"))
            if "tmpfs" in bases:
                shutil.rmtree(bases.pop("tmpfs"), ignore_errors=True)
        if fstypes.get("disk") == "tmpfs":
            ck.note_inconclusive("the temp dir %s is itself on tmpfs: no disk file system exercised" % bases["disk"])

        jobs, meta = [], []
        pool = concurrent.futures.ThreadPoolExecutor(max_workers=4)
        eintr = []
        sigcopy = []
        for j in plan:
            prof, fs, mode, seed, budget, chroot = j
            if prof not in bins or fs not in bases:
                continue
            if mode == "sigcopy":
                try:
                    syslog.sysmon_bin()
                except vlib.BuildError as ex:
                    ck.note_inconclusive("sysmon build failed: %s" % str(ex)[-300:])
                    continue
                sigcopy.append((j, pool.submit(_sigcopy_job, bins[prof] + "/h_fs", bases[fs], fs, seed, budget,
                                               bases["disk"], "%s-%s" % (prof, fs))))
                continue
            if mode == "eintr":
                # two phases under sysmon; runs beside the other jobs
                try:
                    syslog.sysmon_bin()
                except vlib.BuildError as ex:
                    ck.note_inconclusive("sysmon build failed: %s" % str(ex)[-300:])
                    continue
                eintr.append((j, pool.submit(_eintr_job, bins[prof] + "/h_fs", bases[fs], fs, seed, bases["disk"],
                                             "%s-%s" % (prof, fs), budget)))
                continue
            argv = [bins[prof] + "/h_fs", mode, str(seed), str(budget), bases[fs], fs]
            if chroot:
                argv.append("chroot")
            env = vlib.base_env({"ASAN_OPTIONS": "detect_leaks=0:abort_on_error=0:exitcode=99"}) if prof == "asan" else None
            jobs.append(dict(argv=argv, env=env, timeout=600 if quick else 3600))
            meta.append(j)
        res = vlib.run_parallel(jobs)
        for j, r in zip(meta, res):
            prof, fs, mode, seed, budget, chroot = j
            label = _label(j)
            if prof == "asan" and "ERROR: AddressSanitizer" in r["err"]:
                # the only unsafe code in the process is tiny-std/rusl; the harness itself is safe Rust + 4 libc calls
                kind = "unknown"
                for ln in r["err"].splitlines():
                    if "ERROR: AddressSanitizer:" in ln:
                        kind = ln.split("AddressSanitizer:")[1].split()[0]
                        break
                ck.consume(r["out"], context=label)
                ck.violation("C14/asan/%s/%s" % (mode, kind), {"context": label, "stderr": r["err"][-3000:]})
                continue
            if r["rc"] is not None and r["rc"] < 0:
                # killed by a signal: inside a tiny-std call iff the last marker is a begin marker
                last = ""
                for ln in r["out"].splitlines():
                    if ln.startswith("##"):
                        last = ln
                if last.startswith("##B "):
                    ck.consume(r["out"], context=label)
                    try:
                        op = json.loads(last[4:])
                    except ValueError:
                        op = {"raw": last[4:300]}
                    opname = str(op.get("op", "unknown")).replace(" ", "_")
                    ck.violation("C14/%s/crash-signal-%d" % (opname, -r["rc"]),
                                 {"context": label, "op": op, "stderr": r["err"][-1500:]})
                    continue
            if ck.consume_result(r, label):
                ck.note_distinct("run/%s/%s/%s%s" % (prof, fstypes.get(fs, fs), mode, "/chroot" if chroot else ""))
                ck.count("processes_completed")
        for j, fut in eintr:
            label = _label(j)
            r = fut.result()
            if not ck.consume_result(r["dry"], label + " (dry run)"):
                continue
            if r["run"] is None or not ck.consume_result(r["run"], label):
                continue
            ck.count("eintr_positions_planned", r["planned"])
            ck.count("eintr_injections_fired", r["fired"])
            ck.count("eintr_calls_in_dry_sequences", sum(r["seqs"].values()))
            if r["planned"] and r["fired"] * 2 < r["planned"]:
                ck.note_inconclusive("%s: only %d of %d planned EINTR injections fired" % (label, r["fired"], r["planned"]))
            ck.note_distinct("run/%s/%s/eintr" % (j[0], fstypes.get(j[1], j[1])))
            ck.count("processes_completed", 2)
        for j, fut in sigcopy:
            r = fut.result()
            if ck.consume_result(r["run"], _label(j)):
                ck.count("copy_file_range_calls_observed_under_storm", r["calls"])
                ck.count("copy_calls_that_returned_partial", r["partial"])
                ck.note_distinct("run/%s/%s/sigcopy" % (j[0], fstypes.get(j[1], j[1])))
                ck.count("processes_completed")
        pool.shutdown()
    finally:
        for b in bases.values():
            shutil.rmtree(b, ignore_errors=True)

    ck.exhaustive = False
    ck.extra["file_systems"] = fstypes
    ck.extra["ops_per_kind"] = {k[3:]: v for k, v in ck.counters.items()
                                if k.startswith("op_") and not k.endswith("_err")}
    big = [k for k in ck.counters if k.startswith("largest_directory_seen/")]
    ck.extra["largest_directory"] = max([ck.counters[k] for k in big] or [0])
    for k in big:
        del ck.counters[k]
    ck.assume("judged only when tiny-std returns Ok; a returned Err (ENAMETOOLONG, EEXIST on repeated separators, ...) is counted, not judged")
    ck.assume("observer = std::fs (read_dir, symlink_metadata, read, read_link) from the same process between operations; no concurrent modification of the sandbox")
    ck.assume("runs as the user of the check (root here): permission-denied destination states cannot be produced, read-only files are still writable")
    ck.assume("operations whose path resolves to a fifo/socket are not issued (open would block); source==destination copies are not issued")
    ck.assume("short writes are provoked with a lowered soft RLIMIT_FSIZE (SIGXFSZ ignored) around the tiny-std call only; short reads with a chunk-fed fifo and /proc files; other causes of short transfers (signals, full disk, quotas) are not produced")
    ck.assume("interruptions: (a) SIGUSR1 storms (handler without SA_RESTART) from a helper thread only while the tiny-std call runs; only calls that sleep (fifo open/read/write, copy_file_range of MiBs) are actually interrupted, the counters sig/<op>/signalled say how often a signal arrived; (b) under sysmon the k-th read/write/openat/getdents64/copy_file_range/unlinkat/mkdirat of the operation's dry-run sequence is suppressed and returns -EINTR (<=12 positions per call kind: all, or first/last/seeded middle); an Err(EINTR) surfaced by tiny-std is counted, not judged")
    ck.assume("an Err carrying EFAULT is a violation in every mode (all arguments are live objects of the harness); multi-call copies are produced deterministically with RLIMIT_FSIZE below the source size (first copy_file_range partial, destination left with exactly `limit` bytes) and by signal storms over 6-16 MiB copies watched by sysmon (counter copy_calls_that_returned_partial)")
    ck.assume("paths of 4096 bytes and more are only checked for 'no Ok, no panic'")
    return ("matrices: create_dir_all over (1..12 components) x (every existing-prefix/missing-suffix split) x 6 separator shapes x rel/abs "
            "(+chroot for '/x') and non-directory leaf/ancestor kinds; path lengths stepping over 512 and 4096 bytes for every operation; "
            "copy and write/read over (source size) x (destination absent/shorter/equal/longer/read-only/symlink/dangling/dir); "
            "short transfers: fs::write / append+write_all / overwrite+write_all / copy_file / File::copy under RLIMIT_FSIZE limits (1..100001, page multiples and odd) with payloads just below/at/above the limit, fs::read/read_to_string from chunk-fed fifos and /proc; "
            "interrupted: every operation under SIGUSR1 storms on fifos fed/drained in bursts, MiB-sized files/copies, 2500-entry directories, deep trees and 12-component create_dir_all; and 16 scenarios under sysmon with EINTR injected at the positions of their own system-call sequence; "
            "directory iteration + remove_dir_all over name-length profiles 1..255 x entry counts up to 5000 (12000 thorough) with files/dirs/"
            "symlinks/fifos; remove_dir_all over random trees (depth<=6) with links into a sentinel tree; seeded random operation sequences on a "
            "random tree with byte-arbitrary names. Every operation bracketed by full std::fs snapshots of the sandbox (operated tree + sentinel) "
            "and compared with the model's predicted snapshot; on disk fs and tmpfs, debug and release. "
            "distinct = (operation, path-shape class [rel/abs, component-count class, separators, trailing, length class], prior-state class, outcome) "
            "cells plus (profile, fs, mode) runs")
