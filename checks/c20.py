"""C20: parsers derived with tiny-cli's ArgParse/Subcommand accept exactly their declared grammar, round-trip
every value assignment under every option order, reject the rest with an error value carrying the relevant
help text, never panic.
Oracle: 29 derived shapes compiled into engines/h_cli, each with a hand-written grammar description and
struct->value conversion; generic renderer + reference reading of an argument list; catch_unwind around every
parse and every rendering of the error value; native debug and release, Miri on a sample."""
import json
import re

import vlib

CRATE = "engines/h_cli"


def setup():
    vlib.cargo_build(CRATE, "h_cli-debug", bins=["h_cli"])
    vlib.cargo_build(CRATE, "h_cli-release", bins=["h_cli"], release=True)


def _ub_signature(err):
    m = re.search(r"error: Undefined Behavior: (.*)", err)
    msg = (m.group(1) if m else "unknown").lower()
    for word, kind in (("uninitialized", "uninitialized-read"), ("out-of-bounds", "out-of-bounds"),
                       ("dangling", "dangling-pointer"), ("borrow", "aliasing"), ("tag", "aliasing")):
        if word in msg:
            break
    else:
        kind = "_".join(re.findall(r"[a-z]+", re.sub(r"0x[0-9a-f]+|alloc\d+|\d+", "", msg))[:6])
    where = "harness"
    for fm in re.finditer(r"^\s*\d+: (.+)$", err, re.M):
        fn = fm.group(1).strip()
        if fn.startswith(("tiny_std::", "rusl::", "<tiny_std::", "<rusl::", "<shapes::")):
            fn = re.sub(r"::<.*", "", fn)
            fn = re.sub(r"::\{closure.*", "", fn)
            where = re.sub(r"[^A-Za-z0-9_:]", "", fn)
            break
    return "C20/miri/ub/%s/%s" % (kind, where)


def run(ck, replay=None):
    if replay:
        with open(replay) as f:
            rp = json.load(f)
        ck.seed = int(rp.get("seed", ck.seed))
        ck.tier = rp.get("tier", ck.tier)
    quick = ck.tier == "quick"
    dbg = vlib.cargo_build(CRATE, "h_cli-debug", bins=["h_cli"])
    rel = vlib.cargo_build(CRATE, "h_cli-release", bins=["h_cli"], release=True)
    seed = ck.seed
    jobs = []

    def add(prof, d, mode, budget, shard, nshards):
        jobs.append(dict(argv=[d + "/h_cli", mode, str(seed), str(budget), str(shard), str(nshards)], timeout=3000,
                         _what="%s %s seed=%d budget=%s shard=%d/%d" % (prof, mode, seed, budget, shard, nshards)))

    for prof, d in (("debug", dbg), ("release", rel)):
        ns = 4 if quick else 16
        for i in range(ns):
            # every shard works on all shapes with its own random stream
            add(prof, d, "sweep", 60 if quick else (2500 if prof == "release" else 600), i, ns)
            add(prof, d, "random", 6_000 if quick else (250_000 if prof == "release" else 60_000), i, ns)
        na = 2 if quick else 8
        for i in range(na):
            # full sweep in both tiers: pads 0..4 x 6 fillers x total lengths 80..=160, every shape
            add(prof, d, "align", 0, i, na)
        add(prof, d, "static", 0, 0, 1)
    res = vlib.run_parallel([{k: v for k, v in j.items() if not k.startswith("_")} for j in jobs])
    for j, r in zip(jobs, res):
        if ck.consume_result(r, j["_what"]):
            ck.note_distinct("profile/%s/%s" % (j["_what"].split()[0], j["argv"][1]))

    # Miri sample: shapes dealt round-robin to the shards, time-boxed
    nm = 10 if quick else 16
    secs = 30 if quick else 400
    budget = 2 if quick else 40
    argv, env, cwd = vlib.miri_cmd(CRATE, "h_cli-miri", "h_cli", ["none", 0, 0], ["-Zmiri-disable-isolation"])
    warm = vlib.run_one(argv, env=env, cwd=cwd, timeout=1800)
    mj = []
    for i in range(nm):
        argv, env, cwd = vlib.miri_cmd(CRATE, "h_cli-miri", "h_cli", ["miri", seed * 7 + 1, budget, i, nm, secs],
                                       ["-Zmiri-disable-isolation"])
        mj.append(dict(argv=argv, env=env, cwd=cwd, timeout=secs * 6 + 600))
    ok_miri = 0
    for i, r in enumerate(vlib.run_parallel(mj)):
        what = "miri sample shard %d/%d seed=%d" % (i, nm, seed * 7 + 1)
        if "error: Undefined Behavior" in r["err"]:
            ck.consume(r["out"], context=what)
            ck.violation(_ub_signature(r["err"]), {"context": what, "stderr": r["err"][-3500:]})
        elif ck.consume_result(r, what):
            ok_miri += 1
            ck.count("miri_shards_completed")
            ck.count("miri_evaluations", sum(int(l.split()[1]) for l in r["out"].splitlines() if l.startswith("@@EVAL ")))
    if ok_miri:
        ck.note_distinct("profile/miri/sample")
    elif warm["rc"] != 0:
        ck.note_inconclusive("miri build/run failed: %s" % warm["err"][-400:])
    ck.exhaustive = False
    ck.extra["shapes"] = 29
    ck.extra["alignment_sweep"] = "ASCII pad 0..=4 (letters and dashes) x 2/3/4-byte and mixed fillers x total 80..=160 bytes"
    ck.extra["all_orders_up_to_units"] = 5
    ck.assume("declared grammar: an argument equal to an option literal of the current level is that option, the "
              "argument after a valued option is its value whatever it looks like, -h/--help elsewhere is a help request, "
              "a command literal starts the command whose parser reads the rest of the line, anything else fills the next "
              "free positional or is an error; positional values equal to a literal of their level are not generated")
    ck.assume("option literals are the derive's normalised form (lower-case, '_' -> '-'); what happens to a literal "
              "written in upper case is recorded as an observation sample, not judged")
    ck.assume("a single-valued option or a unit command given more than once is judged for panic freedom only")
    ck.assume("for rejected lines the verdict is: Err, help text of a level the reference entered, non-empty cause, "
              "Display = help + cause; agreement on the cause class is reported in counters only, because a line may "
              "carry several defects. A help request met first must display exactly the help text of its level")
    ck.assume("argument vectors contain no interior NUL (they cannot, coming from argv)")
    return ("29 derived parsers (incl. fields that claim the built-in -h / --help spellings, in structs with and without a command; required/optional/repeated options, aliases, flags, required and optional positionals, "
            "&str/&UnixStr/String/UnixString/integer/custom FromStr fields, required, optional and nested subcommands); "
            "per shape: random value assignments with boundary values rendered under all orders of their option/positional "
            "units when there are at most 5 (sampled orders beyond) and parsed back; 14 kinds of mutation of the rendered "
            "lines, a help request at every argument boundary, an alignment sweep (multi-byte text with ASCII pads 0..4 and total "
            "lengths 80..160 as unknown argument, option value, number and echoed conversion error, so that every code-point "
            "offset meets the edge of the 128-byte cause buffer), and random argument vectors over literals/numbers/arbitrary "
            "bytes, all compared with a reference reading of the declared grammar under catch_unwind; debug + release, "
            "time-boxed Miri sample. distinct = (shape, case kind, unit-count bucket / mutation kind, order class, "
            "reference class, outcome) cells")
