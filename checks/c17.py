"""C17: io_uring rings in rusl -- exactly-once, in-order hand-over of submission entries and
completions between the wrapper and a simulated kernel, across the u32 index wrap.

Oracle: engines/h_ring builds an IoUring over harness memory (hook verif_from_raw_parts) and plays
the kernel side of both rings in the same thread, following the real protocol (Acquire tail /
Release head, sq_array indirection initialised as rusl's setup does, CQ capacity from the shared
head).  Sequence numbers in user_data + full entry patterns + an ownership map per slot decide.
Debug (overflow checks on) and release builds, Miri sample for out-of-bounds/stride errors."""
import json
import re

import vlib

CRATE = "engines/h_ring"
U32 = 0xFFFFFFFF


def _exh_configs():
    """(e, cqe, sq_head_start, cq_head_start, flags, sq_prefilled, cq_prefilled) for the
    exhaustive short-interleaving domain: ring sizes 1 and 2, every start class."""
    out = []
    flag_cycle = [0, 7, 2, 4, 1, 3, 5, 6]
    i = 0
    for e in (1, 2):
        cqe = 2 * e
        sq_starts = [0, 0x7FFFFFFF] + [U32 - k for k in range(2 * e, -1, -1)]
        cq_starts = [0, 0x7FFFFFFF] + [U32 - k for k in range(2 * cqe, -1, -1)]
        for sq0 in sq_starts:
            for cq0 in cq_starts:
                for (sqf, cqf) in ((0, 0), (e, 0), (0, cqe), (1, 1)):
                    out.append((e, cqe, sq0, cq0, flag_cycle[i % 8], sqf, cqf))
                    i += 1
    return out


def _miri_classify(ck, r, what):
    err = r["err"]
    if "Data race detected" in err:
        # two-thread mode: the kernel thread is ordered with the application through the ring words
        # only, so unordered plain accesses mean a missing Release/Acquire on one of them
        m = re.search(r"error: Undefined Behavior: (Data race detected[^\n]*)", err)
        fns = re.findall(r"\d+: (?:mt::)?(kernel_reads_sqe|kernel_writes_cqe|app_fills_sqe|app_copies_cqe_tail|[\w:]*get_next_cqe[\w:{}#]*|[\w:]*app_side)", err)
        obj = "unknown"
        if any("sqe" in f for f in fns):
            obj = "submission queue entry (application's plain write vs kernel thread's plain read)"
        elif fns:
            obj = "completion queue entry (kernel thread's plain write vs application's plain read)"
        ck.violation("C17/miri/data-race", {"error": m.group(1) if m else "", "accessed_object": obj, "frames": fns[:4],
                                            "stderr": err[max(0, err.find("error:")):][:2500], "context": what})
        return False
    if "error: Undefined Behavior" in err or "error: unsupported operation" in err or "error: memory leaked" in err:
        m = re.search(r"error: ([^\n]*)", err)
        frames = re.findall(r"(?:-->|at) (/[^\s:]+):(\d+)", err)
        first = frames[0][0] if frames else ""
        in_repo = [f for f in frames if "/rusl/src/" in f[0]]
        if "Undefined Behavior" in err and in_repo and "/rusl/src/" in first:
            ck.violation("C17/miri/ub/%s" % in_repo[0][0].split("/rusl/src/")[1].replace("/", "."),
                         {"error": m.group(1) if m else "", "frame": "%s:%s" % in_repo[0], "stderr": err[-3000:], "context": what})
        else:
            ck.note_inconclusive("%s: Miri stopped outside repository code (%s)" % (what, (m.group(1) if m else "")[:200]))
        return False
    return True


def setup():
    vlib.cargo_build(CRATE, "h_ring-debug")
    vlib.cargo_build(CRATE, "h_ring-release", release=True)
    argv, env, cwd = vlib.miri_cmd(CRATE, "h_ring-miri", "h_ring", ["rand", 0, 0, 0, 1], [])
    vlib.run_one(argv, env=env, cwd=cwd, timeout=1800)


def run(ck, replay=None):
    quick = ck.tier == "quick"
    dbg = vlib.cargo_build(CRATE, "h_ring-debug") + "/h_ring"
    rel = vlib.cargo_build(CRATE, "h_ring-release", release=True) + "/h_ring"

    if replay:
        d = json.load(open(replay))["detail"]
        if "cfg" not in d:  # real-kernel witness: the run is short, repeat it whole
            for exe in (dbg, rel):
                ck.consume_result(vlib.run_one([exe, "real", str(ck.seed * 53), "400"]), "replay real-kernel")
            return "replay of the real-kernel runs"
        c = d["cfg"]
        flags = (1 if c["sqpoll"] else 0) | (2 if c["sqe128"] else 0) | (4 if c["cqe32"] else 0)
        exe = dbg if d.get("profile") == "debug" else rel
        r = vlib.run_one([exe, "replay", "0", "0", str(c["sq_entries"]), str(c["cq_entries"]), str(c["sq_head_start"]),
                          str(c["cq_head_start"]), str(flags), str(c["sq_prefilled"]), str(c["cq_prefilled"]), d["steps"]])
        vlib.log(r["err"])
        ck.consume_result(r, "replay")
        return "replay of one scripted interleaving"

    jobs = []
    # exhaustive short interleavings for sizes 1 and 2 (first: their witnesses are the short ones)
    cfgs = _exh_configs()
    for prof, exe in (("debug", dbg), ("release", rel)):
        for c in cfgs:
            if quick:
                length = 7
            else:
                length = 10 if (c[5], c[6]) == (0, 0) else 8
            jobs.append(("%s exh len=%d cfg=%s" % (prof, length, c),
                         dict(argv=[exe, "exh", str(ck.seed), str(length)] + [str(x) for x in c], timeout=3600)))
    # real kernel: rings from rusl::io_uring::setup_io_uring (requested sizes incl. non-powers of
    # two), several laps, close(bad fd) operations stamped in user_data (engines/h_ring/src/real.rs)
    for prof, exe in (("debug", dbg), ("release", rel)):
        for i in range(2 if quick else 8):
            jobs.append(("%s real-kernel #%d" % (prof, i),
                         dict(argv=[exe, "real", str(ck.seed * 53 + i), str(400 if quick else 5000)], timeout=900)))
    # two-thread mode natively (sequence / content checks with real threads; the race oracle is Miri, below)
    for prof, exe in (("debug", dbg), ("release", rel)):
        for kind in (0, 1, 2):
            jobs.append(("%s two-thread kind %d" % (prof, kind),
                         dict(argv=[exe, "mt", str(ck.seed * 11 + kind), str(300 if quick else 5000), str(kind)], timeout=900)))
    # random long interleavings, systematic over (size, cq size, sq start, cq start)
    nshard = 16
    runs = 40_000 if quick else 250_000
    for prof, exe in (("debug", dbg), ("release", rel)):
        for i in range(nshard):
            jobs.append((prof + " rand shard %d" % i,
                         dict(argv=[exe, "rand", str(ck.seed * 131 + 7), str(runs), str(i), str(nshard)], timeout=1800)))
    import time
    t0 = time.time()
    res = vlib.run_parallel([j for _, j in jobs])
    vlib.log("[c17] %d native jobs %.1fs" % (len(jobs), time.time() - t0))
    t0 = time.time()
    exh_ok = True
    for (what, _), r in zip(jobs, res):
        ok = ck.consume_result(r, what)
        if " exh " in what and not ok:
            exh_ok = False

    # Miri sample: same random generator, few runs per shard (exact-size allocations, no red zones)
    mshards = 16
    mruns = 10 if quick else 100
    mj = []
    for i in range(mshards):
        argv, env, cwd = vlib.miri_cmd(CRATE, "h_ring-miri", "h_ring",
                                       ["rand", ck.seed * 17 + 3, mruns, i, mshards], [])
        mj.append(dict(argv=argv, env=env, cwd=cwd, timeout=2400))
    # a zero-run invocation first: builds the Miri target once instead of 16 shards queueing on the lock
    argv, env, cwd = vlib.miri_cmd(CRATE, "h_ring-miri", "h_ring", ["rand", 0, 0, 0, 1], [])
    vlib.run_one(argv, env=env, cwd=cwd, timeout=1200)
    # two-thread Miri runs: kind 0 = SQPOLL ring, kernel thread ordered through the SQ tail only (decides the
    # tail's Release); 1 = non-SQPOLL control with io_uring_enter modelled as a Release/Acquire pair;
    # 2 = SQPOLL long runs with CQ slot reuse gated on a "copied" counter (documented hazard kept out)
    mt_what = []
    nseed = 2 if quick else 8
    for kind, rates, rings in ((0, (0.01, 0.1, 0.5), 6 if quick else 24), (1, (0.01, 0.1, 0.5), 4 if quick else 12), (2, (0.01, 0.1, 0.5), 4 if quick else 12)):
        for rate in rates:
            for sd in range(nseed if kind == 0 else max(1, nseed // 2)):
                mseed = (ck.seed + 7 * sd + kind) % 100000
                argv, env, cwd = vlib.miri_cmd(CRATE, "h_ring-miri", "h_ring", ["mt", ck.seed * 3 + sd, rings, kind],
                                               ["-Zmiri-preemption-rate=%s" % rate, "-Zmiri-seed=%d" % mseed])
                mj.append(dict(argv=argv, env=env, cwd=cwd, timeout=2400))
                mt_what.append("miri two-thread kind=%d preemption-rate=%s miri-seed=%d prog-seed=%d" % (kind, rate, mseed, ck.seed * 3 + sd))
    mres = vlib.run_parallel(mj)
    mt_res = mres[mshards:]
    mres = mres[:mshards]
    for what, r in zip(mt_what, mt_res):
        if _miri_classify(ck, r, what) and ck.consume_result(r, what):
            ck.count("miri_two_thread_runs_completed")
    vlib.log("[c17] miri %.1fs (slowest shard %.1fs)" % (time.time() - t0, max(r["wall"] for r in mres)))
    for i, r in enumerate(mres):
        what = "miri rand shard %d" % i
        if _miri_classify(ck, r, what):
            if ck.consume_result(r, what):
                ck.count("miri_shards_completed")

    ck.exhaustive = bool(exh_ok)
    ck.extra["exhaustive_domain"] = (
        "every sequence of exactly %s calls over {get slot+fill, flush, reap, kernel consumes 1, kernel posts 1} "
        "followed by a drain, ring sizes 1 and 2 (cq = 2x), head start in {0, 2^31-1, u32::MAX-k for k<=2*entries} "
        "independently for SQ and CQ, prefilled (0,0),(full,0),(0,full),(1,1); %d configurations x debug/release"
        % ("7" if quick else "10 (empty start) / 8 (prefilled start)", len(cfgs)))
    ck.assume("simulator: the kernel side runs in the same thread, interleaving at call granularity as the property fixes it. "
              "Memory ordering is judged separately by the two-thread Miri runs: a kernel thread ordered with the application "
              "through the ring words only (Acquire tail / plain SQE reads / Release head; plain CQE writes / Release tail); "
              "Miri's data-race detector is the oracle, for the seeds and preemption rates run")
    ck.assume("two-thread runs: a CQE is copied out before the next get_next_cqe call, and the kernel thread never reuses a CQ slot "
              "before the application published a 'copied' counter (SQPOLL-long) or re-entered the modelled io_uring_enter (control); "
              "the documented hazard -- get_next_cqe advances the head before the caller reads through the returned reference -- "
              "is thereby kept out of the verdict (DESIGN 5a). In the deciding SQPOLL runs (kind 0) at most cq_entries operations "
              "are issued so that the SQ tail is the only application->kernel edge")
    ck.assume("real-kernel mode: io_uring must be available to the process; close of an unopened descriptor completes inline with -EBADF, "
              "in submission order; consumption = the count io_uring_enter reports as submitted")
    ck.assume("sq_array is initialised to the identity as rusl::io_uring::setup_io_uring does; ring sizes are powers of two (1,2,4,8; cq = n or 2n)")
    ck.assume("observations that are not refuting events are only counted: None from get_next_sqe_slot with free slots, "
              "entries consumed before flush, get_next_cqe releasing the slot before the caller reads through the reference")
    ck.assume("debug build has overflow checks on, release off; a panic inside a wrapper call is a violation")
    ck.assume("SQPOLL wake-up protocol: rusl has no submit helper, IoUring::needs_wakeup is the library's whole part; the simulated "
              "application calls it after every flush and 'enters with IORING_ENTER_SQ_WAKEUP' exactly when it says so. The simulated "
              "poll thread sleeps only on an empty ring (sets IORING_SQ_NEED_WAKEUP, consumes nothing until woken) and moves the "
              "IORING_SQ_CQ_OVERFLOW / IORING_SQ_TASKRUN bits of the same word at any time; needs_wakeup() must equal 'thread sleeps'. "
              "Real kernel: SQPOLL ring, sq_thread_idle 1 ms, 20 ms pause; a completion missing for 1 s counts only if the wrapper "
              "asked for no wake-up and the harness's own SQ_WAKEUP enter then produces it")
    return ("scripted interleavings of application calls {get_next_sqe_slot+fill, flush_submission_queue, get_next_cqe+copy} and "
            "simulated-kernel steps {consume k, post k} on a ring built over harness memory; random runs cycle through every "
            "(ring size 1/2/4/8, cq size n/2n, SQ head start, CQ head start) with random prefill, flags (SQPOLL/SQE128/CQE32) and "
            "one of six step-weight personalities; the kernel side also lets the SQPOLL thread go idle (NEED_WAKEUP) and sets the "
            "other sq flag bits, the application asks needs_wakeup() after every flush and wakes the thread accordingly; "
            "short runs are enumerated exhaustively; each run ends with a drain; "
            "plus real-kernel runs: rings set up by setup_io_uring with requested sizes 1..9,12,24,33,100, batches of stamped close(bad fd) "
            "operations over several laps, completions compared with submissions per batch; "
            "distinct = (profile, size, cq size, SQ start class, CQ start class) cells, (size, flags) cells and ring events reached "
            "(index wraps, 2^31 crossings, SQ full, CQ full)")
