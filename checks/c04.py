"""C04: memory tiny-std's allocator holds from the OS is bounded by peak demand, not by history length.

Oracle: (1) probes/alloc_probe, a no-libc executable running on the shipped global allocator (GlobalDlMalloc
behind tiny-std's Mutex), repeats allocate-then-free-everything workloads (shape x free order x threads) and
prints VmSize from /proc/self/statm at quiescence after every repetition; (2) engines/h_alloc (bin c04) runs the
single-threaded shapes on a private Dlmalloc and prints verif_stats().footprint (the allocator's own figure)
next to the process' VmSize. Rules, on logical quantities only:
  non-growth: held(i) <= max(held(0..W)) + S + F for all i >= W      (W = 3, S = 2 MiB trim threshold + 64 KiB)
              F = 2*peak_live: what is still mapped at quiescence legitimately wanders between ~0 and the peak
              footprint (whether the last free triggers the trim / segment release depends on the segment
              layout, which the kernel's 2 MiB alignment of large mappings and thread stacks keep changing)
  absolute  : max held <= 8*peak_live + 64 MiB
"""
import json

import vlib

PROBE = "probes/alloc_probe"
CRATE = "engines/h_alloc"
PAGE = 4096
W = 3
S = 2 * 1024 * 1024 + 64 * 1024
SHAPES = ["small", "large", "mixed", "overaligned", "ladder"]
ORDERS = ["lifo", "fifo", "random"]
# repetitions per shape: (quick, thorough single-threaded, thorough threaded)
REPS = {"small": (3000, 60000, 60000), "overaligned": (1500, 8000, 20000), "mixed": (500, 4000, 4000),
        "ladder": (120, 1500, 1500), "large": (200, 2000, 2000)}


def _build():
    probe = vlib.build_nolibc(PROBE, "alloc_probe", "static", True) + "/alloc_probe"
    harn = vlib.cargo_build(CRATE, "h_alloc-release", bins=["c04"], release=True) + "/c04"
    return probe, harn


def setup():
    _build()


def parse(out):
    base = None
    held, vm, failed = [], [], 0
    summ = None
    for line in out.splitlines():
        p = line.split()
        if not p:
            continue
        if p[0] == "B" and len(p) >= 2:
            base = int(p[1])
        elif p[0] == "R" and len(p) >= 4 and base is not None:
            held.append((int(p[2]) - base) * PAGE)
            failed += int(p[3])
            if len(p) >= 5:
                vm.append(int(p[4]) * PAGE)
        elif p[0] == "S" and len(p) >= 4:
            summ = (int(p[1]), int(p[2]), int(p[3]))
    return held, vm, failed, summ


def slope_last_half(series):
    n = len(series)
    xs = list(range(n // 2, n))
    if len(xs) < 2:
        return 0.0
    ys = series[n // 2:]
    mx = sum(xs) / len(xs)
    my = sum(ys) / len(ys)
    den = sum((x - mx) ** 2 for x in xs)
    return sum((x - mx) * (y - my) for x, y in zip(xs, ys)) / den if den else 0.0


def judge(ck, wl, series, peak_live, threads, what):
    """apply both rules to one held-series; returns True if a violation was reported"""
    F = 2 * peak_live
    ref = max(series[:W])
    limit = ref + S + F
    bad = False
    for i in range(W, len(series)):
        if series[i] > limit:
            tail = series[-1]
            ck.violation("C04/%s/%s/held-grows-with-repetitions" % (wl["shape"], "threads" if threads > 1 else "single-thread"),
                         {"workload": wl, "measured": what, "first_repetition_over_limit": i, "held_there": series[i],
                          "max_of_first_%d" % W: ref, "slack_S": S, "schedule_allowance_F": F, "peak_live_bytes": peak_live,
                          "held_first_6": series[:6], "held_last_6": series[-6:], "held_last": tail,
                          "growth_per_repetition_last_half": round(slope_last_half(series), 1)})
            bad = True
            break
    mx = max(series)
    if mx > 8 * peak_live + (64 << 20):
        ck.violation("C04/%s/%s/held-exceeds-8x-peak-live-plus-64MiB" % (wl["shape"], "threads" if threads > 1 else "single-thread"),
                     {"workload": wl, "measured": what, "max_held": mx, "peak_live_bytes": peak_live})
        bad = True
    return bad


def run(ck, replay=None):
    quick = ck.tier == "quick"
    probe, harn = _build()
    rng = vlib.rng(ck.seed, "c04")
    jobs, meta = [], []

    def add(kind, shape, order, threads, mode, reps, seed):
        wl = dict(runner=kind, shape=shape, order=order, threads=threads, frees="by main after join" if mode == "handoff" else "by allocating thread",
                  reps=reps, seed=seed)
        if kind == "probe":
            argv = [probe, shape, order, str(threads), str(reps), str(seed), mode]
            wl["replay"] = " ".join(argv)
        else:
            argv = [harn, "fp", str(seed), str(reps), shape, order]
            wl["replay"] = " ".join(argv)
        jobs.append(dict(argv=argv, timeout=600 if quick else 7200))
        meta.append(wl)

    if replay:
        wl = json.load(open(replay)).get("detail", {}).get("workload")
        ck.note_distinct("replay")
        if not wl:
            ck.note_inconclusive("replay file %s names no workload" % replay)
        else:
            add(wl["runner"], wl["shape"], wl["order"], wl["threads"], "handoff" if "main" in wl["frees"] else "own", wl["reps"], wl["seed"])
    for shape in ([] if replay else SHAPES):
        q, t1, tn = REPS[shape]
        for order in ORDERS:
            seed = rng.randrange(1, 1 << 30)
            add("probe", shape, order, 1, "own", q if quick else t1, seed)
            add("harness", shape, order, 1, "own", q if quick else t1, seed)
        # threads through the global allocator
        combos = [(2, "own", "random"), (4, "handoff", "fifo"), (8, "own", "lifo")] if quick else \
                 [(t, m, o) for t in (2, 3, 4, 8) for m in ("own", "handoff") for o in ORDERS]
        for threads, mode, order in combos:
            reps = max(20, q // 2) if quick else (tn if threads == 2 and mode == "own" and order == "random" else max(q, tn // 10))
            add("probe", shape, order, threads, mode, reps, rng.randrange(1, 1 << 30))
    # longest first
    order_ix = sorted(range(len(jobs)), key=lambda i: -meta[i]["reps"] * (1 + meta[i]["threads"]))
    res = vlib.run_parallel([jobs[i] for i in order_ix])
    total_reps = 0
    churn = 0
    for i, r in zip(order_ix, res):
        wl = meta[i]
        label = "%s %s/%s/t%d/%s" % (wl["runner"], wl["shape"], wl["order"], wl["threads"], "handoff" if "main" in wl["frees"] else "own")
        if r["timed_out"]:
            ck.note_inconclusive("%s: watchdog after %.0fs" % (label, r["wall"]))
            continue
        ck.consume(r["out"], context=label)  # '@@VIOL' from the harness' crash handler, if any
        held, vm, failed, summ = parse(r["out"])
        if r["rc"] != 0:
            if r["rc"] is not None and r["rc"] < 0 and wl["runner"] == "probe":
                # the probe consists of the allocator, the thread runtime and a loop touching its own blocks
                ck.violation("C04/%s/probe-killed-by-signal" % wl["shape"], {"workload": wl, "signal": -r["rc"],
                                                                            "repetitions_completed": len(held), "stderr": r["err"][-500:]})
            elif r["rc"] != 3:
                ck.note_inconclusive("%s: exit status %s; stderr tail: %s" % (label, r["rc"], r["err"][-300:]))
            continue
        if summ is None or len(held) < wl["reps"] or len(held) <= W + 2:
            ck.note_inconclusive("%s: incomplete output (%d of %d repetitions)" % (label, len(held), wl["reps"]))
            continue
        peak_live, churned, calls = summ
        if failed:
            # an allocation failed (null / misaligned / spawn error): the workload was not the intended one
            ck.note_inconclusive("%s: %d calls failed inside the workload" % (label, failed))
            continue
        bad = judge(ck, wl, held, peak_live, wl["threads"], "VmSize above baseline" if wl["runner"] == "probe" else "Dlmalloc footprint")
        if vm and not bad:
            # the allocator's own figure must not hide growth that the OS sees: VmSize - footprint (what is mapped
            # but not accounted for; the harness' own libc heap is in there, it settles during warm-up) moves
            # independently of what the allocator legitimately retains (measured: constant), so it gets a tight rule (256 KiB slack)
            diff = [v - h for v, h in zip(vm, held)]
            ref = max(diff[:W])
            for k in range(W, len(diff)):
                if diff[k] > ref + (256 << 10):
                    ck.violation("C04/%s/single-thread/mapped-memory-not-in-footprint-grows" % wl["shape"],
                                 {"workload": wl, "first_repetition_over_limit": k, "vmsize_minus_footprint_there": diff[k],
                                  "max_of_first_%d" % W: ref, "last": diff[-1], "footprint_last": held[-1], "vmsize_last": vm[-1]})
                    break
            judge(ck, wl, vm, peak_live, 1, "VmSize above baseline (harness process, next to footprint)")
        total_reps += len(held)
        churn += churned
        ck.add_eval(len(held) - W)
        ck.count("repetitions", len(held))
        ck.count("allocator_calls", calls)
        ck.count("workloads_%s" % wl["runner"], 1)
        if wl["threads"] > 1:
            ck.count("repetitions_multi_threaded", len(held))
        plateau = "flat" if len(set(held[W:])) == 1 else ("within-S" if max(held[W:]) - min(held[W:]) <= S else "varies")
        trimmed = "retains" if min(held[W:]) > S else "trims"
        ck.note_distinct("%s/%s/%s/t%d/%s/%s/%s" % (wl["runner"], wl["shape"], wl["order"], wl["threads"],
                                                    "handoff" if "main" in wl["frees"] else "own", plateau, trimmed))
        ck.sample({"workload": wl, "peak_live_bytes": peak_live, "held_first": held[0], "held_at_W": held[W], "held_last": held[-1],
                   "held_max": max(held), "held_min_after_W": min(held[W:]), "ratio_max_held_to_peak_live": round(max(held) / max(1, peak_live), 2),
                   "growth_per_repetition_last_half": round(slope_last_half(held), 2), "bytes_churned": churned},
                  key="%s/%s/%s" % (wl["runner"], wl["shape"], wl["threads"] > 1))
    ck.extra["bytes_churned"] = churn
    ck.extra["rules"] = {"W": W, "S": S, "non_growth": "held(i) <= max(held(0..W)) + S + F, F = 2*peak_live (legitimate retention at quiescence)",
                         "absolute": "max held <= 8*peak_live + 64 MiB"}
    ck.exhaustive = False
    ck.assume("held = VmSize(/proc/self/statm) minus the value at program start, sampled with every block freed and every thread joined "
              "(thread stacks are unmapped by the exiting thread before the join futex is released)")
    ck.assume("dlmalloc legitimately keeps freed segments, trims top only above 2 MiB and scans for releasable segments every 4095 large frees; "
              "what stays mapped at quiescence legitimately varies between ~0 and the peak footprint, so only growth beyond "
              "S + 2*peak_live over the warm-up level and gross excess over peak demand are refuted")
    ck.assume("a leak smaller than (S + F) / repetitions per repetition is not visible; thorough runs 20000 (small) / 2000 (large) repetitions")
    return ("workload = shape {small, large, mixed, over-aligned, realloc ladder} x free order {LIFO, FIFO, pseudo-random reseeded per repetition} "
            "x {1 thread; 2-8 threads freeing their own blocks or handing them to main}, each repeated N times (quick 50-300, thorough up to "
            "60000); single-threaded shapes also on a private Dlmalloc (footprint + VmSize); distinct = (runner, shape, order, threads, "
            "hand-off, plateau class, trims/retains) cells")
