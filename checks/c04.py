"""C04: memory tiny-std's allocator holds from the OS is bounded by peak demand, not by history length.

Oracle: (1) probes/alloc_probe, a no-libc executable running on the shipped global allocator (GlobalDlMalloc
behind tiny-std's Mutex), prints VmSize from /proc/self/statm; (2) engines/h_alloc (bin c04) runs the
single-threaded workloads on a private Dlmalloc and prints verif_stats().footprint (the allocator's own figure)
next to the process' VmSize. Workload families:
  repeat  : allocate-then-free-everything shapes x free orders x threads, sampled at quiescence after every repetition
            (incl. realloc ladders on blocks aligned to 32/64/128/4096: doubling, small steps, halving, exact shrink,
            grow-shrink cycles - raw realloc with over-aligned layouts, and Vec<#[repr(align(N))]> push / shrink_to_fit / drop;
            and shrink-and-keep: hundreds of 64 KiB..1 MiB blocks, one at a time, each shrunk by realloc / shrink_to_fit /
            into_boxed_slice to 8..400 bytes and kept, sampled with all kept blocks alive; peak_live = requested bytes)
  steady  : a BOUNDED live set (<= 64 objects) of fixed-size / few-size objects replaced one by one (FIFO / LIFO bursts /
            random) for >= 20000 steps, after a primer that carves a freed block so that the remainder (dv, or a binned
            chunk) is exactly / one granule below / above the hot chunk size; sampled with the live set full
  faults  : the large shapes (round = 8 MiB, 3 MiB, 5 MiB allocated and freed in turn; large; ladder; mixed) under the
            ptrace monitor sysmon, which makes mremap and/or munmap FAIL (all calls, or the k-th call) while the
            allocator trims and releases: the books must stay consistent with what the kernel really maps
  foreign : the harness itself maps PROT_NONE regions (16 MiB each, or 4 KiB..16 MiB; kept / a ring of 6 / unmapped after the
            repetition) before every repetition (and at every sample point of steady phases), exactly where the heap's next
            mapping would have been adjacent, so the heap becomes a list of NON-ADJACENT segments; every repetition ends with
            one block of 1.5 x its peak (>= 3 MiB) allocated and freed, i.e. more than the trim threshold freed at the top;
            200-2000 repetitions, all free orders; VmSize is taken net of the foreign mappings (tracked exactly)
Rules, on logical quantities only:
  non-growth: held(i) <= max(held(0..W)) + S + F for all i >= W      (W = 3, S = 2 MiB trim threshold + 64 KiB)
              F = 2*peak_live: what is still mapped at quiescence legitimately wanders between ~0 and the peak
              footprint (whether the last free triggers the trim / segment release depends on the segment
              layout, which the kernel's 2 MiB alignment of large mappings and thread stacks keep changing);
              + 2 MiB + 64 KiB per thread for samples taken while threads are alive (steady, threads > 1);
              F = 8*peak_live for the shrink-and-keep shapes (fragmentation by construction, peak_live in requested bytes)
  absolute  : max held <= 8*peak_live + 64 MiB
  books     : VmSize - footprint (private allocator) does not grow by more than 256 KiB after warm-up
  all-free  : private allocator, repeat shapes (no faults / foreign mappings): with everything freed, the segment bytes outside
              top (minus dv, bins empty; single segment: dv and bins must be empty) are the fixed 80 bytes per segment -
              anything else is a chunk that is neither live (harness) nor free (allocator): lost, and it blocks coalescing
  alignrand : repeat shape with pairs (pad 8..136 bytes, block of 1 B..16 KiB aligned to 32..4096) drawn afresh in EVERY
              repetition, a random half freed and re-allocated mid-way, then everything freed (bounded live, all 16-byte
              phases of the raw chunk relative to the alignment)
"""
import json
import os
import shutil
import tempfile

import syslog
import vlib

PROBE = "probes/alloc_probe"
CRATE = "engines/h_alloc"
PAGE = 4096
W = 3
S = 2 * 1024 * 1024 + 64 * 1024
STACK = 2 * 1024 * 1024 + 64 * 1024
FOREIGN_POLICIES = ["keep16", "keep", "ring", "transient"]
SHAPES = ["alignrand", "small", "large", "mixed", "overaligned", "ladder", "round", "aladder", "vecalign", "shrinkkeep", "vecshrink"]
PROBE_ONLY = {"vecalign", "vecshrink"}  # Vec needs the global allocator
# shrink-and-keep: also sampled with every shrunk block alive; with threads the blocks are handed to main (sampled after the join)
SAMPLES_MID = {"shrinkkeep", "vecshrink"}
ORDERS = ["lifo", "fifo", "random"]
# repetitions per shape: (quick, thorough single-threaded, thorough threaded)
REPS = {"alignrand": (4000, 100000, 100000), "small": (3000, 60000, 60000), "overaligned": (1500, 8000, 20000), "mixed": (500, 4000, 4000),
        "ladder": (120, 1500, 1500), "large": (200, 2000, 2000), "round": (150, 1500, 1500),
        "aladder": (300, 3000, 3000), "vecalign": (400, 4000, 4000), "shrinkkeep": (60, 600, 600), "vecshrink": (60, 600, 600)}
STEADY_ALIGNS = [32, 64, 128, 4096]
# hot chunk sizes of the steady-state family: small-bin classes (< 256) and tree-bin classes
STEADY_CHUNKS_QUICK = [48, 240, 272, 1024, 4112, 16384]
STEADY_CHUNKS_THOROUGH = [32, 48, 64, 128, 240, 256, 272, 384, 512, 768, 1024, 1536, 2048, 4112, 8192, 16384, 65536]
STEADY_PRIMERS = [("dv", 0), ("dv", -16), ("dv", 16), ("bin", 0), ("none", 0)]
ENOMEM, EFAULT, EINVAL = -12, -14, -22
ALL = 1_000_000_000


def _build():
    probe = vlib.build_nolibc(PROBE, "alloc_probe", "static", True) + "/alloc_probe"
    harn = vlib.cargo_build(CRATE, "h_alloc-release", bins=["c04"], release=True) + "/c04"
    return probe, harn


def setup():
    _build()
    syslog.sysmon_bin()


def parse(out):
    base = None
    held, vm, failed = [], [], 0
    summ = None
    for line in out.splitlines():
        p = line.split()
        if not p:
            continue
        if p[0] == "B" and len(p) >= 2:
            base = int(p[1])
        elif p[0] == "R" and len(p) >= 4 and base is not None:
            held.append((int(p[2]) - base) * PAGE)
            failed += int(p[3])
            if len(p) >= 5:
                vm.append(int(p[4]) * PAGE)
        elif p[0] == "S" and len(p) >= 4:
            summ = (int(p[1]), int(p[2]), int(p[3]), int(p[4]) if len(p) >= 5 else 0,
                    int(p[5]) if len(p) >= 6 else 0, int(p[6]) if len(p) >= 7 else 0)
    return held, vm, failed, summ


def parse_books(out):
    """'A <rep> <segments> <segment bytes outside top> <dvsize> <smallmap> <treemap>': the private allocator's books with everything freed"""
    rows = []
    for line in out.splitlines():
        p = line.split()
        if len(p) >= 7 and p[0] == "A":
            rows.append(tuple(int(x) for x in p[1:7]))
    return rows


# bytes of a segment that are never part of top (alignment of the first chunk + the segment's foot): measured 80 on the
# unchanged tree, for every shape, in every all-freed sample with empty bins
SEG_OVERHEAD = 128


def slope_last_half(series):
    n = len(series)
    xs = list(range(n // 2, n))
    if len(xs) < 2:
        return 0.0
    ys = series[n // 2:]
    mx = sum(xs) / len(xs)
    my = sum(ys) / len(ys)
    den = sum((x - mx) ** 2 for x in xs)
    return sum((x - mx) * (y - my) for x, y in zip(xs, ys)) / den if den else 0.0


def family(wl):
    if wl.get("inject"):
        return "faults"
    if wl.get("foreign"):
        return "foreign"
    return "steady" if wl["shape"] == "steady" else "repeat"


def sig_prefix(wl, threads):
    inj = ""
    if wl.get("inject"):
        inj = "/" + "+".join(sorted({syslog.NAME.get(int(i.split(":")[3]), "sys") + "-fails" for i in wl["inject"]}))
    if wl.get("foreign"):
        inj += "/foreign-mappings"
    return "C04/%s%s/%s" % (wl["shape"], inj, "threads" if threads > 1 else "single-thread")


def judge(ck, wl, series, peak_live, threads, what, stacks_alive=False):
    """apply the non-growth and the absolute rule to one held-series; True if a violation was reported"""
    # shrink-and-keep is fragmentation by construction (every kept block pins the start of the region its large block
    # occupied, peak_live counts REQUESTED bytes): held legitimately reaches ~5.5x peak_live there (measured), so the
    # allowance uses the factor of the absolute rule
    F = (8 if wl["shape"] in SAMPLES_MID else 2) * peak_live + (threads * STACK if stacks_alive else 0)
    ref = max(series[:W])
    limit = ref + S + F
    bad = False
    unit = "steps" if wl["shape"] == "steady" else "repetitions"
    for i in range(W, len(series)):
        if series[i] > limit:
            ck.violation("%s/held-grows-with-%s" % (sig_prefix(wl, threads), unit),
                         {"workload": wl, "measured": what, "first_sample_over_limit": i, "held_there": series[i],
                          "max_of_first_%d" % W: ref, "slack_S": S, "allowance_F": F, "peak_live_bytes": peak_live,
                          "held_first_6": series[:6], "held_last_6": series[-6:], "held_last": series[-1],
                          "growth_per_sample_last_half": round(slope_last_half(series), 1)})
            bad = True
            break
    mx = max(series)
    if mx > 8 * peak_live + (64 << 20) + (threads * STACK if stacks_alive else 0):
        ck.violation("%s/held-exceeds-8x-peak-live-plus-64MiB" % sig_prefix(wl, threads),
                     {"workload": wl, "measured": what, "max_held": mx, "peak_live_bytes": peak_live})
        bad = True
    return bad


def run(ck, replay=None):
    quick = ck.tier == "quick"
    probe, harn = _build()
    sysmon = syslog.sysmon_bin()
    rng = vlib.rng(ck.seed, "c04")
    tmp = tempfile.mkdtemp(prefix="c04-")
    jobs, meta = [], []

    def add(wl):
        """wl: runner, shape, order, threads, frees, reps, seed [, steady{chunk,mix,primer,delta}] [, inject[..]]"""
        mode = "handoff" if "main" in wl["frees"] else "own"
        if wl["shape"] == "steady":
            st = wl["steady"]
            if wl["runner"] == "probe":
                argv = [probe, "steady", str(st["chunk"]), str(st["mix"]), wl["order"], st["primer"], str(st["delta"]),
                        str(wl["threads"]), str(wl["reps"]), str(wl["seed"]), str(st.get("align", 8))]
            else:
                argv = [harn, "fp", str(wl["seed"]), str(wl["reps"]), "steady", str(st["chunk"]), str(st["mix"]), wl["order"],
                        st["primer"], str(st["delta"]), str(st.get("align", 8))]
            if wl.get("foreign"):
                argv.append("foreign=" + wl["foreign"])
        elif wl["runner"] == "probe":
            argv = [probe, wl["shape"], wl["order"], str(wl["threads"]), str(wl["reps"]), str(wl["seed"]), mode]
        else:
            argv = [harn, "fp", str(wl["seed"]), str(wl["reps"]), wl["shape"], wl["order"]]
        if wl.get("foreign"):
            argv.append("foreign=" + wl["foreign"])
        if wl.get("inject"):
            wl["log"] = os.path.join(tmp, "sysmon-%d.log" % len(jobs))
            argv = syslog.sysmon_cmd(wl["log"], argv, injects=wl["inject"], timeout_s=300 if quick else 3000,
                                     idle_ms=0, scope_markers=True, sysmon=sysmon)
        wl["replay"] = " ".join(argv)
        jobs.append(dict(argv=argv, timeout=600 if quick else 7200))
        meta.append(wl)

    def base(runner, shape, order, threads, mode, reps, seed, **kw):
        d = dict(runner=runner, shape=shape, order=order, threads=threads,
                 frees="by main after join" if mode == "handoff" else "by allocating thread", reps=reps, seed=seed)
        d.update(kw)
        return d

    if replay:
        wl = json.load(open(replay)).get("detail", {}).get("workload")
        ck.note_distinct("replay")
        if not wl:
            ck.note_inconclusive("replay file %s names no workload" % replay)
        else:
            wl = {k: v for k, v in wl.items() if k not in ("replay", "log")}
            add(wl)
    else:
        # ---- family 1: allocate-then-free-everything, repeated --------------------------------------
        for shape in SHAPES:
            q, t1, tn = REPS[shape]
            for order in ORDERS:
                seed = rng.randrange(1, 1 << 30)
                add(base("probe", shape, order, 1, "own", q if quick else t1, seed))
                if shape not in PROBE_ONLY:
                    add(base("harness", shape, order, 1, "own", q if quick else t1, seed))
            combos = [(2, "own", "random"), (4, "handoff", "fifo"), (8, "own", "lifo")] if quick else \
                     [(t, m, o) for t in (2, 3, 4, 8) for m in ("own", "handoff") for o in ORDERS]
            for threads, mode, order in combos:
                if shape in SAMPLES_MID:
                    mode = "handoff"
                reps = max(20, q // 2) if quick else (tn if threads == 2 and mode == "own" and order == "random" else max(q, tn // 10))
                add(base("probe", shape, order, threads, mode, reps, rng.randrange(1, 1 << 30)))
        # ---- family 2: bounded live set in steady state, primed remainders ---------------------------
        n = 0
        for chunk in (STEADY_CHUNKS_QUICK if quick else STEADY_CHUNKS_THOROUGH):
            for primer, delta in STEADY_PRIMERS:
                for order in ORDERS:
                    for mix in ((n % 2,) if quick else (0, 1)):
                        n += 1
                        seed = rng.randrange(1, 1 << 30)
                        st = dict(chunk=chunk, mix=mix, primer=primer, delta=delta)
                        for runner in ("probe", "harness"):
                            add(base(runner, "steady", order, 1, "own", 3 if quick else 10, seed, steady=st))
        # realloc-driven churn inside the bounded live set, objects aligned to 8 (in-place / malloc-copy-free of inner_realloc)
        # and to 32..4096 (allocate-copy-free branch of realloc)
        for chunk in ((272, 4112) if quick else (64, 272, 1024, 4112, 16384)):
            for ai, align in enumerate([8] + STEADY_ALIGNS):
                for oi, order in enumerate(ORDERS):
                    if quick and (ai + oi) % 3 != 0:
                        continue
                    seed = rng.randrange(1, 1 << 30)
                    st = dict(chunk=chunk, mix=2, primer="dv" if (ai + oi) % 2 else "none", delta=0, align=align)
                    for runner in ("probe", "harness"):
                        add(base(runner, "steady", order, 1, "own", 3 if quick else 10, seed, steady=st))
        st = dict(chunk=1024, mix=2, primer="none", delta=0, align=64)
        add(base("probe", "steady", "random", 3, "own", 2 if quick else 6, rng.randrange(1, 1 << 30), steady=st))
        for chunk, threads, order in ([(1024, 2, "fifo"), (272, 4, "random")] if quick else
                                      [(c, t, o) for c in (64, 272, 1024, 4112) for t in (2, 4, 8) for o in ORDERS]):
            st = dict(chunk=chunk, mix=0, primer="dv", delta=0)
            add(base("probe", "steady", order, threads, "own", 2 if quick else 6, rng.randrange(1, 1 << 30), steady=st))
        # ---- family 4: foreign mappings between heap growths (non-adjacent segments) --------------------
        fplan = []
        for shape, cyc in (("trio", 800), ("small", 600), ("aladder", 300), ("round", 200), ("mixed", 300), ("large", 80)):
            for oi, order in enumerate(ORDERS):
                if quick and shape not in ("trio", "small") and oi != (len(fplan) % 3):
                    continue
                fplan.append((shape, order, "keep16", cyc if quick else min(2000, cyc * 3)))
        for shape, cyc in (("trio", 300), ("round", 200), ("mixed", 300), ("large", 80), ("ladder", 100)):
            for pi, pol in enumerate(FOREIGN_POLICIES[1:]):
                fplan.append((shape, ORDERS[(pi + len(shape)) % 3], pol, cyc if quick else cyc * 3))
        for shape, order, pol, cyc in fplan:
            seed = rng.randrange(1, 1 << 30)
            for runner in ("probe", "harness"):
                add(base(runner, shape, order, 1, "own", cyc, seed, foreign=pol))
        # threads (their 2 MiB stacks are foreign mappings of their own) on top of ours
        for threads, mode, order in ((2, "own", "random"), (4, "handoff", "fifo")) if quick else \
                [(t, m, o) for t in (2, 4, 8) for m in ("own", "handoff") for o in ORDERS]:
            add(base("probe", "trio", order, threads, mode, 300 if quick else 1000, rng.randrange(1, 1 << 30), foreign="keep16"))
        # a foreign mapping at every sample point of a steady phase (large hot chunks, realloc churn)
        for chunk, pol in ((16384, "keep16"), (65536, "ring")) if quick else [(c, p) for c in (4112, 16384, 65536) for p in FOREIGN_POLICIES]:
            st = dict(chunk=chunk, mix=2, primer="none", delta=0, align=8)
            seed = rng.randrange(1, 1 << 30)
            for runner in ("probe", "harness"):
                add(base(runner, "steady", "random", 1, "own", 3 if quick else 10, seed, steady=st, foreign=pol))
        # ---- family 3: mremap / munmap made to fail by sysmon while the allocator trims / releases ----
        def inj(nr, k, ret, count):
            return "4:*:1:%d:%d:%d:%d" % (syslog.NR[nr], k, ret, count)
        plans = [[inj("mremap", 0, ENOMEM, ALL)], [inj("mremap", 0, EFAULT, ALL)],
                 [inj("munmap", 0, ENOMEM, ALL)], [inj("munmap", 0, EINVAL, ALL)],
                 [inj("mremap", 0, ENOMEM, ALL), inj("munmap", 0, ENOMEM, ALL)]]
        for k in ((0, 1, 3) if quick else range(0, 12)):
            plans.append([inj("mremap", k, ENOMEM, 1)])
            plans.append([inj("munmap", k, ENOMEM, 1)])
            plans.append([inj("mremap", k, EFAULT, 2), inj("munmap", k // 2, ENOMEM, 1)])
        fshapes = [("round", 60), ("large", 40), ("ladder", 30)] if quick else [("round", 400), ("large", 200), ("ladder", 120), ("mixed", 300)]
        for shape, reps in fshapes:
            for pi, plan in enumerate(plans):
                order = ORDERS[pi % 3]
                seed = rng.randrange(1, 1 << 30)
                add(base("harness", shape, order, 1, "own", reps, seed, inject=plan))
                if quick and shape != "round" and pi >= 5:
                    continue
                add(base("probe", shape, order, 1, "own", reps, seed, inject=plan))
            # threads: only mremap is failed (an exiting thread unmaps its own stack with munmap)
            add(base("probe", shape, "random", 2, "own", reps, rng.randrange(1, 1 << 30), inject=plans[0]))

    def weight(i):
        w = meta[i]
        return -(w["reps"] * (1 + w["threads"]) * (40 if w["shape"] == "steady" else 1) * (3 if w.get("inject") else 1))
    order_ix = sorted(range(len(jobs)), key=weight)
    res = vlib.run_parallel([jobs[i] for i in order_ix])
    churn = 0
    injected_total = {}
    for i, r in zip(order_ix, res):
        wl = meta[i]
        fam = family(wl)
        st = wl.get("steady")
        label = "%s %s %s/%s/t%d%s%s" % (fam, wl["runner"], wl["shape"], wl["order"], wl["threads"],
                                         "/chunk%d/%s%+d/mix%d/a%d" % (st["chunk"], st["primer"], st["delta"], st["mix"], st.get("align", 8)) if st else "",
                                         "/inject " + ",".join(wl["inject"]) if wl.get("inject") else "")
        if r["timed_out"] or r["rc"] == 124:
            ck.note_inconclusive("%s: watchdog after %.0fs" % (label, r["wall"]))
            continue
        ck.consume(r["out"], context=label)  # '@@VIOL' from the harness' crash handler, if any
        held, vm, failed, summ = parse(r["out"])
        # what did the monitor really inject?
        ninj = {}
        if wl.get("inject"):
            try:
                for e in syslog.parse(wl["log"]):
                    if e.k == "S" and e.inj:
                        nm = syslog.NAME.get(e.nr, str(e.nr))
                        ninj[nm] = ninj.get(nm, 0) + 1
            except OSError:
                pass
            wl["calls_failed_by_monitor"] = ninj
            wl.pop("log", None)
        if r["rc"] != 0:
            if r["rc"] is not None and (r["rc"] < 0 or 128 < r["rc"] < 160) and wl["runner"] == "probe":
                # the probe consists of the allocator, the thread runtime and a loop touching its own blocks
                ck.violation("%s/probe-killed-by-signal" % sig_prefix(wl, wl["threads"]),
                             {"workload": wl, "status": r["rc"], "samples_completed": len(held), "stderr": r["err"][-500:]})
            elif r["rc"] != 3:
                ck.note_inconclusive("%s: exit status %s; stderr tail: %s" % (label, r["rc"], r["err"][-300:]))
            continue
        need = wl["reps"] * (12 if st else 1)
        if summ is None or len(held) < need or len(held) <= W + 2:
            ck.note_inconclusive("%s: incomplete output (%d of %d samples)" % (label, len(held), need))
            continue
        peak_live, churned, calls, primed, maxseg, nforeign = summ
        if failed:
            # an allocation failed (null / misaligned / spawn error): the workload was not the intended one
            # (legitimate when the monitor fails munmap/mremap? no: neither is on an allocation path that may fail)
            ck.note_inconclusive("%s: %d calls failed inside the workload" % (label, failed))
            continue
        if wl.get("inject") and not ninj:
            ck.count("fault_runs_where_the_call_never_happened")
        alive = bool(st) and wl["threads"] > 1
        bad = judge(ck, wl, held, peak_live, wl["threads"], "VmSize above baseline" if wl["runner"] == "probe" else "Dlmalloc footprint",
                    stacks_alive=alive)
        if vm:
            # the allocator's own figure must not hide what the OS still maps: VmSize - footprint (the harness' own libc
            # heap is in there, it settles during warm-up) is independent of what the allocator legitimately retains
            # (measured: constant 0), so it gets a tight rule
            diff = [v - h for v, h in zip(vm, held)]
            ref = max(diff[:W])
            for k in range(W, len(diff)):
                if diff[k] > ref + (256 << 10):
                    ck.violation("%s/mapped-memory-not-in-footprint-grows" % sig_prefix(wl, 1),
                                 {"workload": wl, "first_sample_over_limit": k, "vmsize_minus_footprint_there": diff[k],
                                  "max_of_first_%d" % W: ref, "last": diff[-1], "footprint_last": held[-1], "vmsize_last": vm[-1]})
                    bad = True
                    break
            if not bad:
                judge(ck, wl, vm, peak_live, 1, "VmSize above baseline (harness process, next to footprint)")
        if wl["runner"] == "harness" and not wl.get("inject") and not wl.get("foreign") and not st:
            # books: nothing is live at the end of a repetition, so every chunk has been freed and must have coalesced:
            # with a single segment the whole segment is top again; with several and empty bins, top + dv account for
            # everything. Bytes that are neither live (harness: 0) nor free (allocator) belong to nobody: lost chunks.
            rows = parse_books(r["out"])
            judged = 0
            for rep, segs, outside_top, dvsize, smallmap, treemap in rows:
                if segs == 1 or (smallmap == 0 and treemap == 0):
                    judged += 1
                    lost = outside_top - (dvsize if segs > 1 else 0)
                    if lost > SEG_OVERHEAD * max(1, segs) or (segs == 1 and (smallmap or treemap or dvsize)):
                        later = [x[2] for x in rows if x[1] == 1]
                        ck.violation("%s/heap-not-all-free-after-everything-was-freed" % sig_prefix(wl, 1),
                                     {"workload": wl, "first_repetition": rep, "segments": segs, "live_bytes_by_harness": 0,
                                      "segment_bytes_outside_top": outside_top, "dvsize": dvsize, "smallmap": smallmap, "treemap": treemap,
                                      "expected_at_most": SEG_OVERHEAD * max(1, segs),
                                      "outside_top_single_segment_first_last_max": [later[0], later[-1], max(later)] if later else None,
                                      "repetitions": len(rows)})
                        bad = True
                        break
            ck.count("all_freed_samples_with_books_judged", judged)
        churn += churned
        ck.add_eval(len(held) - W)
        ck.count("samples_of_held_memory", len(held))
        ck.count("allocator_calls", calls)
        ck.count("workloads_%s_%s" % (fam, wl["runner"]), 1)
        if wl["threads"] > 1:
            ck.count("samples_multi_threaded", len(held))
        if wl.get("foreign"):
            trimmed_cycles = sum(1 for x in held[W:] if x < S)
            ck.count("foreign_mappings_made", nforeign)
            ck.count("foreign_repetitions_ending_trimmed_and_regrown_elsewhere", trimmed_cycles)
            key = "max_heap_segments_private_dlmalloc" if wl["runner"] == "harness" else "max_anonymous_rw_vmas_probe"
            ck.extra[key] = max(ck.extra.get(key, 0), maxseg)
            segb = "1" if maxseg <= 1 else "2" if maxseg == 2 else "3-4" if maxseg <= 4 else "5-8" if maxseg <= 8 else "9+"
            if maxseg >= 2:
                ck.count("foreign_runs_with_a_multi_segment_heap")
            ck.note_distinct("foreign/%s/%s/%s/%s/t%d/segments-%s/%s" % (wl["runner"], wl["shape"], wl["foreign"], wl["order"], wl["threads"], segb,
                                                                        "cycling" if trimmed_cycles * 2 > len(held) else "settles"))
        if st:
            ck.count("steady_steps", wl["reps"] * wl["threads"] * max(20000, (10 << 20) // st["chunk"]))
            if st["primer"] != "none":
                ck.count("primers_attempted", wl["reps"] * wl["threads"])
                ck.count("primers_landed_on_the_prepared_block", primed)
        for nm, c in ninj.items():
            injected_total[nm] = injected_total.get(nm, 0) + c
            ck.count("monitor_failed_%s_calls" % nm, c)
        plateau = "flat" if len(set(held[W:])) == 1 else ("within-S" if max(held[W:]) - min(held[W:]) <= S else "varies")
        trimmed = "retains" if min(held[W:]) > S else "trims"
        if wl.get("foreign"):
            pass
        elif st:
            cls = "smallbin" if st["chunk"] < 256 else "treebin"
            ck.note_distinct("steady/%s/%s/%s%+d/%s/mix%d/a%d/t%d/%s/%s" % (wl["runner"], cls, st["primer"], st["delta"], wl["order"], st["mix"],
                                                                           st.get("align", 8), wl["threads"], "primed" if primed else "unprimed", plateau))
        elif wl.get("inject"):
            kinds = "+".join(sorted("%s:%s" % (syslog.NAME.get(int(x.split(":")[3])), "all" if int(x.split(":")[6]) >= ALL else "kth") for x in wl["inject"]))
            ck.note_distinct("faults/%s/%s/t%d/%s/%s/%s" % (wl["runner"], wl["shape"], wl["threads"], kinds, "hit" if ninj else "not-reached", plateau))
        else:
            ck.note_distinct("%s/%s/%s/t%d/%s/%s/%s" % (wl["runner"], wl["shape"], wl["order"], wl["threads"],
                                                        "handoff" if "main" in wl["frees"] else "own", plateau, trimmed))
        ck.sample({"workload": wl, "peak_live_bytes": peak_live, "held_first": held[0], "held_at_W": held[W], "held_last": held[-1],
                   "held_max": max(held), "held_min_after_W": min(held[W:]), "ratio_max_held_to_peak_live": round(max(held) / max(1, peak_live), 2),
                   "growth_per_sample_last_half": round(slope_last_half(held), 2), "bytes_churned": churned},
                  key="%s/%s/%s/%s" % (fam, wl["runner"], wl["shape"], wl["threads"] > 1))
    shutil.rmtree(tmp, ignore_errors=True)
    ck.extra["bytes_churned"] = churn
    ck.extra["calls_failed_by_monitor"] = injected_total
    ck.extra["rules"] = {"W": W, "S": S, "all_free": "private allocator, everything freed: segment bytes outside top (- dv) <= 128 per segment "
                         "when bins are empty; single segment: dv and bins empty", "non_growth": "held(i) <= max(held(0..W)) + S + F, F = 2*peak_live (legitimate retention) "
                         "+ 2 MiB + 64 KiB per live thread stack",
                         "absolute": "max held <= 8*peak_live + 64 MiB",
                         "books": "VmSize - footprint grows by at most 256 KiB after warm-up (private allocator)"}
    ck.exhaustive = False
    ck.assume("held = VmSize(/proc/self/statm) minus the value at program start; repeat-family samples are taken with every block freed and "
              "every thread joined (thread stacks are unmapped by the exiting thread before the join futex is released), steady-family samples "
              "with the bounded live set in place (and, with threads, the other threads running: their stacks are allowed for)")
    ck.assume("dlmalloc legitimately keeps freed segments, trims top only above 2 MiB and scans for releasable segments every 4095 large frees; "
              "what stays mapped at quiescence legitimately varies between ~0 and the peak footprint, so only growth beyond "
              "S + 2*peak_live over the warm-up level and gross excess over peak demand are refuted")
    ck.assume("a leak smaller than (S + F) / N per repetition or step is not visible; thorough runs 60000 (small) / 2000 (large) repetitions, "
              "steady runs enough steps for one lost chunk per step to add up to 10 MiB")
    ck.assume("steady primers are black-box: the prepared block and its guard must be adjacent by address and the carve must return the "
              "prepared block's address, otherwise the heap's leftovers are kept and the attempt repeated; a primer that never lands is counted, not judged")
    ck.assume("foreign mappings are PROT_NONE | MAP_NORESERVE regions made by the harness itself with raw mmap (rusl / libc) and subtracted "
              "exactly; the probe reports the number of anonymous rw VMAs in /proc/self/maps, the private allocator verif_stats().segments")
    ck.assume("failures of mremap/munmap are produced by sysmon (the call is not executed and returns -ENOMEM/-EFAULT/-EINVAL), for all calls or "
              "the k-th call after the workload's BEGIN marker; munmap is not failed in threaded probes (threads unmap their own stacks with it)")
    return ("four families: (foreign) the repeat shapes with a foreign PROT_NONE mapping before every repetition {16 MiB kept, 4 KiB-16 MiB "
            "kept / ring / transient} and a final trim-forcing block, 80-2000 repetitions; (repeat) shape {over-aligned random sizes redrawn per repetition (alignrand), small, large, mixed, over-aligned, realloc ladder, round, realloc ladder on 32..4096-aligned blocks, "
            "Vec of over-aligned records, shrink-and-keep (raw realloc and Vec)} x free order {LIFO, FIFO, pseudo-random "
            "reseeded per repetition} x {1 thread; 2-8 threads freeing their own blocks or handing them to main}, N repetitions (quick 120-3000, "
            "thorough up to 60000); (steady) hot chunk size over small-bin and tree-bin classes x primer {remainder -> dv, -> bin, none} x "
            "remainder {exact, -16, +16} x replacement {FIFO, LIFO bursts, random} x {fixed size, few sizes, few sizes + realloc of live objects "
            "with alignment 8/32/64/128/4096}, >= 20000 steps per repetition, "
            "1 and 2-8 threads; (faults) large shapes with mremap/munmap failed by the monitor (all calls / k-th call / both); single-threaded "
            "cases on the global allocator (VmSize) and on a private Dlmalloc (footprint next to VmSize); distinct = (family, runner, shape or "
            "chunk class, primer, order, threads, hand-off, fault kind reached or not, plateau class) cells")
