"""C10: every UnixStr/UnixString produced by safe code is NUL-terminated exactly once; unrepresentable
inputs are rejected with an error, never a panic.

Oracle: invariant on the RAW slice (as_slice/len/as_ptr, never as_str) of every produced value + a
three-line accept/reject reference for the constructors, under catch_unwind (harness bin c10 of
engines/h_unixstr). Native debug + release, ASan build of the same generator, stratified Miri sample.
This module also holds the helpers shared with checks/c11.py (same harness crate)."""
import concurrent.futures
import json
import os
import re

import vlib

CRATE = "engines/h_unixstr"
BINS = ["c10", "c11"]
ASAN_FLAGS = ["-Zsanitizer=address", "-Cforce-frame-pointers=yes"]
MIRI_FLAGS = ["-Zmiri-ignore-leaks"]


# ----------------------------------------------------------------------------- shared helpers
def build_all(want_asan=True):
    """debug, release and ASan builds of both bins, concurrently (separate target dirs)."""
    specs = {
        "debug": dict(flavour="h_unixstr-debug", release=False),
        "release": dict(flavour="h_unixstr-release", release=True),
    }
    if want_asan:
        specs["asan"] = dict(flavour="h_unixstr-asan", release=False, toolchain="nightly",
                             rustflags=ASAN_FLAGS, target=vlib.TARGET)
    out = {}
    with concurrent.futures.ThreadPoolExecutor(max_workers=len(specs)) as ex:
        futs = {k: ex.submit(vlib.cargo_build, CRATE, bins=BINS, **v) for k, v in specs.items()}
        for k, f in futs.items():
            try:
                out[k] = f.result()
            except vlib.BuildError as e:
                if k == "asan":
                    out[k] = None
                    out["asan_error"] = str(e)[-800:]
                else:
                    raise
    return out


def miri_job(binname, prog_args, timeout):
    argv, env, cwd = vlib.miri_cmd(CRATE, "h_unixstr-miri", binname, prog_args, MIRI_FLAGS)
    return dict(argv=argv, env=env, cwd=cwd, timeout=timeout)


def miri_warm(ck, binname):
    """one serial run so that the parallel jobs find a fresh build"""
    r = vlib.run_one(**miri_job(binname, ["noop"], 1800))
    if r["rc"] != 0:
        ck.note_inconclusive("miri warm-up build/run failed (rc=%s): %s" % (r["rc"], r["err"][-500:]))
        return False
    return True


_IDENT = re.compile(r"([A-Za-z_][A-Za-z0-9_]*)\s*(?:::\{closure[^}]*\})*\s*>?\s*$")


def _fn_name(sym):
    sym = re.sub(r"::<[^<>]*>", "", sym)          # drop generic args
    sym = re.sub(r"::\{closure#\d+\}", "", sym)
    m = _IDENT.search(sym.strip())
    return m.group(1) if m else "unknown"


def tool_report(err):
    """(tool, kind, function, excerpt) for a Miri UB / ASan report whose stack has a frame inside the
    repository crates, else None. `function` is the innermost rusl/tiny_std frame."""
    if "ERROR: AddressSanitizer" in err:
        m = re.search(r"ERROR: AddressSanitizer: ([A-Za-z\-]+)", err)
        kind = m.group(1) if m else "report"
        fn = None
        for fm in re.finditer(r"#\d+ 0x[0-9a-f]+ in (.+?) (/\S+?):\d+", err):
            sym, path = fm.group(1), fm.group(2)
            if "/rusl/src/" in path or "/tiny-std/src/" in path:
                fn = _fn_name(sym)
                break
            if "/engines/" in path:      # reached the harness without passing repository code
                break
        i = err.find("ERROR: AddressSanitizer")
        return ("asan", kind, fn, err[i:i + 1800])
    if "error: Undefined Behavior" in err:
        i = err.find("error: Undefined Behavior")
        fn = None
        for fm in re.finditer(r"^\s*\d+: (.+)$", err[i:], re.M):
            sym = fm.group(1)
            if "rusl::" in sym or "tiny_std::" in sym:
                fn = _fn_name(sym)
                break
        if fn is None:
            for fm in re.finditer(r"inside `([^`]+)` at", err[i:]):
                if "rusl::" in fm.group(1) or "tiny_std::" in fm.group(1):
                    fn = _fn_name(fm.group(1))
                    break
        return ("miri", "ub", fn, err[i:i + 1800])
    return None


def consume_tool_run(ck, res, label, prop, tool):
    """Feed a run made under Miri or ASan. A report located in repository code is a violation
    `<prop>/<function>/<tool>-<kind>`; any other abnormal end is inconclusive. Returns True when
    the process ended normally."""
    ck.consume(res["out"], context=label)
    if res["timed_out"]:
        ck.note_inconclusive("%s: watchdog fired after %.0fs" % (label, res["wall"]))
        return False
    if res["rc"] == 0:
        return True
    rep = tool_report(res["err"])
    if rep and rep[2]:
        sig = "%s/%s/%s-%s" % (prop, rep[2], rep[0], rep[1])
        ck.violation(sig, {"context": label, "argv": res["argv"][-8:], "report": rep[3],
                           "note": "the process stops at the first report: cases after it in this job were not run"})
        ck.count("%s_jobs_stopped_by_report" % tool)
        return False
    ck.note_inconclusive("%s: exit status %s without a report in repository code; stderr tail: %s"
                         % (label, res["rc"], res["err"][-500:]))
    return False


def log_slowest(jobs, res, n=6):
    t = sorted(((r["wall"], label) for (label, _, _), r in zip(jobs, res)), reverse=True)[:n]
    vlib.log("slowest jobs: " + "; ".join("%.0fs %s" % x for x in t))


def replay_case(ck, replay, binname, keys):
    with open(replay) as f:
        rp = json.load(f)
    det = rp.get("detail") or {}
    x = det.get(keys[0]) or "-"
    y = det.get(keys[1]) or "-"
    d = vlib.cargo_build(CRATE, "h_unixstr-debug", bins=BINS)
    m = re.search(r" fmt seed=(\d+)", str(det.get("context", "")))
    if m:   # format-kind cases are regenerated from their job seed (same rounds as the quick tier)
        argv = [os.path.join(d, binname), "fmt", m.group(1), "3000"]
    else:
        argv = [os.path.join(d, binname), "case", str(ck.seed), "0", x, y]
    r = vlib.run_one(argv, timeout=300)
    ck.consume_result(r, "replay %s" % os.path.basename(replay))
    for line in r["out"].splitlines():
        if line.startswith("@@VIOL") or line.startswith("@@COUNT refuted"):
            vlib.log(line[:400])
    ck.note_distinct("replay/case")
    ck.note_distinct("replay/signature/%s" % rp.get("signature"))
    if not ck.samples:
        ck.sample({"replayed": rp.get("signature"), "x_hex": x[:200], "y_hex": y[:200]})
    return "replay of one recorded case (both operands through every operation of the harness)"


# ----------------------------------------------------------------------------- C10
LITPROBE = "engines/h_unixstr/litprobe"
LIT_BAD = {"bad_trailing_nul": '"/etc/passwd\\0"', "bad_interior_nul": '"/tmp/dir\\0/secret.txt"', "bad_only_nul": '"\\0"'}


def lit_probe(ck):
    """Compile-fail probe for unix_lit!: a literal that already carries a NUL must be rejected by the
    const validator at build time. Building = accepting. Only the const-eval panic counts as the
    expected rejection; any other build trouble is inconclusive."""
    p, _ = vlib.cargo(LITPROBE, "h_unixstr-litprobe", ["build", "--offline", "--bin", "good"])
    if p.returncode != 0:
        ck.note_inconclusive("unix_lit! probe: control bin with a valid literal does not build: %s" % (p.stdout or "")[-400:])
        return
    ck.add_eval(1)
    ck.count("op_unix_lit_compile_probe")
    for b, lit in LIT_BAD.items():
        p, _ = vlib.cargo(LITPROBE, "h_unixstr-litprobe", ["build", "--offline", "--bin", b])
        out = p.stdout or ""
        if p.returncode == 0:
            ck.add_eval(1)
            ck.count("op_unix_lit_compile_probe")
            ck.violation("C10/unix_lit/accepts-unrepresentable",
                         {"op": "unix_lit", "literal": lit, "probe": "%s/src/bin/%s.rs" % (LITPROBE, b),
                          "what": "a literal that already contains a NUL compiled: the value carries a NUL besides its last byte"})
        elif "E0080" in out and "evaluation panicked" in out and "null" in out:
            ck.add_eval(1)
            ck.count("op_unix_lit_compile_probe")
            ck.note_distinct("unix_lit_compile_probe/%s/rejected-at-build" % b)
        else:
            ck.note_inconclusive("unix_lit! probe %s: build failed for another reason: %s" % (b, out[-400:]))


def setup():
    build_all()
    vlib.run_one(**miri_job("c10", ["noop"], 1800))


def run(ck, replay=None):
    if replay:
        return replay_case(ck, replay, "c10", ("generated_x_hex", "generated_y_hex"))
    quick = ck.tier == "quick"
    b = build_all()
    seed = ck.seed
    jobs = []   # (label, kind, job)

    def add(kind, label, job):
        jobs.append((label, kind, job))

    # ---- native + ASan: the whole finite domain, random long strings, real directories
    ulen, plen = (6, 4) if quick else (9, 6)
    nsh = 1 if quick else 16
    rand_n = 4000 if quick else 60000
    rand_sh = 2 if quick else 16
    rounds = 4 if quick else 24
    flavours = [("debug", b["debug"]), ("release", b["release"])]
    if b.get("asan"):
        flavours.append(("asan", b["asan"]))
    else:
        ck.note_inconclusive("ASan build failed; ASan pass skipped: %s" % b.get("asan_error", "")[-300:])
    for prof, d in flavours:
        kind = "asan" if prof == "asan" else "native"
        exe = os.path.join(d, "c10")
        # thorough: the largest pair domain in the release build only (debug / ASan one size smaller)
        u, p = (ulen, plen) if (quick or prof == "release") else (8, 5)
        for i in range(nsh):
            add(kind, "%s exh ulen=%d plen=%d shard=%d/%d" % (prof, u, p, i, nsh),
                dict(argv=[exe, "exh", str(seed), "0", str(u), str(p), str(nsh), str(i)], timeout=3000))
        for i in range(rand_sh):
            add(kind, "%s rand seed=%d" % (prof, seed * 1000 + i),
                dict(argv=[exe, "rand", str(seed * 1000 + i), str(rand_n), "8192"], timeout=3000))
        add(kind, "%s dirent seed=%d" % (prof, seed),
            dict(argv=[exe, "dirent", str(seed * 10 + len(prof)), str(rounds)], timeout=3000))
        add(kind, "%s lits" % prof, dict(argv=[exe, "lits", str(seed), "0"], timeout=600))
        for i in range(1 if quick else 8):
            add(kind, "%s fmt seed=%d" % (prof, seed * 100 + i),
                dict(argv=[exe, "fmt", str(seed * 100 + i), str(3000 if quick else 60000)], timeout=3000))

    # ---- Miri: small domain partitioned completely + a hashed sample of the big one
    miri_ok = miri_warm(ck, "c10")
    if miri_ok:
        if quick:
            small, part, samp_jobs, samp_mod = (2, 2), 12, 3, 1500
        else:
            small, part, samp_jobs, samp_mod = (3, 2), 16, 32, 300
        for i in range(part):
            add("miri", "miri exh ulen=%d plen=%d shard=%d/%d" % (small[0], small[1], i, part),
                miri_job("c10", ["exh", seed, 0, small[0], small[1], part, i], 3000))
        for i in range(samp_jobs):
            add("miri", "miri exh ulen=6 plen=4 sample res=%d mod=%d" % (i, samp_mod),
                miri_job("c10", ["exh", seed, 0, 6, 4, samp_mod, i], 3000))
        add("miri", "miri rand", miri_job("c10", ["rand", seed, 8 if quick else 40, 120], 3000))
        for i in range(1 if quick else 6):
            add("miri", "miri fmt %d" % i, miri_job("c10", ["fmt", seed * 100 + i, 2 if quick else 8], 3000))
        if not quick:
            for i in range(7):
                add("miri", "miri rand %d" % i, miri_job("c10", ["rand", seed * 100 + i, 30, 300], 3000))
            add("miri", "miri lits", miri_job("c10", ["lits", seed, 0], 3000))

    with concurrent.futures.ThreadPoolExecutor(max_workers=1) as ex:
        probe = ex.submit(lit_probe, ck)          # builds run beside the harness jobs
        res = vlib.run_parallel([j for _, _, j in jobs])
        probe.result()
    log_slowest(jobs, res)
    exh_native_ok = True
    for (label, kind, _), r in zip(jobs, res):
        if kind == "native":
            ok = ck.consume_result(r, label)
            if " exh " in label and not ok:
                exh_native_ok = False
        else:
            ok = consume_tool_run(ck, r, label, "C10", kind)
        if ok:
            ck.note_distinct("run/%s/%s" % (kind if kind != "native" else label.split()[0], label.split()[1]))
            ck.count("%s_jobs_completed" % kind)

    # ---- consequence of an unterminated value for the NEXT operation, shown under ASan (supporting
    # witness for C10/parent_path/no-terminator; not a verdict of its own)
    seen = {s for s, _ in ck.violations}
    if b.get("asan") and "C10/parent_path/no-terminator" in seen:
        r = vlib.run_one([os.path.join(b["asan"], "c10"), "consequence"], timeout=120)
        rep = tool_report(r["err"])
        if rep:
            ck.extra["consequence_of_unterminated_parent_path"] = {
                "program": "p = parent_path(\"/aaaaaaaaaaaaaaaa/bbbbbbbbbbbbbbbb\"); p.match_up_to(&copy_of_p)",
                "asan": "%s in %s" % (rep[1], rep[2]), "report_head": rep[3][:600]}

    ck.exhaustive = bool(exh_native_ok)
    ck.extra["exhaustive_domain"] = (
        "native release (debug%s): every byte string over {00,'/','a',FF} of length <= %d through every constructor and the "
        "path-operation chains, every ordered pair of such strings of length <= %d through path_join / path_join_fmt / "
        "from_format; random long strings, directory listings and the Miri/ASan passes are samples"
        % (" too" if quick else " and ASan: lengths <= 8 / <= 5", ulen, plen))
    ck.assume("from_format / path_join_fmt cannot reject (they return a value): for text that carries a NUL other than "
              "one final NUL only the terminator is demanded (counted in note_*_interior_nul_accepted), as the statement "
              "limits 'no other NUL' to NUL-free inputs")
    ck.assume("from_format / path_join_fmt are also driven with char, integer, float, bool, Debug, fill/width/precision, nested "
              "format_args! and piecewise Display arguments; the reference is what std's format! produces for the same arguments "
              "(+ one NUL; for path_join_fmt the documented boundary rule on NUL-free text). NUL-free formatted text must give "
              "exactly one NUL, at the end; only text that itself contains a NUL falls under the 'counted' exception")
    ck.assume("from_str_checked is swept over every text of the domain at run time: its documented rejection is a panic, "
              "which is the expected outcome for unrepresentable text and a violation only for representable text; "
              "unix_lit! rejection is probed at build time (engines/h_unixstr/litprobe: bins that must not compile)")
    ck.assume("completeness of a directory listing is C14's claim; here every listed name must be terminated once, be one of "
              "the created names and be found by the kernel after path_join with the directory")
    ck.assume("Miri and ASan stop at their first report: cases after it in that job are not run (jobs are sharded so that "
              "one report costs one shard)")
    return ("every byte string over {0x00,'/','a',0xFF} up to length %d (unary) and every ordered pair up to length %d "
            "(binary), the same texts with a 2-byte character in place of 0xFF for the &str constructors, random strings up to 8 KiB with NUL none/end/interior/several, unix_lit! literals, ~40 format shapes over non-&str argument kinds (chars of every UTF-8 width incl. code points = 0 mod 0x100, numbers with width/fill/radix, nested format_args!, Display impls writing via write_char/write_str/write_fmt, {:?}) compared with std's format!, and names of "
            "1..255 bytes read back from real directories, through try_from_str/bytes/vec/string (both types), FromStr, "
            "from_format, from_str_checked (all texts, panic = expected rejection), From<&UnixStr>, Deref/AsRef, from_ptr, path_join, path_join_fmt, parent_path, "
            "path_file_name, file_unix_name and chains of them (parent of parent, parent joined with file name); every "
            "produced value is judged on its raw slice (non-empty, last byte 0, no other 0 when inputs had none) and "
            "constructors against the accept/reject reference, each call under catch_unwind; native debug+release, ASan, "
            "Miri sample. distinct = (operation, input length class, NUL class, slash shape, outcome) cells plus "
            "(tool, mode) cells" % (ulen, plen))
