"""C12: no tiny-std / rusl operation leaks, double-closes or steals a file descriptor, on success or on
failure of any underlying system call.

Engine: probes/fd_probe (std-linked tracee, ~80 scenarios) under engines/sysmon (ptrace monitor + fault injector).
Per case the probe takes a /proc/<pid>/fd baseline, opens a BEGIN..END window, runs ONE operation, drops /
closes what the operation handed over and takes a second snapshot.

Oracle (per window, root probe process):
  * after-snapshot == baseline minus descriptors passed in for consumption (Stdio::RawFd)  -> else leak / steal
  * every close() that returns 0 targets a descriptor created inside the window or passed in for consumption
    (a close of a baseline descriptor = steal); no close() returns EBADF (double close); descriptor table
    reconstructed with syslog.FdModel seeded from the baseline snapshot (pipe2/socketpair numbers inferred
    by the kernel's lowest-free rule, cross-checked against /proc at the end of the window).
Fault enumeration: a dry run (no injection) yields each scenario's system-call sequence (parent, and the
forked child of Command::spawn up to its execve); then one case per (call index k, errno) in which exactly that
call is not executed and returns -errno (errno from a per-call plausible set + the rest of 1..133: all in thorough,
seeded sample in quick), persistent resource-exhaustion faults (every call of that kind from the k-th on fails) and
two-fault sequences (plausible first fault, then a second one at every call that still follows).
close/exit/munmap/allocator calls are never failed. Parametrised families (spawn_combo: all 64 stdio combinations,
fs_read_size) run a seeded subset of parameter values in quick and all of them in thorough.
Further dimensions: SCM_RIGHTS receive with control buffers of every size class, a "low descriptors free" mode
(0 / 0,1 / 0,1,2 closed during the window), and argument-domain variants (probes/fd_probe/src/args.rs: extreme or
invalid timeouts, paths, buffers, addresses, argv/env strings, ids; un-injected + sampled single faults), filed
under "<operation>~args".
A leak that the un-injected run of the same scenario shows as well is charged to the un-injected signature
only, so that one defect does not produce one signature per fault position.
"""
import collections
import errno as _errno
import json
import os
import shutil
import tempfile

import syslog
import vlib

LEVEL = "fault_enumeration"
MIN_DISTINCT = 2
PROBE = "probes/fd_probe"

E = {name: num for num, name in _errno.errorcode.items()}
E["EAGAIN"] = 11
E["EOPNOTSUPP"] = 95
ENAME = dict(_errno.errorcode)
ENAME[11] = "EAGAIN"
ENAME[95] = "EOPNOTSUPP"
ERRNO_MAX = 133   # exhaustive errno range of the thorough tier (asm-generic errno.h: 1..133)

XNAME = {262: "newfstatat", 281: "epoll_pwait", 273: "set_robust_list", 334: "rseq", 302: "prlimit64",
         21: "access", 28: "madvise", 213: "epoll_create", 7: "poll", 270: "pselect6", 437: "openat2"}


def nrname(nr):
    return syslog.NAME.get(nr) or XNAME.get(nr) or ("nr%d" % nr)


# plausible errnos per call
PLAUSIBLE = {
    "open": ["EMFILE", "ENOENT", "EACCES", "ENOMEM", "EINTR", "ENFILE"],
    "openat": ["EMFILE", "ENOENT", "EACCES", "ENOMEM", "EINTR", "ENFILE", "ELOOP"],
    "read": ["EIO", "EINTR", "EAGAIN", "ENOMEM"],
    "write": ["EIO", "ENOSPC", "EINTR", "EAGAIN"],
    "pread64": ["EIO", "EINTR"],
    "socket": ["EMFILE", "ENOBUFS", "ENFILE", "ENOMEM", "EACCES"],
    "connect": ["ECONNREFUSED", "EAGAIN", "EINPROGRESS", "EINTR", "ENOENT", "ETIMEDOUT", "EACCES"],
    "bind": ["EADDRINUSE", "EACCES", "ENOMEM", "EROFS"],
    "listen": ["EADDRINUSE", "EOPNOTSUPP"],
    "accept": ["EMFILE", "EAGAIN", "ECONNABORTED", "ENFILE", "ENOMEM", "EINTR"],
    "accept4": ["EMFILE", "EAGAIN", "ECONNABORTED", "ENFILE", "ENOMEM", "EINTR"],
    "getsockname": ["ENOBUFS", "EBADF"],
    "ppoll": ["EINTR", "ENOMEM", "EINVAL"],
    "pipe": ["EMFILE", "ENFILE"],
    "pipe2": ["EMFILE", "ENFILE", "EINVAL"],
    "fork": ["EAGAIN", "ENOMEM", "ENOSYS"],
    "vfork": ["EAGAIN", "ENOMEM"],
    "clone": ["EAGAIN", "ENOMEM"],
    "wait4": ["ECHILD", "EINTR"],
    "dup3": ["EMFILE", "EINTR", "EBADF"],
    "dup2": ["EMFILE", "EINTR"],
    "execve": ["ENOENT", "EACCES", "ENOEXEC", "ENOMEM"],
    "chdir": ["ENOENT", "EACCES", "ENOTDIR"],
    "setuid": ["EPERM", "EAGAIN"],
    "setgid": ["EPERM"],
    "setpgid": ["EPERM", "EACCES"],
    "epoll_create1": ["EMFILE", "ENFILE", "ENOMEM"],
    "epoll_ctl": ["ENOMEM", "ENOSPC", "EEXIST", "EPERM"],
    "epoll_wait": ["EINTR", "EINVAL"],
    "epoll_pwait": ["EINTR", "EINVAL"],
    "ioctl": ["EIO", "ENOTTY", "EINVAL"],
    "io_uring_setup": ["ENOMEM", "EMFILE", "EPERM", "ENOSYS"],
    "mmap": ["ENOMEM", "EAGAIN"],
    "fstat": ["ENOMEM", "EACCES"],
    "stat": ["ENOENT", "EACCES", "ENOMEM"],
    "newfstatat": ["EACCES", "ENOENT", "ENOMEM"],
    "statx": ["EACCES", "ENOENT", "ENOMEM"],
    "getdents64": ["EIO", "ENOENT", "EINVAL"],
    "unlinkat": ["EACCES", "EBUSY", "ENOENT", "EPERM", "EROFS"],
    "unlink": ["EACCES", "EBUSY", "ENOENT"],
    "rmdir": ["EACCES", "EBUSY"],
    "mkdir": ["EACCES", "ENOSPC", "EEXIST", "ENOENT", "EDQUOT"],
    "mkdirat": ["EACCES", "ENOSPC", "EEXIST", "ENOENT", "EDQUOT"],
    "copy_file_range": ["EIO", "ENOSPC", "EXDEV", "EINVAL", "ENOMEM"],
    "fcntl": ["EINVAL", "EBADF", "EAGAIN"],
    "lseek": ["EINVAL"],
}
DEFAULT_ERRNOS = ["ENOMEM", "EIO", "EINTR"]
PERSISTENT = {"EMFILE", "ENFILE", "ENOMEM", "ENOBUFS", "ENOSPC", "EDQUOT"}
QUICK_EXTRA = 6000        # quick: sampled (position, errno) cells outside the plausible sets
QUICK_PAIRS = 4000        # quick: sampled two-fault cells
QUICK_FAMILY = {"spawn_combo": 10, "fs_read_size": 8}   # quick: parameter values per family (default: all)
LOW_MASKS = (1, 3, 7)     # "low descriptors free" mode: 0 / 0,1 / 0,1,2 closed during the window
POST = 16                 # marker::SCOPE_POST: the call is executed, only its reported result is replaced
QUICK_ARGPOST = 1500      # quick: sampled post-close cells of argument-domain variants
QUICK_ARGCELLS = 3000     # quick: sampled (argument variant, position, plausible errno) cells
ARGIDS = set()            # plan ids of the argument-domain variants (filled by run)
QUICK_LOW = 2500          # quick: sampled (scenario, mask, position, plausible errno) cells in that mode
PAIR_ERRNOS_QUICK = 2

# never failed: not part of the operation's contract with the kernel, or failing them without executing them
# fabricates a state the kernel cannot produce (a "failed" close still releases the descriptor on Linux)
NEVER = {syslog.NR["close"], syslog.NR["exit"], syslog.NR["exit_group"], 15,  # rt_sigreturn
         syslog.NR["munmap"], syslog.NR["brk"], syslog.NR["mremap"], 28, syslog.NR["mprotect"],
         syslog.NR["getpid"], syslog.NR["futex"], syslog.NR["rt_sigaction"], syslog.NR["rt_sigprocmask"]}

R_CONSUME, R_OPDONE, R_HANDED, R_SKIP = 10, 11, 12, 13


def injectable(e):
    if e.nr in NEVER:
        return False
    if e.nr == syslog.NR["mmap"]:
        # only file-backed mappings (the io_uring rings) belong to the operation; anonymous ones are malloc
        return (e.args[4] & 0xffffffff) != 0xffffffff
    return True


class Model(syslog.FdModel):
    """FdModel + descriptors of pipe/pipe2/socketpair (numbers inferred: the kernel hands out the lowest free ones)."""

    PAIRS = {syslog.NR["pipe"], syslog.NR["pipe2"], syslog.NR["socketpair"]}

    def feed(self, e, read_mem=None):
        if e.k == "S" and e.nr in self.PAIRS and e.ret == 0 and not e.inj:
            t = self.tab.setdefault(e.tgid, {})
            n = 0
            fd = 0
            while n < 2:
                if fd not in t:
                    t[fd] = "%s@%d" % (nrname(e.nr), e.seq)
                    self.created += 1
                    n += 1
                fd += 1
            return
        super().feed(e, read_mem)


class Case:
    __slots__ = ("scn", "cid", "scope", "nr", "k", "ret", "idx", "count", "second", "sub", "low")

    def __init__(self, scn, cid, scope=-1, nr=0, k=0, ret=0, idx=-1, count=1, second=None, sub=None, low=0):
        self.scn, self.cid, self.scope, self.nr, self.k, self.ret, self.idx = scn, cid, scope, nr, k, ret, idx
        self.count = count
        self.second = second   # (scope, nr, k as armed, ret, k as shown): a second fault later in the same operation
        self.sub = sub         # leaks already charged to the single-fault run this case extends
        self.low = low         # bit mask of descriptors 0..2 that are closed ("free") during the window

    def line(self):
        s = "%d %d %d %d %d %d %d" % (self.scn, self.cid, self.scope, self.nr, self.k, self.ret, self.count)
        s += " %d %d %d %d" % (self.second[:4] if self.second else (-1, 0, 0, 0))
        return s + " %d" % self.low

    @property
    def nfaults(self):
        return 0 if self.scope < 0 else (2 if self.second else 1)

    @property
    def injected(self):
        return self.scope >= 0

    def fault(self, sig=False):
        """label of the fault; in signatures a persistent fault (#k+) is filed under its first failing call (#k)"""
        if not self.injected:
            return None
        s = "%s%s#%d%s" % ("child-" if self.scope & 15 == 2 else "", nrname(self.nr), self.k,
                           "+" if (self.count > 1 and not sig) else "")
        if self.scope & POST:
            s += "-post"   # executed, but the caller is told it failed (close: the descriptor is gone all the same)
        if self.second:
            s += "-then-%s%s#%d" % ("child-" if self.second[0] == 2 else "", nrname(self.second[1]), self.second[4])
        return s

    def errnos(self):
        if not self.injected:
            return None
        s = ENAME.get(-self.ret, str(-self.ret))
        if self.second:
            s += "," + ENAME.get(-self.second[3], str(-self.second[3]))
        return s


class Window:
    """Everything observed for one case."""

    def __init__(self):
        self.baseline = None
        self.after = None
        self.consumable = set()
        self.handed = []
        self.opdone = None        # (is_err, code)
        self.ended = False
        self.skipped = None
        self.parent_seq = []      # S events of the operation itself (root process, BEGIN..OPDONE)
        self.child_seq = []       # S events of processes forked inside the window, up to the successful execve
        self.problems = []        # (kind, text, fd, origin)
        self.inj_hit = False
        self.inj_hits = 0
        self.root_closes = []     # (event, issued by the probe itself) for every close of the root process
        self.recvmsg_seq = 0      # seq of the last successful recvmsg of the root process in the window
        self.created = 0
        self.closed = 0
        self.child_returned = False
        self.model_tab = None
        self.consumed = set()
        self.nsys = 0


def analyse(log_path):
    """-> {case id: Window}, notes. Walks one sysmon log of one `fd_probe batch` run."""
    evs = syslog.parse(log_path)
    wins = {}
    notes = []
    root = None
    for e in evs:
        if e.k in ("E", "M", "S"):
            root = e.tgid
            break
    cur = None            # Window being filled
    model = None
    in_win = False        # between BEGIN and END of root
    in_op = False         # between BEGIN and OPDONE of root
    kids = set()          # tgids forked by root inside the current window
    kid_execed = set()
    pend_base = None
    pend_consume = set()
    last_cid = None
    for e in evs:
        if e.k == "D" and e.tgid == root:
            if e.tag == 1:
                pend_base = dict(e.fds)
                pend_consume = set()
            elif e.tag == 2 and last_cid is not None and last_cid in wins:
                wins[last_cid].after = dict(e.fds)
            continue
        if e.k == "M":
            if e.tgid != root:
                if e.kind == syslog.MARK["REPORT"] and e.a[0] == R_OPDONE and cur is not None and e.tgid in kids:
                    cur.child_returned = True
                continue
            if e.kind == syslog.MARK["REPORT"]:
                code = e.a[0]
                if code == R_CONSUME:
                    pend_consume.add(e.a[1])
                elif code == R_OPDONE and cur is not None:
                    cur.opdone = (e.a[1], e.a[2])
                    in_op = False
                elif code == R_HANDED and cur is not None:
                    cur.handed.append(e.a[1])
                    # descriptors installed by recvmsg (SCM_RIGHTS) are invisible in the call's registers: the
                    # model learns the reported ones here, unreported ones show up in the /proc snapshot
                    t = model.tab.setdefault(root, {})
                    if e.a[1] not in t and cur.recvmsg_seq:
                        t[e.a[1]] = "recvmsg@%d" % cur.recvmsg_seq
                        model.created += 1
                elif code == R_SKIP:
                    w = wins.setdefault(e.a[2], Window())
                    w.skipped = e.a[3]
            elif e.kind == syslog.MARK["BEGIN"]:
                cur = Window()
                cur.baseline = pend_base or {}
                cur.consumable = set(pend_consume)
                wins[e.a[1]] = cur
                last_cid = e.a[1]
                model = Model()
                model.seed(root, cur.baseline)
                in_win = in_op = True
                kids = set()
                kid_execed = set()
            elif e.kind == syslog.MARK["END"] and cur is not None:
                cur.ended = True
                cur.created, cur.closed = model.created, model.closed
                cur.model_tab = dict(model.tab.get(root, {}))
                in_win = in_op = False
                cur = None
            continue
        if not in_win or cur is None:
            continue
        if e.k == "F":
            if e.tgid == root and e.what in ("fork", "vfork", "clone"):
                kids.add(e.new)
                model.fork(root, e.new)
            continue
        if e.k != "S":
            continue
        if e.tgid != root and e.tgid not in kids:
            continue
        if e.tgid in kid_execed:
            continue  # another program now; its descriptors are not the operation's
        who = "" if e.tgid == root else "child-"
        cur.nsys += 1
        if e.inj or getattr(e, "post", False):
            cur.inj_hit = True
            cur.inj_hits += 1
        elif e.nr == syslog.NR["recvmsg"] and e.ret >= 0 and e.tgid == root:
            cur.recvmsg_seq = e.seq
        if e.tgid == root and in_op:
            cur.parent_seq.append(e)
        if e.tgid == root and e.nr == syslog.NR["close"]:
            # every close of the root process in the window, drop phase included; the probe's own closes of
            # raw handed-over descriptors (libc, after REPORT(12)) are not the repository's
            fdn = e.args[0] & 0xffffffff
            cur.root_closes.append((e, (not in_op) and fdn in cur.handed))
        elif e.tgid in kids and e.tgid not in kid_execed:
            cur.child_seq.append(e)
            if e.nr == syslog.NR["execve"] and e.ret == 0:
                kid_execed.add(e.tgid)
        # ---- close discipline (only code of the repository: the child until its execve) ----
        if e.nr == syslog.NR["close"] and not e.inj and not (e.tgid in kid_execed):
            fd = syslog.s64(e.args[0]) & 0xffffffff
            if fd >= 0x80000000:
                fd -= 1 << 32
            tab = model.tab.get(e.tgid, {})
            if e.ret == -9:
                cur.problems.append(("double-close", "%sclose(%d) -> EBADF at seq %d" % (who, fd, e.seq), fd, who))
            elif e.ret == 0 and e.tgid == root:
                origin = tab.get(fd)
                if origin is None and cur.recvmsg_seq:
                    pass  # a descriptor a recvmsg of this window installed (SCM_RIGHTS)
                elif origin is None:
                    cur.problems.append(("unknown-close", "close(%d) = 0 of a descriptor the model does not know (seq %d)"
                                         % (fd, e.seq), fd, ""))
                elif origin.startswith("inherited:"):
                    if fd in cur.consumable and fd not in cur.consumed:
                        cur.consumed.add(fd)
                    else:
                        cur.problems.append(("steal", "close(%d) = 0 of %s, open before the operation and not handed to it (seq %d)"
                                             % (fd, origin, e.seq), fd, origin))
        model.feed(e)
    return wins, notes, root


def origin_name(origin):
    if not origin:
        return "unknown"
    if origin.startswith("inherited:"):
        return "inherited"
    return origin.split("@")[0].replace("-", "_")


def judge(w):
    """-> (leaks Counter{origin: n}, list of (kind, text)) for a completed window."""
    leaks = collections.Counter()
    leak_detail = []
    other = []
    base, after = w.baseline, w.after
    for fd, tgt in sorted(after.items()):
        if fd not in base:
            o = origin_name((w.model_tab or {}).get(fd))
            if o == "unknown" and w.recvmsg_seq:
                o = "recvmsg"   # installed by the kernel through SCM_RIGHTS and never reported to the caller
            leaks[o] += 1
            leak_detail.append({"fd": fd, "target": tgt, "created_by": (w.model_tab or {}).get(fd)})
        elif base[fd] != tgt:
            other.append(("replaced", "descriptor %d designated %r before and %r after the operation" % (fd, base[fd], tgt)))
    for fd, tgt in sorted(base.items()):
        if fd not in after:
            if fd in w.consumable:
                continue
            if not any(p[0] == "steal" and p[2] == fd for p in w.problems):
                other.append(("steal", "descriptor %d (%s) open before the operation is gone after it" % (fd, tgt)))
    for kind, text, fd, origin in w.problems:
        if kind in ("steal", "double-close"):
            other.append((kind, text))
    # a descriptor passed in for consumption must be gone after a successful call
    if w.opdone and w.opdone[0] == 0:
        for fd in sorted(w.consumable):
            if fd in after and after.get(fd) == base.get(fd) and fd not in w.consumed:
                leaks["passed_in"] += 1
                leak_detail.append({"fd": fd, "target": after[fd], "created_by": "passed in for consumption (Stdio::RawFd)"})
    return leaks, leak_detail, other


def _run_batch(sysmon, probe, cases, workdir, tag, timeout_s):
    plan = os.path.join(workdir, "plan-%s" % tag)
    log = os.path.join(workdir, "log-%s" % tag)
    with open(plan, "w") as f:
        for c in cases:
            f.write(c.line() + "\n")
    scratch = os.path.join(workdir, "s-%s" % tag)
    cmd = syslog.sysmon_cmd(log, [probe, "batch", plan, scratch], timeout_s=timeout_s, idle_ms=0,
                            scope_markers=True, sysmon=sysmon)
    return dict(argv=cmd, timeout=timeout_s + 20), log


CHUNK = 250   # cases per tracee: short batches keep the watchdog short and a hang cheap
NAMES = {}    # plan id -> scenario name (filled by run), for messages only


def run_cases(ck, sysmon, probe, cases, workdir, nshard, label, timeout_s=30):
    """Run cases in batches (one tracee per batch of <= CHUNK cases, 2 x NCPU batches at a time); cases whose
    tracee died or hung are reported inconclusive and the rest of that batch is re-run. -> {cid: Window}"""
    out = {}
    nchunk = max(nshard, (len(cases) + CHUNK - 1) // CHUNK)
    shards = [cases[i::nchunk] for i in range(nchunk)]
    shards = [s for s in shards if s]
    rnd = 0
    while shards and rnd < 8:
        jobs, logs = [], []
        for i, s in enumerate(shards):
            j, log = _run_batch(sysmon, probe, s, workdir, "%s-%d-%d" % (label, rnd, i), timeout_s)
            jobs.append(j)
            logs.append(log)
        res = vlib.run_parallel(jobs, nproc=vlib.NCPU * 2)
        nxt = []
        for s, r, log in zip(shards, res, logs):
            try:
                wins, _notes, _root = analyse(log)
            except OSError:
                wins = {}
            done = 0
            stuck = None
            for c in s:
                w = wins.get(c.cid)
                if w is not None and (w.skipped is not None and not w.ended):
                    out[c.cid] = w
                    done += 1
                elif w is not None and w.ended and w.after is not None:
                    out[c.cid] = w
                    done += 1
                else:
                    stuck = c
                    break
            if stuck is not None:
                ck.note_inconclusive("%s: tracee %s in scenario %s (descriptors closed beforehand: mask %d), fault %s errno %s; "
                                     "rc=%s stderr=%s"
                                     % (label, "hung" if (r["timed_out"] or r["rc"] == 124) else "died",
                                        NAMES.get(stuck.scn, stuck.scn), stuck.low, stuck.fault(), stuck.errnos(), r["rc"],
                                        r["err"][-300:].replace("\n", " | ")))
                rest = s[done + 1:]
                if rest:
                    nxt.append(rest)
            try:
                os.unlink(log)
            except OSError:
                pass
        shards = nxt
        rnd += 1
    return out


def setup():
    vlib.cargo_build(PROBE, "fd_probe", bins=["fd_probe"])
    syslog.sysmon_bin()


def run(ck, replay=None):
    quick = ck.tier == "quick"
    probe = os.path.join(vlib.cargo_build(PROBE, "fd_probe", bins=["fd_probe"]), "fd_probe")
    sysmon = syslog.sysmon_bin()
    r = vlib.run_one([probe, "list"], timeout=30)
    names = {}     # plan id (= scenario id + 1000 * parameter) -> scenario name ("family:param" for families)
    family = {}    # plan id -> family name for parametrised scenarios
    famid = {}
    for ln in r["out"].splitlines():
        p = ln.split()
        if len(p) == 3:
            sid, nm, npar = int(p[0]), p[1], int(p[2])
            if nm.startswith("arg_"):
                famid[nm] = sid     # argument-domain families: valid parameter values come from `variants`
            elif npar <= 1:
                names[sid] = nm
            else:
                for par in range(npar):
                    names[sid + 1000 * par] = "%s:%d" % (nm, par)
                    family[sid + 1000 * par] = nm
    # argument-domain variants: "<family> <param> <operation> <label>"; filed under "<operation>~args"
    r = vlib.run_one([probe, "variants"], timeout=30)
    for ln in r["out"].splitlines():
        p = ln.split()
        if len(p) == 4 and p[0] in famid:
            pid = famid[p[0]] + 1000 * int(p[1])
            names[pid] = "%s~args:%s" % (p[2], p[3])
            family[pid] = p[0]
            ARGIDS.add(pid)
    if not names:
        ck.note_inconclusive("fd_probe list produced nothing: %s" % r["err"][-300:])
        return "no scenarios"
    only = None
    rep = None
    if replay:
        with open(replay) as f:
            rep = json.load(f).get("detail", {})
        only = rep.get("scenario")
    NAMES.update(names)
    workdir = tempfile.mkdtemp(prefix="c12-")
    try:
        return _run(ck, quick, probe, sysmon, names, family, workdir, only, rep)
    finally:
        shutil.rmtree(workdir, ignore_errors=True)


def _run(ck, quick, probe, sysmon, names, family, workdir, only, rep):
    rng = vlib.rng(ck.seed, "c12")
    ids = sorted(names)
    if only:
        ids = [i for i in ids if names[i] == only]
    elif quick:
        # parametrised families: a seeded subset of the parameter values in quick, all of them in thorough
        fam = collections.defaultdict(list)
        for i in ids:
            if i in family:
                fam[family[i]].append(i)
        drop = set()
        for f, members in sorted(fam.items()):
            rng.shuffle(members)
            drop.update(members[QUICK_FAMILY.get(f, len(members)):])
        ids = [i for i in ids if i not in drop]
    # ---------------- phase 1: un-injected runs (success / natural-error paths + call sequences) ------------
    order = list(ids)
    rng.shuffle(order)
    cid = 0
    base_cases = []
    for i in order:
        cid += 1
        base_cases.append(Case(i, cid))
    for i in order:
        if i in ARGIDS:
            continue
        for m in LOW_MASKS:
            cid += 1
            base_cases.append(Case(i, cid, low=m))
    if rep:
        base_cases = [c for c in base_cases if c.low == rep.get("low", 0)]
    base = run_cases(ck, sysmon, probe, base_cases, workdir, min(vlib.NCPU, len(base_cases)), "dry")
    base_leaks = {}
    base_other = {}   # steal / double-close kinds the un-injected run shows already (charged there only)
    plans = []
    postplans = []
    nscn = 0
    for c in base_cases:
        w = base.get(c.cid)
        name = names[c.scn]
        if w is None:
            continue
        if w.skipped is not None and not w.ended:
            ck.note_inconclusive("scenario %s: set-up not possible in this environment (reason %d)" % (name, w.skipped))
            continue
        nscn += 1
        report(ck, names, c, w, None)
        leaks, _d, _o = judge(w)
        base_leaks[(c.scn, c.low)] = leaks
        base_other[(c.scn, c.low)] = {kind for kind, _t in _o}
        # fault positions
        occ = collections.Counter()
        for idx, e in enumerate(w.parent_seq):
            k = occ[e.nr]
            occ[e.nr] += 1
            if injectable(e):
                plans.append((c.scn, 1, e.nr, k, idx, c.low))
        occ = collections.Counter()
        for idx, e in enumerate(w.child_seq):
            k = occ[e.nr]
            occ[e.nr] += 1
            if injectable(e):
                plans.append((c.scn, 2, e.nr, k, idx, c.low))
            elif e.nr == syslog.NR["close"] and not c.low:
                postplans.append((c.scn, 2 | POST, e.nr, k, idx))
        # close() that is executed but reports failure (EINTR / EIO: on Linux the descriptor is released either way)
        if not c.low:
            for k, (e, own) in enumerate(w.root_closes):
                if not own:
                    postplans.append((c.scn, 1 | POST, e.nr, k, -1))
    ck.count("scenario_variants", nscn)
    ck.count("scenarios", len(ids))
    # ---------------- phase 2: one case per (scenario, call index, errno) -----------------------------------
    cases = []
    ck.count("fault_positions", len(plans))
    extra = []
    lowcells = []
    argcells = []
    for scn, scope, nr, k, idx, low in plans:
        plaus = [E[n] for n in PLAUSIBLE.get(nrname(nr), DEFAULT_ERRNOS)]
        if low:
            # low-descriptor mode: single plausible faults only (thorough: all, quick: seeded sample)
            lowcells += [(scn, scope, nr, k, idx, en, low) for en in plaus]
            continue
        if scn in ARGIDS:
            # argument-domain variants: single plausible faults on top (thorough: all, quick: seeded sample)
            argcells += [(scn, scope, nr, k, idx, en, 0) for en in plaus]
            continue
        # every plausible errno at every position ...
        for en in plaus:
            cid += 1
            cases.append(Case(scn, cid, scope, nr, k, -en, idx))
        # ... resource exhaustion is persistent in practice: from the k-th call on, every call of that kind fails ...
        for en in plaus:
            if ENAME.get(en) in PERSISTENT:
                cid += 1
                cases.append(Case(scn, cid, scope, nr, k, -en, idx, count=1000))
        # ... and the rest of the errno range 1..133 (thorough: all of it; quick: a seeded sample)
        for en in range(1, ERRNO_MAX + 1):
            if en not in plaus:
                extra.append((scn, scope, nr, k, idx, en))
    if quick and not rep:
        rng.shuffle(extra)
        extra = extra[:QUICK_EXTRA]
    for scn, scope, nr, k, idx, en in extra:
        cid += 1
        cases.append(Case(scn, cid, scope, nr, k, -en, idx))
    if quick and not rep:
        rng.shuffle(lowcells)
        lowcells = lowcells[:QUICK_LOW]
    postcells = [(scn, scope, nr, k, idx, en, 0) for scn, scope, nr, k, idx in postplans
                 for en in (E["EINTR"], E["EIO"])]
    if quick and not rep:
        # all of them for the plain scenarios, a seeded sample for the argument-domain variants
        plain = [x for x in postcells if x[0] not in ARGIDS]
        argp = [x for x in postcells if x[0] in ARGIDS]
        rng.shuffle(argp)
        postcells = plain + argp[:QUICK_ARGPOST]
    ck.count("post_close_cells", len(postcells))
    if quick and not rep:
        rng.shuffle(argcells)
        argcells = argcells[:QUICK_ARGCELLS]
    ck.count("argument_variant_fault_cells", len(argcells))
    for scn, scope, nr, k, idx, en, low in lowcells + argcells + postcells:
        cid += 1
        cases.append(Case(scn, cid, scope, nr, k, -en, idx, low=low))
    if rep and rep.get("fault"):
        f1 = rep["fault"].split("-then-")[0]
        e1 = (rep.get("errno") or "").split(",")[0]
        cases = [c for c in cases if c.fault() == f1 and (not e1 or c.errnos() == e1) and c.low == rep.get("low", 0)]
    rng.shuffle(cases)
    nshard = max(1, min(len(cases), vlib.NCPU * 2))
    got = run_cases(ck, sysmon, probe, cases, workdir, nshard, "inj")
    pairs = []
    for c in cases:
        w = got.get(c.cid)
        if w is None:
            continue
        if w.skipped is not None and not w.ended:
            ck.count("cases_setup_skipped")
            ck.count("cases_setup_skipped/%s/reason%d" % (names[c.scn], w.skipped))
            continue
        report(ck, names, c, w, base_leaks.get((c.scn, c.low)), base_other.get((c.scn, c.low)))
        # ---------------- phase 3 plan: a second fault at every call that follows the first one ----------------
        if c.low or c.scn in ARGIDS or c.scope & POST or c.count != 1 or not w.inj_hit or -c.ret not in [E[n] for n in PLAUSIBLE.get(nrname(c.nr), DEFAULT_ERRNOS)]:
            continue
        hit = [e for e in w.parent_seq + w.child_seq if e.inj]
        if len(hit) != 1:
            continue
        hit = hit[0]
        first_leaks = judge(w)[0]
        for seq, scope in ((w.parent_seq, 1), (w.child_seq, 2)):
            occ = collections.Counter()
            for e in seq:
                k2 = occ[e.nr]
                occ[e.nr] += 1
                if e.seq <= hit.seq or not injectable(e):
                    continue
                # both injections count calls from BEGIN on; an earlier hit of the same call kind in the same
                # scope is not counted by the tracer for the later one
                armed = k2 - 1 if (e.nr == c.nr and scope == c.scope) else k2
                pl2 = [E[n] for n in PLAUSIBLE.get(nrname(e.nr), DEFAULT_ERRNOS)]
                for en in (pl2[:PAIR_ERRNOS_QUICK] if quick else pl2):
                    pairs.append((c, (scope, e.nr, armed, -en, k2), first_leaks))
    if quick and not rep:
        rng.shuffle(pairs)
        pairs = pairs[:QUICK_PAIRS]
    pcases = []
    for c, second, fl in pairs:
        cid += 1
        pcases.append(Case(c.scn, cid, c.scope, c.nr, c.k, c.ret, c.idx, 1, second, fl))
    if rep and rep.get("fault"):
        pcases = [c for c in pcases if c.fault() == rep["fault"] and (not rep.get("errno") or c.errnos() == rep["errno"])
                  and not rep.get("low")]
    ck.count("fault_pair_cells", len(pcases))
    got = run_cases(ck, sysmon, probe, pcases, workdir, max(1, min(len(pcases), vlib.NCPU * 2)), "pair")
    for c in pcases:
        w = got.get(c.cid)
        if w is None or (w.skipped is not None and not w.ended):
            continue
        report(ck, names, c, w, base_leaks.get((c.scn, c.low)), base_other.get((c.scn, c.low)))
    ck.exhaustive = False
    ck.extra["scenarios"] = [names[i] for i in ids]
    ck.assume("a fault = the call is not executed and returns -errno (ptrace); close, exit, munmap and allocator calls "
              "(brk, anonymous mmap) are never failed; one or two faults per case")
    ck.assume("Stdio::RawFd is an ownership transfer to spawn: a fresh descriptor per spawn, expected closed after a "
              "successful spawn; after a failed spawn either state is accepted")
    ck.assume("descriptor numbers of pipe2 are inferred with the lowest-free rule and cross-checked against /proc/<pid>/fd")
    ck.assume("single-threaded tracee; peers (listeners, clients) are set up outside the window and stay open across it")
    return ("every scenario is run un-injected (success or natural-error path) and once per (system-call index, errno) with "
            "errno from a per-call plausible set and from the rest of the range 1..%d (thorough: all, quick: seeded sample), plus "
            "persistent resource-exhaustion faults (every call of that kind from the k-th on fails) and two-fault sequences (a "
            "plausible first fault, then a second fault at every call that still follows; quick: seeded sample), in the calling "
            "process and in the forked child of spawn up to execve; oracle = /proc/<pid>/fd before/after the window + descriptor "
            "model over every close; distinct = (scenario, failed call(s), occurrence) cells plus un-injected scenario outcomes"
            % ERRNO_MAX)


def report(ck, names, c, w, base_leaks, base_other=None):
    """Feed one completed window into the Check."""
    full = names[c.scn] + ("@low%s" % "".join(str(i) for i in range(3) if c.low & (1 << i)) if c.low else "")
    # parametrised families and the three low-descriptor masks share signatures and fault cells
    name = names[c.scn].split(":")[0] + ("@low" if c.low else "")
    if c.low:
        ck.count("windows_low_descriptors_free")
    if c.scn in ARGIDS:
        ck.count("windows_argument_variants")
        if not c.injected:
            ck.count("argument_variants")
    ck.add_eval(1)
    ck.count("windows")
    ck.count("syscalls_in_windows", w.nsys)
    ck.count("fds_created_in_windows", w.created)
    ck.count("fds_closed_in_windows", w.closed)
    ck.count("fds_handed_raw", len(w.handed))
    is_err, code = (w.opdone or (0, 0))
    fault = c.fault()
    if c.injected:
        ck.count("faults_armed")
        if c.scope & POST:
            ck.count("faults_armed_post_close")
        if c.scope & 15 == 2:
            ck.count("faults_armed_in_child")
        if c.second:
            ck.count("fault_pairs_armed")
        reached = w.inj_hit and (not c.second or w.inj_hits >= 2)
        if not reached:
            ck.count("faults_not_reached")
        else:
            ck.count("faults_hit")
            if is_err:
                ck.count("ops_err_after_fault")
            else:
                ck.count("ops_ok_despite_fault")
            ck.note_distinct("%s/%s" % (name, fault))
            fnr, fen = (c.second[1], -c.second[3]) if c.second else (c.nr, -c.ret)
            if ENAME.get(fen) in PLAUSIBLE.get(nrname(fnr), DEFAULT_ERRNOS):
                ck.count("fault_tuples/%s" % ENAME[fen])
            else:
                ck.count("fault_tuples/outside_plausible_set")
    else:
        ck.note_distinct("%s/uninjected/%s" % (full, "err" if is_err else "ok"))
        ck.count("uninjected_err" if is_err else "uninjected_ok")
    if w.child_returned:
        ck.count("spawn_child_returned_into_caller")
    if is_err and w.after is not None:
        # observation only (5a): after a failed spawn a Stdio::RawFd descriptor may or may not have been consumed
        ck.count("rawfd_left_open_after_failed_spawn", sum(1 for fd in w.consumable if fd in w.after))
        ck.count("rawfd_consumed_by_failed_spawn", sum(1 for fd in w.consumable if fd not in w.after))
    leaks, leak_detail, other = judge(w)
    for p in w.problems:
        if p[0] == "unknown-close":
            ck.count("model_unknown_close")
            ck.count("model_unknown_close/%s" % name)
    # model vs ground truth
    if w.model_tab is not None and set(w.model_tab) != set(w.after):
        ck.count("model_vs_proc_mismatch")
    reached = c.injected and w.inj_hit and (not c.second or w.inj_hits >= 2)
    if reached:
        when = "-when-%s-fails" % c.fault(sig=True)
    elif c.injected:
        when = None  # fault never reached: identical to the un-injected run, already judged there
    else:
        when = "-on-error" if is_err else "-on-success"
    detail = {"scenario": names[c.scn], "low": c.low, "fault": fault if reached else None,
              "errno": c.errnos(), "call_index": c.idx if c.injected else None,
              "op_result": "Err(%d)" % code if is_err else "Ok", "baseline": w.baseline, "after": w.after,
              "calls": (["%s=%d%s" % (nrname(e.nr), e.ret, "!" if e.inj else "") for e in w.parent_seq]
                        + ["child:%s=%d%s" % (nrname(e.nr), e.ret, "!" if e.inj else "") for e in w.child_seq])[:60]}
    if when is not None:
        attributable = leaks
        if c.injected:
            attributable = leaks - ((base_leaks or collections.Counter()) | (c.sub or collections.Counter()))
        for o, n in sorted(attributable.items()):
            d = dict(detail)
            d["leaked"] = [x for x in leak_detail]
            d["count"] = n
            ck.violation("C12/%s/leak-%s%s" % (name, o, when), d)
        seen = set(base_other or ()) if c.injected else set()
        for kind, text in other:
            if kind in seen:
                continue
            seen.add(kind)
            d = dict(detail)
            d["event"] = text
            ck.violation("C12/%s/%s%s" % (name, kind, when), d)
    if (reached and c.cid % 5 == 0) or (not c.injected and ck.counters["windows"] % 9 == 1):
        ck.sample({"scenario": full, "fault": fault, "errno": c.errnos(),
                   "op": "Err(%d)" % code if is_err else "Ok", "fds_created": w.created,
                   "fds_closed": w.closed, "leaked": dict(leaks)})
