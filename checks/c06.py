"""C06: stack, TLS block and join state released exactly once in every exit/drop order.
Oracles: counting/quarantining allocator inside thread_probe (live-multiset baseline diff, double/foreign free,
layout mismatch, write-after-free poison), sysmon mapping/thread log (each stack unmapped exactly once by its
own thread, nothing after it but exit; tid address cleared before a thread-side free), VmSize across batches."""
import os
import re

import syslog
import threadprobe as tp
import vlib


def setup():
    syslog.sysmon_bin()
    for m, r in tp.flavours(True):
        tp.build(m, r)


def churn_rule(ck, text, label):
    vals = [(int(a), int(b)) for a, b in re.findall(r"^@@CHURN (\d+) (\d+) \d+$", text, re.M)]
    if len(vals) < 6:
        ck.note_inconclusive("%s: too few churn samples (%d)" % (label, len(vals)))
        return
    w = 3
    base = max(v for _, v in vals[:w])
    slack_kb = 2048 + 64 + 2048  # trim threshold + granule + one stack that the kernel has not reaped yet
    worst = max(v for _, v in vals[w:])
    ck.add_eval(len(vals))
    ck.count("churn_reps", len(vals))
    ck.sample(dict(scenario="churn", flavour=label, vmsize_kb_first=vals[0][1], vmsize_kb_warm=base, vmsize_kb_last=vals[-1][1], reps=len(vals)))
    if worst > base + slack_kb:
        ck.violation("C06/vmsize/grows-with-batches", dict(label=label, warm_kb=base, worst_kb=worst, series=vals[:40]))


def run(ck, replay=None):
    quick = ck.tier == "quick"
    syslog.sysmon_bin()
    exes = [(m, r, tp.build(m, r)) for m, r in tp.flavours(quick)]
    n_cells = 150 if quick else 500
    jobs, meta = [], []
    spawn_calls = tp.discover_spawn_calls(exes, ck.seed, "c06")
    # thorough repeats the whole matrix at several seeds: the interleavings seen differ from run to run
    reps = 1 if quick else 6
    for i, (m, r, exe) in [(i + 5000 * rep, f) for rep in range(reps) for i, f in enumerate(exes)]:
        for scen, n, quar in (("cells", n_cells, 1), ("heapres", 120 if quick else 400, 1),
                              ("mixed", 1500 if quick else 8000, 1), ("mixed", 1500 if quick else 8000, 0),
                              ("churn", 40 if quick else 400, 0), ("spurious_eintr", 100 if quick else 300, 1),
                              ("spurious_wake", 100 if quick else 300, 1), ("exit_window", 100 if quick else 300, 1),
                              ("dropsweep", 100 if quick else 400, 1)):
            jobs.append(tp.native_job(exe, scen, ck.seed + 7 * i + len(jobs), n, quar, timeout=150 if quick else 1800))
            meta.append(("native", m, r, scen, None))
        log = tp.tmp_log("c06-cells")
        jobs.append(tp.sysmon_job(exe, "cells", ck.seed + 500 + i, 25 if quick else 60, log, timeout_s=90 if quick else 900, entries=True))
        meta.append(("sysmon", m, r, "cells", log))
        log = tp.tmp_log("c06-mixed")
        jobs.append(tp.sysmon_job(exe, "mixed", ck.seed + 600 + i, 400 if quick else 1500, log, timeout_s=90 if quick else 900, entries=True))
        meta.append(("sysmon", m, r, "mixed", log))
        if i >= 5000:
            continue
        # every system call spawn performs (read from an un-injected traced run) is refused in turn: nothing
        # spawn set up before the refusal - heap blocks or mappings - may be left behind
        calls = spawn_calls.get((m, r))
        if not calls:
            ck.note_inconclusive("%s/%s: spawn's system calls could not be read from the un-injected run" % (m, "release" if r else "debug"))
            continue
        for nr, occ in calls:
            log = tp.tmp_log("c06-fault")
            jobs.append(tp.sysmon_job(exe, "fault_nr", ck.seed + 700 + i, nr, log, timeout_s=8, extra=(occ,)))
            meta.append(("sysmon-fault", m, r, "fault_%s%s" % (syslog.NAME.get(nr, nr), "" if occ == 0 else "#%d" % occ), log))
            ck.note_distinct("refused/%s#%d" % (syslog.NAME.get(nr, nr), occ))
    # second opinion: memcheck on the static probe (sees accesses to unmapped stacks / freed mappings;
    # the custom allocator's blocks are opaque to it, so the quarantine is switched off)
    import shutil
    if shutil.which("valgrind"):
        for m, r, exe in exes:
            if m == "static":
                for scen, n in (("cells", 6 if quick else 40), ("mixed", 60 if quick else 600)):
                    jobs.append(dict(argv=["valgrind", "-q", "--error-exitcode=9", exe, scen, str(ck.seed + 900), str(n), "0"],
                                     timeout=300 if quick else 3000))
                    meta.append(("valgrind", m, r, scen, None))
    res = vlib.run_parallel(jobs)
    lifecycle = dict(threads=0, stacks_unmapped_once_by_owner=0, thread_side_frees=0, handle_side_frees=0)
    for (how, m, r, scen, log), rr in zip(meta, res):
        label = "%s %s/%s %s" % (how, m, "release" if r else "debug", scen)
        text = tp.filter_lines(rr["out"], "C06")
        rr2 = dict(rr, out=text)
        if how == "valgrind":
            errs = [l for l in rr["err"].splitlines() if ("Invalid " in l or "uninitialised" in l or "Process terminating" in l)]
            if rr["rc"] == 9 or errs:
                ck.violation("C06/valgrind/" + ("invalid-access" if any("Invalid" in e for e in errs) else "error"),
                             dict(label=label, report=[l for l in rr["err"].splitlines() if "unhandled amd64" not in l and "README_MISSING" not in l and "write your own" not in l and "consider this a bug" not in l and "bug_reports" not in l][:40]))
            elif ck.consume_result(rr2, label):
                ck.note_distinct("valgrind/%s" % scen)
                ck.count("valgrind_runs")
            continue
        if how == "native":
            if rr["rc"] is not None and rr["rc"] < 0:
                # a crash while blocks are recycled is what a double free / use after free looks like
                ck.violation("C06/probe-crash/%s" % scen, dict(label=label, signal=-rr["rc"], stdout_tail=rr["out"][-600:]))
                continue
            if ck.consume_result(rr2, label):
                ck.note_distinct("flavour/%s/%s/%s" % (m, "release" if r else "debug", scen))
                if scen == "churn":
                    churn_rule(ck, rr["out"], label)
            continue
        evs = syslog.parse(log)
        try:
            os.unlink(log)
        except OSError:
            pass
        if how == "sysmon-fault":
            ck.consume(text, context=label)  # failed-spawn leak verdicts come from the in-probe monitor
            if rr["rc"] in (124, None):
                ck.note_inconclusive("%s: did not finish (hang is judged by C05)" % label)
            continue
        if rr["rc"] is not None and rr["rc"] >= 128:
            ck.violation("C06/probe-crash/%s" % scen, dict(label=label, status=rr["rc"]))
            continue
        if not ck.consume_result(rr2, label):
            continue
        threads, problems = tp.thread_lifecycle(evs)
        spawned = [t for t in threads.values() if t["spawned"]]
        lifecycle["threads"] += len(spawned)
        for t in spawned:
            ok = [u for u in t["unmaps"] if u[3] == 0 and u[1] == t["tid"]]
            if len(ok) == 1 and not t["after_unmap"]:
                lifecycle["stacks_unmapped_once_by_owner"] += 1
        oc = tp.order_classes(evs, threads)
        lifecycle["thread_side_frees"] += oc["thread_side_release"]
        lifecycle["handle_side_frees"] += oc["handle_side_release"]
        for k, v in oc.items():
            if v:
                ck.note_distinct("order/%s" % k)
        ck.add_eval(len(spawned))
        for sig, det in problems:
            det = dict(det, label=label)
            ck.violation("C06/" + sig, det)
        # at the end (quiescent) no thread stack may still be mapped
        snaps = [e for e in evs if e.k == "P"]
        ck.count("traced_threads", len(spawned))
    ck.extra["lifecycle_from_sysmon"] = lifecycle
    if lifecycle["threads"] and lifecycle["stacks_unmapped_once_by_owner"] == 0:
        ck.note_inconclusive("no thread stack lifecycle could be reconstructed from the logs")
    ck.assume("dlmalloc may keep freed segments: 'back at baseline' is judged as live-allocation multiset equality plus bounded VmSize, and exactly for stacks (mmap/munmap pairs)")
    ck.assume("the closure box of a panicked thread is the documented exception: one leftover layout, at most one block per panicked thread")
    return ("thread_probe with a counting/quarantining global allocator around the repository's Dlmalloc runs all 6 dispositions "
            "(join/drop x early/late/race) x {return,panic} with seeded delays at the hook points, random mixtures (<=512 live), "
            "repeated batches; sysmon reconstructs per-thread stack mmap/munmap/exit and tid-address clearing; "
            "distinct = (cell, outcome, layout, delays), flavours, release-side orders observed")
