"""C13: Command::spawn returns only in the caller; on Ok the child runs exactly what was configured and
wait reports its exit status; on failure of any step up to exec the caller gets that step's errno and no
process is left running the caller's code.

Oracle: the probes (probes/spawn_probe = std-linked, tiny-std without `start`; probes/spawn_probe_nolibc =
no-libc executable, tiny-std with `start`) run seeded spawn cases under engines/sysmon (ptrace).  Per case
the probe brackets the spawn with BEGIN/END markers and issues a RETURNED marker immediately after
`spawn()` comes back.  This driver judges from the sysmon log (process tree F/E/X per pid, every system call
of caller and forked child with its result, injected faults) and from the dump written by the exec target
probes/dump_helper (argv, raw environment block, cwd, ids, pgid, fstat identity of fds 0-2, open descriptor
list, stdin data) against a reference computed from the case configuration.
"""
import json
import os
import shutil
import stat
import subprocess
import tempfile
import time
import concurrent.futures

import vlib
import syslog

LEVEL = "fault_enumeration"
MIN_DISTINCT = 8

PROBE_STD = "probes/spawn_probe"
PROBE_NOLIBC = "probes/spawn_probe_nolibc"
HELPER = "probes/dump_helper"

# marker REPORT kinds (probes/spawn_probe/src/core.rs)
K_BASE_STDIO, K_RETURNED, K_CHILD_PID, K_PIPE, K_WAITED, K_PREEXEC, K_STDIN_WRITE, K_BASE_FD, K_RAWFD, \
    K_BASE_PROC, K_PIPE_READ, K_SECOND_WAIT = 100, 101, 102, 103, 104, 105, 106, 107, 108, 109, 110, 111
K_PARSE_ERR = 199

NR = syslog.NR
ERRNO = dict(EPERM=1, ENOENT=2, ESRCH=3, EINTR=4, EIO=5, E2BIG=7, ENOEXEC=8, EBADF=9, EAGAIN=11, ENOMEM=12,
             EACCES=13, EFAULT=14, EBUSY=16, ENOTDIR=20, EINVAL=22, ENFILE=23, EMFILE=24, ETXTBSY=26,
             ENAMETOOLONG=36, ELOOP=40, EMAX=4095)
ENAME = {v: k for k, v in ERRNO.items()}
RESOURCE_ERRNOS = {ERRNO["EAGAIN"], ERRNO["ENOMEM"], ERRNO["EMFILE"], ERRNO["ENFILE"], ERRNO["EINTR"]}
CHILD_STEP_NR = {NR["dup3"]: "dup2", NR["dup2"]: "dup2", NR["fcntl"]: "dupfd", NR["dup"]: "dupfd", NR["chdir"]: "chdir", NR["setuid"]: "setuid",
                 NR["setgid"]: "setgid", NR["setpgid"]: "setpgid", NR["execve"]: "execve"}
PARENT_STEP_NR = {NR["pipe2"]: "pipe2", NR["pipe"]: "pipe2", NR["openat"]: "open-devnull", NR["open"]: "open-devnull",
                  NR["fork"]: "fork", NR["clone"]: "fork", NR["vfork"]: "fork", NR["clone3"]: "fork",
                  NR["read"]: "sync-pipe-read", NR["fcntl"]: "sync-pipe-move"}
STREAM = ("stdin", "stdout", "stderr")
K_SPAWN_ENTER = 112
# Calls that are never refused (and whose negative result is not a failed step): close (result ignored by design; a
# suppressed close leaves the descriptor open, which only creates artificial hangs), exit/exit_group (cannot fail),
# write (the child's 8-byte error record: exists only after another step has already failed = double fault),
# wait4 (the parent's reaping in its error paths = double fault)
NEVER_REFUSED = {NR["close"], NR["exit"], NR["exit_group"], NR["write"], NR["wait4"]}
GEN_ERRNOS = ["EMFILE", "EACCES", "EIO", "ENOMEM", "EPERM", "EMAX"]


def step_name(side, nr):
    tab = PARENT_STEP_NR if side == "parent" else CHILD_STEP_NR
    return tab.get(nr) or syslog.NAME.get(nr) or "sys%d" % nr


def hx(b):
    return bytes(b).hex()


# ------------------------------------------------------------------------------------------------
# case generation
# ------------------------------------------------------------------------------------------------
def rand_token(r, kind=None):
    kind = kind or r.choice(["empty", "ascii", "ascii", "space", "utf8", "nonutf8", "long", "eq", "dash", "ctrl"])
    if kind == "empty":
        return b""
    if kind == "ascii":
        return bytes(r.choice(b"abcdefghijklmnopqrstuvwxyzABCXYZ0123456789_-./") for _ in range(r.randint(1, 24)))
    if kind == "space":
        return r.choice([b" ", b"a b", b"  lead", b"trail  ", b"tab\there", b"new\nline", b"'q' \"dq\" $x `y` \\z"])
    if kind == "utf8":
        return r.choice(["å∫ç", "日本語", "naïve café", "\U0001f980 crab"]).encode()
    if kind == "nonutf8":
        return bytes(r.choice([0xff, 0xfe, 0x80, 0xc0, 0x01, 0x7f, 0x41]) for _ in range(r.randint(1, 16)))
    if kind == "long":
        return bytes(r.choice(b"xyz0=/") for _ in range(r.choice([255, 256, 1023, 4096, 9000])))
    if kind == "eq":
        return r.choice([b"=", b"a=b", b"=x", b"k=", b"--opt=val=ue"])
    if kind == "dash":
        return r.choice([b"-", b"--", b"-h", b"--help", b"-x=1"])
    return bytes(r.choice([1, 2, 7, 8, 9, 10, 13, 27, 31]) for _ in range(r.randint(1, 6)))


def rand_env(r, n):
    out = []
    for i in range(n):
        c = r.randrange(12)
        if c == 0 and out:
            out.append(r.choice(out))                              # exact duplicate
        elif c == 1 and out and b"=" in out[0]:
            out.append(out[0].split(b"=")[0] + b"=other%d" % i)    # duplicate key, other value
        elif c == 2:
            out.append(b"NOEQUALS%d" % i)
        elif c == 3:
            out.append(b"EMPTYVAL%d=" % i)
        elif c == 4:
            out.append(b"=leading%d" % i)
        elif c == 5:
            out.append(b"BIN%d=" % i + rand_token(r, "nonutf8"))
        elif c == 6:
            out.append(b"LONG%d=" % i + rand_token(r, "long"))
        elif c == 7:
            out.append(b"")
        else:
            out.append(b"K%d_%s=" % (i, rand_token(r, "ascii").replace(b"=", b"_").replace(b"/", b"_")) + rand_token(r))
    return out


def nargs_class(n):
    return "0" if n == 0 else "1" if n == 1 else "2-9" if n < 10 else "10-49" if n < 50 else "50"


class Shard:
    """One probe process: directory, case list, files."""

    def __init__(self, root, flavour, idx):
        self.flavour = flavour
        self.idx = idx
        self.dir = os.path.join(root, "%s-%d" % (flavour["name"], idx))
        os.makedirs(self.dir)
        os.chmod(self.dir, 0o777)
        self.bdir = os.fsencode(self.dir)
        self.cases = []
        for d in (b"cwd-a", b"cwd b\xff\xfe"):
            os.mkdir(os.path.join(self.bdir, d))
            os.chmod(os.path.join(self.bdir, d), 0o777)
        open(os.path.join(self.dir, "stdin.empty"), "w").close()
        with open(os.path.join(self.dir, "noexec"), "wb") as f:
            f.write(b"#!/bin/sh\nexit 0\n")
        os.chmod(os.path.join(self.dir, "noexec"), 0o644)
        with open(os.path.join(self.dir, "garbage"), "wb") as f:
            f.write(b"\x00\x01\x02 this is not an executable format\n")
        os.chmod(os.path.join(self.dir, "garbage"), 0o755)
        os.symlink("loop", os.path.join(self.dir, "loop"))
        os.mkdir(os.path.join(self.dir, "priv"))
        os.chmod(os.path.join(self.dir, "priv"), 0o700)
        self.probe_env = None

    def link(self, helper, cid, code, sub=b""):
        p = os.path.join(self.bdir, sub, b"h.%d.%d" % (cid, code))
        os.link(helper, p)
        return p


def base_case(cid):
    return dict(id=cid, kind="ok", bin=None, helper=True, code=0, args=[], env_mode="default", envs=[], cwd=None,
                uid=None, gid=None, pg=None, io=[None, None, None], pre=0, prefail=None, inj=[], payload=b"",
                wait2=False, trywait=False, fault=None, note="", shared=None, holdstdin=False, closed=None,
                dump_id=None, head=None, followers=None, closures=None, decoy=False)


def bin_abs(c, sh, decoy=False):
    """Where the kernel looks the program up: a relative program path is resolved by the child's execve, which runs after
    chdir(cwd), so against the configured working directory (decoy=True: against the caller's own one)."""
    base = sh.bdir
    if c["cwd"] is not None and not decoy:
        base = os.path.join(sh.bdir, c["cwd"])
    return os.path.join(base, c["bin"])


def gen_config(r, sh, helper, cid, *, light=False):
    """A random configuration that is expected to spawn successfully."""
    c = base_case(cid)
    c["code"] = r.choice([0, 0, 1, 2, 3, 42, 77, 126, 127, 128, 200, 255, r.randrange(256)])
    c["bin"] = sh.link(helper, cid, c["code"])
    na = r.choice([0, 0, 1, 2, 3, 5, 9, 10, 20, 49, 50, r.randint(0, 50)])
    if light:
        na = r.choice([0, 1, 3])
    c["args"] = [rand_token(r) for _ in range(na)]
    if r.random() < 0.45:
        c["env_mode"] = "provided"
        ne = r.choice([1, 1, 2, 3, 5, 10, 25, 50, r.randint(1, 50)])
        if light:
            ne = r.choice([1, 2])
        c["envs"] = rand_env(r, ne)
    c["cwd"] = r.choice([None, None, os.path.join(sh.bdir, b"cwd-a"), os.path.join(sh.bdir, b"cwd b\xff\xfe"), b"/",
                         b"cwd-a", b"./cwd-a/", b".", sh.bdir + b"//cwd-a/../cwd-a"])
    if c["cwd"] is None and r.random() < 0.15:
        c["bin"] = b"./" + os.path.basename(c["bin"])   # relative program path (resolved against the unchanged cwd)
    ug = r.randrange(8)
    if ug == 0:
        c["uid"] = r.choice([0, 65534, 12345])
    elif ug == 1:
        c["gid"] = r.choice([0, 65534, 54321])
    elif ug == 2:
        c["uid"], c["gid"] = 0, r.choice([0, 65534, 54321])
    c["pg"] = r.choice([None, None, None, 0, -1])
    c["payload"] = bytes(r.randrange(256) for _ in range(r.choice([0, 1, 7, 64, 500, 1500])))
    c["io"][0] = r.choice([None, "i", "n", "p", "p", "r"])
    c["io"][1] = r.choice([None, "i", "n", "p", "p", "w"])
    c["io"][2] = r.choice([None, "i", "n", "p", "p", "w"])
    if not light and r.random() < 0.12:
        apply_shared_stdio(c, r.choice(sorted(SHARED_STDIO)))
    c["pre"] = 0
    c["closures"] = [r.choice([0, 0, "y"]) for _ in range(r.choice([0, 0, 0, 1, 2, 3, 4]))]
    c["wait2"] = r.random() < 0.2
    c["trywait"] = r.random() < 0.2
    if c["io"][0] == "p" and not c["trywait"] and r.random() < 0.4:
        c["holdstdin"] = True       # wait() is called while the Child still owns the stdin pipe
    return c


SHARED_STDIO = {
    # name: (stdin, stdout, stderr)   "s<k>" = the same descriptor as stream k, ("x", n) = the caller's own descriptor n
    "out+err-one-file": (None, "w", ("s", 1)),                 # > log 2>&1
    "in+out+err-one-file": ("b", ("s", 0), ("s", 0)),
    "in+out-one-file": ("b", ("s", 0), None),
    "err-to-own-stdout": (None, None, ("x", 1)),               # 2>&1 with inherited stdout
    "out-to-own-stderr": (None, ("x", 2), None),               # 1>&2
    "out-and-err-to-own-stdout": (None, ("x", 1), ("x", 1)),
    "own-identity": (("x", 0), ("x", 1), ("x", 2)),
    "stdin-own-0": (("x", 0), None, None),
    "stdout-own-1": (None, ("x", 1), "p"),
    "stderr-own-2": (None, "p", ("x", 2)),
    "crossed-out-err": (None, ("x", 2), ("x", 1)),
    "pipe-in-err-to-own-stdout": ("p", "p", ("x", 1)),
}


def apply_shared_stdio(c, name):
    c["io"] = list(SHARED_STDIO[name])
    c["note"] = (c["note"] + " " if c["note"] else "") + "stdio:" + name
    c["shared"] = name
    return c


def materialize(c, sh):
    """Create the files a case needs; resolve io specs to concrete paths."""
    cid = c["id"]
    for s in range(3):
        m = c["io"][s]
        if m == "r":
            p = os.path.join(sh.bdir, b"in.%d" % cid)
            with open(p, "wb") as f:
                f.write(c["payload"])
            c["io"][s] = ("r", p)
        elif m == "w":
            p = os.path.join(sh.bdir, (b"out.%d" if s == 1 else b"err.%d") % cid)
            open(p, "wb").close()
            os.chmod(p, 0o666)
            c["io"][s] = ("w", p)
        elif m == "b":
            p = os.path.join(sh.bdir, b"rw.%d" % cid)
            with open(p, "wb") as f:
                f.write(c["payload"])
            os.chmod(p, 0o666)
            c["io"][s] = ("b", p)


SEED = [0]


def io_tok(k, m):
    if isinstance(m, tuple):
        return "%s=%s%s" % (k, m[0], hx(m[1]) if m[0] in "rwb" else str(m[1]))
    return "%s=%s" % (k, m)


def chunked(r, one, many, items):
    """Split `items` into consecutive builder calls: single `one=` calls and `many=` batches (also empty ones)."""
    out = []
    i = 0
    while i < len(items):
        if r.random() < 0.5:
            out.append("%s=%s" % (one, hx(items[i])))
            i += 1
        else:
            k = r.randint(0 if r.random() < 0.15 else 1, min(6, len(items) - i))
            out.append("%s=%s" % (many, ",".join(hx(x) if x else "-" for x in items[i:i + k])))
            i += k
    if r.random() < 0.25:
        out.insert(r.randint(0, len(out)), "%s=" % many)
    return out


def interleave(r, *seqs):
    """Random merge of sequences that keeps the order inside each of them."""
    seqs = [list(q) for q in seqs if q]
    out = []
    while seqs:
        q = r.choice(seqs)
        out.append(q.pop(0))
        if not q:
            seqs.remove(q)
    return out


def closure_list(c):
    """Outcome of each pre-exec closure in registration order: 0 = Ok, e > 0 = Err(errno e), -1 = Err without OS code,
    "y" = issues sched_yield itself and fails with its errno if that call is refused."""
    if c.get("closures") is not None:
        return list(c["closures"])
    if c["prefail"]:
        idx, code = c["prefail"]
        return [0] * idx + [code] + [0] * max(0, c["pre"] - idx)
    return [0] * c["pre"]


def build_tokens(c, r, args, envs, settings=True):
    """The builder calls of one Command in a seeded order: arg/args and env/envs chunks in configuration order,
    the other settings anywhere in between."""
    a = chunked(r, "arg", "args", args)
    e = chunked(r, "env", "envs", envs) if (envs or r.random() < 0.1) else []
    io = []
    other = []
    if settings:
        for s, k in enumerate(("in", "out", "err")):
            if c["io"][s] is not None:
                io.append(io_tok(k, c["io"][s]))
        if c["cwd"] is not None:
            other.append(["cwd=" + hx(c["cwd"])])
        for k in ("uid", "gid", "pg"):
            if c[k] is not None:
                other.append(["%s=%d" % (k, c[k])])
        pre = []
        run = 0
        for o in closure_list(c) + [None]:
            if o == 0 and r.random() < 0.6:
                run += 1            # several succeeding closures registered in one go
                continue
            if run:
                pre.append("pre=%d" % run)
                run = 0
            if o == 0:
                pre.append("pre=1")
            elif o == "y":
                pre.append("preyield=1")
            elif o == -1:
                pre.append("prenocode=1")
            elif o is not None:
                pre.append("prefail=%d" % o)
        other.append(pre)
    t = interleave(r, a, e, io, *other)
    return t


def tail_tokens(c):
    t = []
    for j in c["inj"]:
        t.append("inj=%d,%d,%d,%d,%d" % tuple(j))
    if c["payload"]:
        t.append("payload=" + hx(c["payload"]))
    if c["wait2"]:
        t.append("wait2=1")
    if c["trywait"]:
        t.append("trywait=1")
    if c.get("holdstdin"):
        t.append("holdstdin=1")
    for n in c.get("closed") or []:
        t.append("closefd=%d" % n)      # last: files handed over as RawFd are opened before
    return t


def case_line(c):
    """One line = one Command value: builder calls in a seeded interleaving, one or more spawns."""
    if c.get("head") is not None:
        return case_line(c["head"])
    r = vlib.rng(SEED[0], "build", c["id"])
    t = ["id=%d" % c["id"], "bin=" + hx(c["bin"])]
    t += build_tokens(c, r, c["args"], c["envs"] if c["env_mode"] == "provided" else [])
    t += tail_tokens(c)
    fol = c.get("followers") or []
    if fol:
        t.append("spawn=%d" % c["id"])
        for f in fol:
            t += build_tokens(f, r, f["extra_args"], f["extra_envs"], settings=False)
            if f.get("new_cwd") is not None:
                t.append("cwd=" + hx(f["new_cwd"]))
            t.append("spawn=%d" % f["id"])
    return " ".join(t)


def ser_case(c, sh):
    """JSON form of a case (of the whole chain when the Command is re-used) with shard-relative paths, for replay files."""
    if c.get("head") is not None:
        return ser_case(c["head"], sh)
    def path(b):
        if b is None:
            return None
        if b.startswith(sh.bdir + b"/"):
            return {"rel": hx(b[len(sh.bdir) + 1:])}
        return {"abs": hx(b)}
    o = {k: c[k] for k in ("id", "kind", "helper", "code", "env_mode", "uid", "gid", "pg", "pre", "wait2", "trywait", "note", "shared", "holdstdin", "closed", "dump_id", "closures")}
    o["decoy"] = bool(c.get("decoy"))
    o["bin"], o["cwd"] = path(c["bin"]), path(c["cwd"])
    o["args"] = [hx(a) for a in c["args"]]
    o["envs"] = [hx(a) for a in c["envs"]]
    o["payload"] = hx(c["payload"])
    o["io"] = [m if not isinstance(m, tuple) else (m[0] if m[0] in "rwb" else [m[0], m[1]]) for m in c["io"]]
    o["prefail"] = list(c["prefail"]) if c["prefail"] else None
    o["inj"] = [list(j) for j in c["inj"]]
    o["fault"] = list(c["fault"]) if c["fault"] else None
    o["followers"] = [dict(id=f["id"], extra_args=[hx(a) for a in f["extra_args"]], extra_envs=[hx(a) for a in f["extra_envs"]],
                           new_cwd=path(f.get("new_cwd"))) for f in (c.get("followers") or [])]
    return o


def deser_case(o, sh, helper):
    def path(v):
        if v is None:
            return None
        return os.path.join(sh.bdir, bytes.fromhex(v["rel"])) if "rel" in v else bytes.fromhex(v["abs"])
    c = base_case(o["id"])
    for k in ("kind", "helper", "code", "env_mode", "uid", "gid", "pg", "pre", "wait2", "trywait", "note", "shared", "holdstdin", "closed", "dump_id", "closures"):
        c[k] = o[k]
    c["bin"], c["cwd"] = path(o["bin"]), path(o["cwd"])
    c["args"] = [bytes.fromhex(a) for a in o["args"]]
    c["envs"] = [bytes.fromhex(a) for a in o["envs"]]
    c["payload"] = bytes.fromhex(o["payload"])
    c["io"] = [tuple(m) if isinstance(m, list) else m for m in o["io"]]
    c["prefail"] = tuple(o["prefail"]) if o["prefail"] else None
    c["inj"] = [tuple(j) for j in o["inj"]]
    c["fault"] = tuple(o["fault"]) if o["fault"] else None
    if c["helper"]:
        c["decoy"] = bool(o.get("decoy"))
        for b in [bin_abs(c, sh)] + ([bin_abs(c, sh, decoy=True)] if c["decoy"] else []):
            if os.path.basename(b).startswith(b"h.") and not os.path.lexists(b):
                os.makedirs(os.path.dirname(b), exist_ok=True)
                os.chmod(os.path.dirname(b), 0o777)
                os.link(helper, b)
    prev = c
    c["followers"] = []
    for fo in o.get("followers") or []:
        f = follow(prev, fo["id"], [bytes.fromhex(a) for a in fo["extra_args"]], [bytes.fromhex(a) for a in fo["extra_envs"]],
                   path(fo["new_cwd"]), c)
        c["followers"].append(f)
        prev = f
    return c


def follow(prev, cid, extra_args, extra_envs, new_cwd, head):
    """The configuration of the next spawn of the same Command value."""
    f = dict(prev)
    f.update(id=cid, args=prev["args"] + extra_args, envs=(prev["envs"] if prev["env_mode"] == "provided" else []) + extra_envs,
             extra_args=extra_args, extra_envs=extra_envs, new_cwd=new_cwd, head=head, followers=None, dump_id=cid,
             io=list(prev["io"]), inj=[], fault=None)
    if f["envs"]:
        f["env_mode"] = "provided"
    if new_cwd is not None:
        f["cwd"] = new_cwd
    return f


def n_fd_streams(c):
    return [s for s in range(3) if c["io"][s] not in (None, "i")]


def gen_real_failures(r, sh, helper, next_id, thorough):
    """Failures provoked by real means (no injection); the errno is whatever the kernel answers (read from the log)."""
    out = []

    def mk(note, **kw):
        c = gen_config(r, sh, helper, next_id(), light=True)
        c["uid"] = c["gid"] = None
        c["kind"] = "real"
        c["note"] = note
        for k, v in kw.items():
            c[k] = v
        out.append(c)
        return c

    d = sh.bdir
    progs = [("exec-enoent", os.path.join(d, b"does-not-exist")), ("exec-eacces-mode", os.path.join(d, b"noexec")),
             ("exec-enoexec", os.path.join(d, b"garbage")), ("exec-eacces-dir", os.path.join(d, b"cwd-a")),
             ("exec-enotdir", os.path.join(d, b"noexec", b"x")), ("exec-eloop", os.path.join(d, b"loop")),
             ("exec-enametoolong", os.path.join(d, b"n" * 300)), ("exec-empty-path", b"")]
    for note, p in progs:
        if p == b"":
            continue  # Command::new needs a path; the empty string is covered by ENOENT classes
        mk(note, bin=p, helper=False, cwd=None)
    for note, p in [("chdir-enoent", os.path.join(d, b"no-such-dir")), ("chdir-enotdir", os.path.join(d, b"noexec")),
                    ("chdir-eloop", os.path.join(d, b"loop"))]:
        mk(note, cwd=p)
    mk("setpgid-foreign", pg=1)
    mk("setgid-after-setuid", uid=65534, gid=65534)
    mk("setgid-after-setuid", uid=12345, gid=0)
    c = mk("exec-eacces-uid", uid=65534, cwd=None)
    os.unlink(c["bin"]) if not c["bin"].startswith(b"./") else os.unlink(os.path.join(d, c["bin"][2:]))
    c["bin"] = sh.link(helper, c["id"], c["code"], sub=b"priv")
    for s in range(3):
        c2 = mk("rawfd-closed-" + STREAM[s])
        c2["io"][s] = ("x", 900 + s)
    n_pre = r.choice([0, 1, 2])
    mk("preexec-err", pre=n_pre + r.choice([0, 1]), prefail=(n_pre, r.choice([1, 5, 13, 22, 4095])))
    for _ in range(10 if thorough else 6):
        n = r.choice([1, 2, 2, 3, 3, 4, 4])
        errs = r.sample([1, 5, 13, 22, 28, 4095, 2, 9], 4)
        seq = [r.choice([0, 0, "y", errs[i], errs[i], -1]) for i in range(n)]
        if all(o in (0, "y") for o in seq):
            seq[r.randrange(n)] = errs[0]
        if n >= 2 and r.random() < 0.6:
            seq[0 if n == 2 else r.randrange(n - 1)] = errs[1]       # a non-last one fails
            seq[-1] = r.choice([errs[2], -1])                          # and a later one would fail differently
        mk("preexec-sequence", closures=seq)
    # prefail index must be inside 0..pre (core.rs adds one closure for the failing one)
    for c in out:
        if c["prefail"] and c["prefail"][0] > c["pre"]:
            c["prefail"] = (c["pre"], c["prefail"][1])
    return out


# ------------------------------------------------------------------------------------------------
# discovered fault enumeration: (mode, side, call, occurrence) cells read from un-injected traced runs
# ------------------------------------------------------------------------------------------------
def mode_specs(seed, thorough):
    """Parent/stdio modes whose spawn sequences are discovered and then refused call by call."""
    m = []

    def add(name, io=(None, None, None), closed=None, settings=False, bad=False, shared=None, rand=None, closures=None, fails=False):
        m.append(dict(name=name, io=list(io), closed=closed, settings=settings, bad=bad, shared=shared, rand=rand,
                      closures=closures, fails=fails))
    add("inherit")
    add("pipes", ("p", "p", "p"))
    add("nulls", ("n", "n", "n"))
    add("files", ("r", "w", "w"))
    add("mixed+settings", ("p", "n", "w"), settings=True)
    for sname in ("out+err-one-file", "err-to-own-stdout", "crossed-out-err", "own-identity", "in+out+err-one-file"):
        add("shared:" + sname, shared=sname)
    add("closed12-err-file", (None, None, "w"), closed=[1, 2])
    add("closed12-out-err-files", (None, "w", "w"), closed=[1, 2])
    add("closed2-out-pipe-err-file", (None, "p", "w"), closed=[2])
    add("closed0-in-file-pipes", ("r", "p", "p"), closed=[0])
    add("closed012-nulls", ("n", "n", "n"), closed=[0, 1, 2])
    add("closed012-pipes", ("p", "p", "p"), closed=[0, 1, 2])
    add("closed012-inherit+settings", closed=[0, 1, 2], settings=True)
    add("closed012-files", ("r", "w", "w"), closed=[0, 1, 2])
    add("closed1-out-pipe", (None, "p", None), closed=[1])
    add("closed12-err-file-noprog", (None, None, "w"), closed=[1, 2], bad=True)
    add("files-noprog+settings", ("r", "w", "w"), settings=True, bad=True)
    add("closures-ok-yield", ("n", "p", None), closures=[0, "y", 0, "y"])
    add("closures-yield4+settings", settings=True, closures=["y", "y", "y", "y"])
    add("closures-fail-mid", (None, "p", "p"), closures=["y", 13, "y", 5], fails=True)
    add("closures-nocode-then-errno", closures=[0, -1, 22], fails=True)
    for i in range(40 if thorough else 12):
        add("random%d" % i, rand=i)
    if thorough:
        for closed in ([0], [1], [2], [0, 1], [0, 2], [1, 2], [0, 1, 2]):
            for io in (("p", "p", "p"), ("n", None, "w"), ("r", "w", None), (None, "n", "p")):
                add("closed%s-%s" % ("".join(map(str, closed)), "".join(x or "-" for x in io)), io, closed=closed, settings=len(m) % 2 == 0)
    return m


def make_mode(spec, sh, helper, cid):
    """The configuration of a mode; calling it again (other id / directory) gives a structurally identical one."""
    r = vlib.rng(SEED[0], "mode", spec["name"])
    if spec["rand"] is not None:
        c = gen_config(r, sh, helper, cid)
        c["trywait"] = c["holdstdin"] = False
    else:
        c = gen_config(r, sh, helper, cid, light=True)
        c["shared"] = None
        c["io"] = list(spec["io"])
        c["uid"] = c["gid"] = c["pg"] = c["cwd"] = None
        c["pre"], c["wait2"], c["trywait"], c["holdstdin"] = 0, False, False, False
        c["closures"] = list(spec["closures"]) if spec.get("closures") else []
        if c["bin"].startswith(b"./"):
            c["bin"] = os.path.join(sh.bdir, c["bin"][2:])
        if spec["settings"]:
            c["cwd"], c["uid"], c["gid"], c["pg"] = os.path.join(sh.bdir, b"cwd-a"), 0, 54321, 0
            if not c["closures"]:
                c["closures"] = [0, 0]
        if spec["shared"]:
            apply_shared_stdio(c, spec["shared"])
        c["closed"] = list(spec["closed"]) if spec["closed"] else None
        if spec["bad"]:
            c["kind"], c["helper"] = "real", False
            c["bin"] = os.path.join(sh.bdir, b"does-not-exist")
        if spec.get("fails"):
            c["kind"] = "real"
    c["payload"] = b"mode payload " + spec["name"].encode()
    c["mode"] = spec["name"]
    c["note"] = "mode " + spec["name"]
    return c


def discover_cells(co, cid, P):
    """From an un-injected run: every system call the caller makes inside Command::spawn and every call the forked child
    makes up to and including the one that execs, as dict(side, nr, occ, scope, k, name, after_fork) in program order, up to
    the first call that fails by itself (what follows would be a double fault).  The process-creating call and the exec are
    recognised by their effect in the tracer's log (F event with the new pid / E event), not by their number."""
    ent = [e.seq for e in co.pev if e.k == "M" and e.kind == 3 and e.a[0] == K_SPAWN_ENTER and e.a[1] == cid]
    ret = [e.seq for e in co.pev if e.k == "M" and e.kind == 3 and e.a[0] == K_RETURNED and e.a[1] == cid]
    if not ent or not ret:
        return None
    enter, rets = ent[0], ret[0]
    dis = [e.seq for e in co.pev if e.k == "M" and e.kind == 7 and e.seq > rets]
    disarm = dis[0] if dis else rets
    kids = sorted((ch["fork_seq"], pid) for pid, ch in co.children.items() if enter < ch["fork_seq"] < rets and not ch.get("grand"))
    fork_seq, Q = kids[0] if kids else (None, None)
    par = [e for e in co.pev if e.k == "S" and enter < e.seq < rets]
    par_all = [e for e in co.pev if e.k == "S" and enter < e.seq < disarm]
    creator = None
    if fork_seq is not None:
        # the call during which the F event was reported: the caller's first call completing after it, returning the new pid
        for e in par:
            if e.seq > fork_seq:
                if e.ret == Q:
                    creator = e
                break
    pre = [e for e in par if fork_seq is None or e.seq < fork_seq or e is creator]
    post = [e for e in par if fork_seq is not None and e.seq > fork_seq and e is not creator]
    child = []
    if Q is not None:
        ch = co.children[Q]
        for e in ch["ev"]:
            if e.k != "S":
                continue
            child.append(e)
            if ch["exec_seq"] is not None and e.seq > ch["exec_seq"]:
                break           # first call completing after the E event: the exec itself
    # a pre-exec closure that fails by itself ends the child's sequence: what the child does after it is error reporting
    if Q is not None:
        bad_cl = [e.seq for e in co.children[Q]["ev"] if e.k == "M" and e.kind == 3 and e.a[0] == K_PREEXEC and e.a[3] != 0]
        if bad_cl:
            child = [e for e in child if e.seq < bad_cl[0]]
            post = []
    cells = []
    occ = {}
    for side, evs, after in (("parent", pre, False), ("child", child, True), ("parent", post, True)):
        for e in evs:
            if e.nr in NEVER_REFUSED:
                continue
            if e.ret < 0 and e.ret != -ERRNO["EINTR"]:
                return cells        # the mode fails here by itself
            k = occ.get((side, e.nr), 0)
            occ[(side, e.nr)] = k + 1
            name = "fork" if e is creator else step_name(side, e.nr)
            if side == "parent":
                cells.append(dict(side=side, nr=e.nr, occ=k, scope=0, k=k, name=name, after_fork=after))
            else:
                p_pre = sum(1 for x in par_all if x.nr == e.nr and x.seq < fork_seq)
                p_post = sum(1 for x in par_all if x.nr == e.nr and x.seq > fork_seq)
                if p_post == 0:
                    # nobody else issues this call until DISARM: scope "all"
                    cells.append(dict(side=side, nr=e.nr, occ=k, scope=3, k=p_pre + k, name=name, after_fork=True))
                else:
                    cells.append(dict(side=side, nr=e.nr, occ=k, scope=2, k=k, name=name, after_fork=True))
    return cells


def gen_chains(r, sh, helper, next_id, n):
    """One Command value spawned 2-3 times, with and without further builder calls in between."""
    out = []
    for _ in range(n):
        c = gen_config(r, sh, helper, next_id(), light=r.random() < 0.5)
        if c["bin"].startswith(b"./"):
            c["bin"] = os.path.join(sh.bdir, c["bin"][2:])
        c["shared"] = None
        c["io"] = [r.choice([None, "n", "p"]), r.choice(["n", "p"]), r.choice(["n", "p"])]   # nothing handed over, no caller sinks
        c["holdstdin"] = c["io"][0] == "p" and not c["trywait"] and r.random() < 0.4
        c["dump_id"] = c["id"]
        c["note"] = "command re-used"
        c["followers"] = []
        prev = c
        for k in range(r.choice([1, 2])):
            ea = [rand_token(r) for _ in range(r.choice([0, 0, 1, 2, 5]))]
            ee = rand_env(r, r.choice([0, 0, 1, 3]))
            ncwd = r.choice([None, None, None, os.path.join(sh.bdir, b"cwd-a"), b"/"])
            f = follow(prev, next_id(), ea, ee, ncwd, c)
            f["note"] = "command re-used, spawn %d (+%d args, +%d env)" % (k + 2, len(ea), len(ee))
            c["followers"].append(f)
            prev = f
        out.append(c)
        out += c["followers"]
    return out


def gen_relbin(r, sh, helper, next_id, reps):
    """A RELATIVE program path together with cwd(dir): the child chdir()s before it execs, so the path names the file
    inside `dir`.  The file exists only there ("./x", "sub/x", "../dir/x"), or (decoy) a file of the same relative name
    also exists in the caller's own working directory and must not be the one that runs (identity: /proc/self/exe and the
    place of the dump).  With no other setting and with random other settings."""
    out = []
    d = sh.bdir
    for rep_i in range(reps):
        for cwd in (os.path.join(d, b"cwd-a"), os.path.join(d, b"cwd b\xff\xfe"), b"cwd-a", b"./cwd-a/"):
            for form, decoy in (("./", False), ("sub/", False), ("../", False), ("./", True), ("sub/", True)):
                plain = rep_i == 0 and form != "../"
                c = gen_config(r, sh, helper, next_id(), light=plain or r.random() < 0.5)
                name = b"h.%d.%d" % (c["id"], c["code"])
                os.unlink(os.path.join(d, name))
                if plain:
                    c["args"], c["env_mode"], c["envs"], c["uid"], c["gid"], c["pg"] = [], "default", [], None, None, None
                    c["io"], c["shared"], c["closures"], c["holdstdin"] = [None, "p", None], None, [], False
                cwd_abs = os.path.normpath(os.path.join(d, cwd))
                c["cwd"] = cwd
                c["bin"] = {"./": b"./" + name, "sub/": b"sub/" + name,
                            "../": b"../" + os.path.basename(cwd_abs) + b"/" + name}[form]
                c["decoy"] = decoy
                for b in [bin_abs(c, sh)] + ([bin_abs(c, sh, decoy=True)] if decoy else []):
                    os.makedirs(os.path.dirname(b), exist_ok=True)
                    os.chmod(os.path.dirname(b), 0o777)
                    os.link(helper, b)
                c["note"] = (c["note"] + " " if c["note"] else "") + "relative program %s inside cwd%s%s" % (
                    form, " (same name, other file, in the caller's cwd)" if decoy else " only", "" if plain else " +settings")
                out.append(c)
    return out


def gen_hold_stdin(r, sh, helper, next_id, reps):
    """MakePipe stdin, the program runs until EOF, and the caller leaves closing the pipe to wait()."""
    out = []
    for _ in range(reps):
        for so, se, plen in (("p", "p", 0), ("n", None, 300), (None, "p", 1), ("w", "n", 1500)):
            c = gen_config(r, sh, helper, next_id(), light=True)
            c["shared"] = None
            c["io"] = ["p", so, se]
            c["payload"] = bytes(r.randrange(256) for _ in range(plen))
            c["trywait"], c["holdstdin"] = False, True
            c["note"] = "wait() owns closing the stdin pipe"
            out.append(c)
    return out


def gen_closed_std(r, sh, helper, next_id, reps):
    """The caller itself runs with some of its descriptors 0-2 closed (daemon style): descriptors created inside
    spawn then land in 0..=2."""
    out = []
    shapes = [
        ([1, 2], [None, None, "w"], True), ([1, 2], [None, None, "w"], False),
        ([1, 2], [None, "w", "w"], True), ([1, 2], [None, "w", "w"], False),
        ([2], [None, None, "w"], True), ([2], [None, "p", "w"], False),
        ([0], ["r", None, None], True), ([0], ["r", "p", "p"], False),
        ([0, 1, 2], ["n", "n", "n"], False), ([0, 1, 2], ["p", "p", "p"], False), ([0, 1, 2], ["p", "p", "p"], True),
        ([0, 1, 2], [None, "w", None], False), ([0, 1, 2], ["r", "w", "w"], True), ([1], [None, "p", None], True),
    ]
    for _ in range(reps):
        for closed, io, bad_prog in shapes:
            c = gen_config(r, sh, helper, next_id(), light=True)
            c["shared"] = None
            c["uid"] = c["gid"] = None
            c["io"] = list(io)
            c["closed"] = list(closed)
            c["holdstdin"] = False
            c["note"] = "caller has %s closed%s" % (closed, ", program does not exist" if bad_prog else "")
            if bad_prog:
                c["kind"], c["helper"] = "real", False
                c["bin"] = os.path.join(sh.bdir, b"does-not-exist")
            out.append(c)
    return out


def gen_shared_stdio(r, sh, helper, next_id, reps):
    out = []
    for name in sorted(SHARED_STDIO):
        for _ in range(reps):
            c = gen_config(r, sh, helper, next_id(), light=True)
            c["payload"] = bytes(r.randrange(256) for _ in range(r.choice([0, 5, 300])))
            out.append(apply_shared_stdio(c, name))
    return out


# ------------------------------------------------------------------------------------------------
# running
# ------------------------------------------------------------------------------------------------
def probe_env_for(r):
    env = [b"PATH=/usr/bin:/bin", b"HOME=/root", b"C13_MARK=1", b"DUP=first", b"DUP=second", b"NOEQ",
           b"EMPTY=", b"BIN=\xff\xfe\x80", b"UTF=\xc3\xa5"]
    for i in range(r.randint(0, 30)):
        env.append(b"GEN%d=%s" % (i, rand_token(r, r.choice(["ascii", "space", "utf8", "nonutf8", "eq"]))))
    r.shuffle(env)
    return env


def _syscall_of(pid):
    try:
        with open("/proc/%d/syscall" % pid) as f:
            return f.read().split()
    except OSError:
        return None


def _pipe_holders(ino):
    """Every (pid, fd, access mode) on this system that has pipe `ino` open."""
    want = "pipe:[%d]" % ino
    res = []
    for pid in os.listdir("/proc"):
        if not pid.isdigit():
            continue
        try:
            fds = os.listdir("/proc/%s/fd" % pid)
        except OSError:
            continue
        for fd in fds:
            try:
                if os.readlink("/proc/%s/fd/%s" % (pid, fd)) != want:
                    continue
                acc = None
                with open("/proc/%s/fdinfo/%s" % (pid, fd)) as f:
                    for line in f:
                        if line.startswith("flags:"):
                            acc = int(line.split()[1], 8) & 3
                res.append((int(pid), int(fd), acc))
            except (OSError, ValueError):
                continue
    return res


def stdin_deadlock_certificate(P, Q):
    """Logical evidence that caller P can never get Q's status: P is parked in wait4(Q), Q is parked in read(0), Q's
    descriptor 0 is the read end of a pipe, and every write end of that pipe on the whole system belongs to P."""
    sp, sq = _syscall_of(P), _syscall_of(Q)
    cert = dict(caller=P, child=Q, caller_syscall=" ".join(sp or [])[:80], child_syscall=" ".join(sq or [])[:80], complete=False)
    try:
        if not (sp and sp[0] == "61" and int(sp[1], 16) & 0xffffffff == Q):
            cert["why"] = "caller not parked in wait4(child)"
            return cert
        if not (sq and sq[0] == "0" and int(sq[1], 16) == 0):
            cert["why"] = "child not parked in read(0)"
            return cert
        link = os.readlink("/proc/%d/fd/0" % Q)
        cert["child_fd0"] = link
        if not link.startswith("pipe:["):
            cert["why"] = "child's descriptor 0 is not a pipe"
            return cert
        ino = int(link[6:-1])
        holders = _pipe_holders(ino)
        cert["pipe_holders"] = holders
        writers = [h for h in holders if h[2] in (1, 2)]
        readers = [h for h in holders if h[2] == 0]
        if (Q, 0, 0) not in readers:
            cert["why"] = "child's descriptor 0 is not the read end"
        elif not writers:
            cert["why"] = "no write end left (EOF is on its way)"
        elif any(h[0] != P for h in writers):
            cert["why"] = "a write end is held outside the caller"
        else:
            # still the same picture after looking: both remain parked
            sp2, sq2 = _syscall_of(P), _syscall_of(Q)
            if sp2 and sq2 and sp2[:2] == sp[:2] and sq2[:2] == sq[:2]:
                cert["complete"] = True
            else:
                cert["why"] = "state changed while looking"
    except (OSError, ValueError, IndexError) as ex:
        cert["why"] = "lookup failed: %s" % ex
    return cert


def run_shard(sh, sysmon, timeout_s):
    casefile = os.path.join(sh.dir, "cases")
    with open(casefile, "w") as f:
        for c in sh.cases:
            if c.get("head") is None:
                f.write(case_line(c) + "\n")
    spec = os.path.join(sh.dir, "spec")
    exe = sh.flavour["exe"]
    syslog.write_spec(spec, exe, [os.fsencode(exe), os.fsencode(casefile)], sh.probe_env)
    log = os.path.join(sh.dir, "log")
    cmd = syslog.sysmon_cmd(log, [exe, casefile], timeout_s=timeout_s, idle_ms=300, scope_markers=False,
                            spec=spec, sysmon=sysmon)
    t0 = time.time()
    sh.certs = {}
    sh.log = log
    outp, errp = os.path.join(sh.dir, "probe.stdout"), os.path.join(sh.dir, "probe.stderr")
    with open(os.path.join(sh.dir, "stdin.empty"), "rb") as fin, open(outp, "wb") as fo, open(errp, "wb") as fe:
        p = subprocess.Popen(cmd, cwd=sh.dir, stdin=fin, stdout=fo, stderr=fe)
        pos = 0
        tail = b""
        seen = {}        # (P, Q) -> number of idle samples showing the pair parked
        sh.timed_out = False
        while True:
            try:
                p.wait(timeout=0.2)
                break
            except subprocess.TimeoutExpired:
                pass
            if time.time() - t0 > timeout_s + 30:
                p.kill()
                p.wait()
                sh.timed_out = True
                break
            # idle samples ("T" lines) are flushed by sysmon as soon as they are taken
            try:
                with open(log, "rb") as lf:
                    lf.seek(pos)
                    data = lf.read()
            except OSError:
                continue
            if not data:
                continue
            pos += len(data)
            lines = (tail + data).split(b"\n")
            tail = lines.pop()
            burst = {}
            for ln in lines:
                if ln.startswith(b"T "):
                    q = ln.decode("ascii", "replace").split(" ")
                    if len(q) >= 5:
                        try:
                            burst[int(q[2])] = q[4:]
                        except ValueError:
                            pass
            for P, sc in burst.items():
                try:
                    if sc[0] != "61":
                        continue
                    Q = int(sc[1], 16) & 0xffffffff
                except (ValueError, IndexError):
                    continue
                sq = burst.get(Q)
                if not sq or sq[0] != "0" or Q in sh.certs:
                    continue
                seen[(P, Q)] = seen.get((P, Q), 0) + 1
                cert = stdin_deadlock_certificate(P, Q)
                if cert["complete"] or seen[(P, Q)] >= 2:
                    # contain the hang so that the rest of the shard runs: the parked child is killed
                    sh.certs[Q] = cert
                    try:
                        os.kill(Q, 9)
                    except OSError:
                        pass
    sh.rc = p.returncode
    if sh.timed_out:
        sh.rc = None
    with open(outp, "rb") as f:
        sh.out = f.read()
    with open(errp, "rb") as f:
        sh.err = f.read()
    sh.wall = time.time() - t0
    return sh


# ------------------------------------------------------------------------------------------------
# log digestion
# ------------------------------------------------------------------------------------------------
class CaseObs:
    def __init__(self, cid):
        self.cid = cid
        self.begin = None
        self.end = None
        self.pev = []          # events of the caller inside the window
        self.children = {}     # pid -> dict(ev=[], exec_seq=None, exit=None, fork_seq=..)
        self.order = []        # all events in log order (for excerpts)


def fmt_ev(e):
    if e.k == "S":
        return "S %d pid=%d %s(%s) = %d%s" % (e.seq, e.tgid, syslog.NAME.get(e.nr, e.nr),
                                              ",".join("%x" % a for a in e.args[:3]), e.ret, " [injected]" if e.inj else "")
    if e.k == "s":
        return "s %d pid=%d %s(...)" % (e.seq, e.tgid, syslog.NAME.get(e.nr, e.nr))
    if e.k == "M":
        return "M %d pid=%d kind=%d %s" % (e.seq, e.tgid, e.kind, e.a)
    if e.k == "F":
        return "F %d pid=%d -> new pid %d (%s)" % (e.seq, e.tgid, e.new, e.what)
    if e.k == "E":
        return "E %d pid=%d exec" % (e.seq, e.tgid)
    if e.k == "X":
        return "X %d pid=%d wait-status=%d" % (e.seq, e.tgid, e.status)
    if e.k == "B":
        return "B %d pid=%d tag=%d %d bytes" % (e.seq, e.tgid, e.tag, len(e.data))
    if e.k == "G":
        return "G %d pid=%d signal %d" % (e.seq, e.tgid, e.sig)
    return "%s %d" % (e.k, e.seq)


def digest(evs):
    """-> (base dict, {cid: CaseObs}, root pid, root exit status or None, notes)"""
    base = dict(stdio={}, fds=set(), pid=None, pgid=None, uid=None, gid=None, parse_err=[])
    cases = {}
    root = None
    for e in evs:
        if e.k == "M" and e.kind == 3 and e.a[0] == K_BASE_PROC:
            root = e.tgid
            base["pid"], base["pgid"], base["uid"], base["gid"] = e.tgid, e.a[2], e.a[3], e.a[4]
            break
    if root is None:
        return base, cases, None, None
    cur = None
    owner = {}      # pid -> CaseObs of the fork that created it
    pending = {}    # pid -> events logged for a process whose fork event has not been seen yet
    root_exit = None
    for e in evs:
        tg = getattr(e, "tgid", None)
        if e.k == "X" and tg == root and e.tid == root:
            root_exit = e.status
        if tg == root:
            if e.k == "M":
                if e.kind == 1 and e.a[0] == 13:
                    cur = CaseObs(e.a[1])
                    cur.begin = e.seq
                    cases[cur.cid] = cur
                elif e.kind == 3 and e.a[0] == K_BASE_STDIO:
                    base["stdio"][e.a[1]] = (e.a[2], e.a[3])
                elif e.kind == 3 and e.a[0] == K_BASE_FD:
                    base["fds"].add(e.a[1])
                elif e.kind == 3 and e.a[0] == K_PARSE_ERR:
                    base["parse_err"].append(e.a[1:])
                elif e.kind == 3 and e.a[0] == K_RAWFD:
                    base.setdefault("rawfd", {})[(e.a[1], e.a[2])] = (e.a[3], e.a[4])
            if cur is not None:
                cur.pev.append(e)
                cur.order.append(e)
                if e.k == "F":
                    ch = dict(ev=[], exec_seq=None, exit=None, fork_seq=e.seq, sig=[])
                    cur.children[e.new] = ch
                    owner[e.new] = cur
                    # the tracer may see the first stops of the new process before the parent's fork event:
                    # what it logged for that pid until now belongs to this child
                    for pe in pending.pop(e.new, []):
                        ch["ev"].append(pe)
                        cur.order.append(pe)
                        if pe.k == "E" and ch["exec_seq"] is None:
                            ch["exec_seq"] = pe.seq
                        elif pe.k == "X" and pe.tid == e.new:
                            ch["exit"] = pe.status
                            ch["exit_seq"] = pe.seq
                            del owner[e.new]
                    ch["early"] = bool(ch["ev"])
                if e.k == "M" and e.kind == 2 and e.a[0] == 13:
                    cur.end = e.seq
                    cur = None
        elif tg in owner:
            co = owner[tg]
            ch = co.children[tg]
            ch["ev"].append(e)
            co.order.append(e)
            if e.k == "E" and ch["exec_seq"] is None:
                ch["exec_seq"] = e.seq
            elif e.k == "X" and e.tid == tg:
                ch["exit"] = e.status
                ch["exit_seq"] = e.seq
                del owner[tg]
            elif e.k == "F":
                # a grandchild: would be a process nobody asked for; keep it attached to the same case
                co.children.setdefault(e.new, dict(ev=[], exec_seq=None, exit=None, fork_seq=e.seq, sig=[], grand=True))
                owner[e.new] = co
        elif tg is not None and cur is not None and e.k in ("N", "S", "s", "M", "E", "X", "G"):
            if e.k == "N":
                pending[tg] = [e]
            elif tg in pending:
                pending[tg].append(e)
    return base, cases, root, root_exit


def parse_dump(path):
    d = dict(args=[], envs=[], fds={}, done=False, raw=None)
    try:
        with open(path, "rb") as f:
            txt = f.read().decode("ascii", "replace")
    except OSError:
        return None
    d["raw"] = txt

    def unhex(s):
        return b"" if s == "-" else bytes.fromhex(s)
    for line in txt.splitlines():
        p = line.split(" ")
        try:
            if p[0] == "exe":
                d["exe"] = unhex(p[1])
            elif p[0] == "argc":
                d["argc"] = int(p[1])
            elif p[0] == "arg":
                d["args"].append(unhex(p[1]))
            elif p[0] == "envc":
                d["envc"] = int(p[1])
            elif p[0] == "env":
                d["envs"].append(unhex(p[1]))
            elif p[0] == "cwd":
                d["cwd"] = unhex(p[1]) if p[1] != "!" else None
            elif p[0] == "ids":
                d["ids"] = [int(x) for x in p[1:7]]
            elif p[0] == "proc":
                d["pid"], d["ppid"], d["pgid"], d["sid"] = [int(x) for x in p[1:5]]
            elif p[0] == "fd":
                if p[2] == "?":
                    d["fds"][int(p[1])] = None
                else:
                    d["fds"][int(p[1])] = dict(dev=int(p[2]), ino=int(p[3]), mode=int(p[4]), rdev=int(p[5]),
                                               fl=int(p[6]), fdfl=int(p[7]))
            elif p[0] == "in":
                d["in_ret"], d["in_errno"], d["in_data"] = int(p[1]), int(p[2]), unhex(p[3])
            elif p[0] in ("out", "err"):
                d[p[0]] = (int(p[1]), int(p[2]), int(p[3]))
            elif p[0] == "done":
                d["done"] = True
        except (ValueError, IndexError):
            d["done"] = False
    return d


# ------------------------------------------------------------------------------------------------
# the oracle
# ------------------------------------------------------------------------------------------------
class Judge:
    def __init__(self, ck, sh, base, root, devnull):
        self.ck = ck
        self.sh = sh
        self.base = base
        self.root = root
        self.devnull = devnull
        self.fl = sh.flavour["name"]
        self.start = sh.flavour["start"]
        self.out_lines = sh.out.split(b"\n")
        self.err_lines = sh.err.split(b"\n")

    def viol(self, sig, c, co, what, **extra):
        det = dict(flavour=self.fl, what=what, case=case_line(c), case_kind=c["kind"], note=c["note"],
                   replay_case=ser_case(c, self.sh), probe_env=[hx(e) for e in self.sh.probe_env],
                   log=[fmt_ev(e) for e in sorted(co.order, key=lambda e: e.seq) if e.k != "s"][:120] if co else [])
        det.update(extra)
        self.ck.violation(sig, det)
        self.ck.count("violating_observations")

    def judge(self, c, co):
        ck = self.ck
        cid = c["id"]
        P = self.root
        # ---- who passed the "spawn returned" marker ------------------------------------------------
        returned = [e for e in co.order if e.k == "M" and e.kind == 3 and e.a[0] == K_RETURNED and e.a[1] == cid]
        by_caller = [e for e in returned if e.tgid == P]
        by_other = [e for e in returned if e.tgid != P]
        if len(by_caller) != 1:
            if len(by_caller) == 0:
                return "incomplete"
            self.viol("C13/spawn/returned-twice-in-caller", c, co, "the caller passed the returned marker %d times" % len(by_caller))
            return "judged"
        ret = by_caller[0]
        ret_seq = ret.seq
        kind, code = ret.a[2], ret.a[3]     # kind: 1 ok, 0 os error, -1 uncategorized, -2 timeout

        # ---- steps that failed, from the system-call stream ----------------------------------------
        fails = []   # (seq, side, step, detail, errno, injected)
        enter_seq = min([e.seq for e in co.pev if e.k == "M" and e.kind == 3 and e.a[0] == K_SPAWN_ENTER and e.a[1] == cid] or [co.begin or 0])
        for e in co.pev:
            if e.k == "S" and enter_seq < e.seq < ret_seq and e.ret < 0 and e.nr not in NEVER_REFUSED:
                fails.append((e.seq, "parent", step_name("parent", e.nr), "", -e.ret, e.inj))
        kids = [(pid, ch) for pid, ch in co.children.items() if ch["fork_seq"] < ret_seq]
        if any(ch.get("early") for _, ch in kids):
            ck.count("child_seen_by_tracer_before_fork_event")
        for pid, ch in kids:
            ndup = 0
            for e in ch["ev"]:
                if ch["exec_seq"] is not None and e.seq > ch["exec_seq"]:
                    break
                if e.k == "S" and e.nr not in NEVER_REFUSED:
                    step = step_name("child", e.nr)
                    det = ""
                    if step == "dup2":
                        tgt = syslog.s64(e.args[1])
                        det = STREAM[tgt] if 0 <= tgt < 3 else "fd%d" % tgt
                        ndup += 1
                    if e.ret < 0:
                        fails.append((e.seq, "child", step, det, -e.ret, e.inj))
                if e.k == "M" and e.kind == 3 and e.a[0] == K_PREEXEC and e.a[1] == cid and e.a[3] != 0:
                    fails.append((e.seq, "child", "pre-exec", "closure%d" % e.a[2], e.a[3], False))
        fails.sort()
        ncl = closure_list(c)
        # injected fault that was never reached?
        if c["fault"]:
            hit = any(e.k == "S" and e.inj for e in co.order)
            if not hit:
                ck.count("injection_not_reached")
                if len(self.ck.extra.setdefault("injection_not_reached_cases", [])) < 8:
                    self.ck.extra["injection_not_reached_cases"].append(dict(flavour=self.fl, note=c["note"], case=case_line(c)[:400]))
                return "inject-miss"

        # ---- a forked child that came back out of spawn() -------------------------------------------
        if by_other:
            for e in by_other:
                pid = e.tgid
                cf = [f for f in fails if f[1] == "child" and f[0] < e.seq]
                step = "unknown"
                if cf:
                    f = cf[-1]
                    step = f[2] + ("-" + f[3] if f[3] else "")
                self.viol("C13/child-returns-into-caller/%s" % step, c, co,
                          "pid %d (forked child of caller %d) passed the 'spawn returned' marker: after %s failed with errno %s the "
                          "child returned from spawn() into the caller's code with result kind=%d code=%d; the caller itself got kind=%d"
                          % (pid, P, step, cf[-1][4] if cf else "?", e.a[2], e.a[3], kind),
                          caller_result=dict(kind=kind, code=code))
                ck.note_distinct("%s/defect/child-returned/%s" % (self.fl, step))
            return "judged"
        # any other marker issued by a forked child outside the pre-exec closures = child running probe code
        for pid, ch in co.children.items():
            for e in ch["ev"]:
                if e.k == "M" and not (e.kind == 3 and e.a[0] == K_PREEXEC) and (ch["exec_seq"] is None or e.seq < ch["exec_seq"]):
                    self.viol("C13/child-runs-caller-code", c, co, "forked child %d issued probe marker kind=%d %s" % (pid, e.kind, e.a))
                    return "judged"
            if ch.get("grand"):
                self.viol("C13/spawn/unexpected-extra-process", c, co, "a process forked by the forked child appeared (pid %d)" % pid)
                return "judged"
        if len(kids) > 1:
            self.viol("C13/spawn/forked-more-than-once", c, co, "caller forked %d processes inside one spawn" % len(kids))
            return "judged"

        first = None
        soft = None
        for f in fails:
            # retries that the code is allowed (not required) to make: EINTR on the sync-pipe read, EBUSY on dup
            after_fork = bool(kids) and f[0] > min(ch["fork_seq"] for _, ch in kids)
            if (f[1] == "parent" and after_fork and f[4] == ERRNO["EINTR"]) or (f[2] == "dup2" and f[4] == ERRNO["EBUSY"]):
                soft = soft or f
                continue
            first = f
            break
        okc = "%s/%s" % (self.fl, c["kind"])
        # ---- pre-exec closures: registration order, each at most once, none after the first failed child-side step ----
        for pid, ch in kids:
            tr = [e for e in ch["ev"] if e.k == "M" and e.kind == 3 and e.a[0] == K_PREEXEC and e.a[1] == cid
                  and (ch["exec_seq"] is None or e.seq < ch["exec_seq"])]
            cfail = [f for f in fails if f[1] == "child" and f[2] != "execve" and not (f[2] == "dup2" and f[4] == ERRNO["EBUSY"])]
            if cfail:
                late = [e.a[2] for e in tr if e.seq > cfail[0][0]]
                if late:
                    f0 = cfail[0]
                    self.viol("C13/pre-exec/closure-ran-after-earlier-failure", c, co,
                              "closure(s) %r ran in the forked child after %s%s had already failed (errno %d): the first failing step "
                              "must end the sequence (closures registered: %r)" % (late, f0[2], " " + f0[3] if f0[3] else "", f0[4], ncl))
                    ck.note_distinct("%s/defect/closure-ran-after-failure" % self.fl)
                    return "judged"
            if [e.a[2] for e in tr] != list(range(len(tr))) or len(tr) > len(ncl):
                self.viol("C13/child/pre-exec-closures", c, co, "closures ran as %r, registered %r: not each at most once in registration order"
                          % ([e.a[2] for e in tr], ncl))
                return "judged"

        # ---- the caller was told Err ------------------------------------------------------------------
        if kind != 1:
            for pid, ch in kids:
                cert = getattr(self.sh, "certs", {}).get(pid)
                if cert is not None and cert["complete"] and first is not None:
                    lab = "exec-error" if first[2] == "execve" else first[2]
                    self.viol("C13/%s/error-path-deadlock-stdin-pipe-held" % lab, c, co,
                              "after %s failed with errno %d the caller never gets its error: it is parked in wait4(%d) for the program "
                              "it started, that program is parked in read(0), and every write end of its stdin pipe %s is held by the "
                              "caller (the error path waits for the child before dropping the Child's pipes); the child was killed to "
                              "contain the hang" % (first[2], first[4], pid, cert.get("child_fd0")), certificate=cert)
                    return "judged"
            # nobody may be left running the caller's code: every forked child has exec'd or is gone
            for pid, ch in kids:
                if ch["exec_seq"] is None and (ch["exit"] is None or ch.get("exit_seq", 1 << 62) > ret_seq):
                    # still there when the caller got its error: must at least never run probe code (checked above)
                    ck.count("child_alive_at_error_return")
            if first is None and soft is not None and soft[1] == "parent":
                # an interrupted read is not a failed step: the documented retry is required
                if kind == 0 and code == ERRNO["EINTR"]:
                    self.viol("C13/%s/eintr-not-retried" % soft[2], c, co,
                              "the caller's wait on the CLOEXEC sync pipe was interrupted (EINTR) and spawn returned Err(EINTR) although no step of "
                              "the spawn failed%s" % ("; the child exec'd the program" if any(ch["exec_seq"] for _, ch in kids) else ""))
                else:
                    self.viol("C13/%s/eintr-not-retried" % soft[2], c, co,
                              "the caller's wait on the CLOEXEC sync pipe was interrupted (EINTR) and spawn returned an error (kind=%d code=%d) although "
                              "no step of the spawn failed" % (kind, code))
                ck.note_distinct("%s/defect/eintr-not-retried" % self.fl)
                return "judged"
            if first is None and soft is not None:
                first = soft
            if first is None:
                self.viol("C13/spawn/error-without-failed-step", c, co,
                          "spawn returned Err(kind=%d code=%d) although no system call of the spawn sequence failed" % (kind, code))
                return "judged"
            step = first[2]
            stepname = step + ("-" + first[3] if first[3] else "")
            e_exp = first[4]
            label = "exec-error" if step == "execve" else step
            if c["kind"] == "ok" and not first[5]:
                # a configuration built to succeed (existing program/cwd, root, fresh descriptors) was refused by the kernel
                if e_exp in RESOURCE_ERRNOS:
                    ck.note_inconclusive("%s case %d: %s failed with %s (resource shortage), not judged"
                                         % (self.fl, cid, stepname, ENAME.get(e_exp, e_exp)))
                    return "incomplete"
                self.viol("C13/spawn/valid-configuration-failed/%s-%s" % (stepname, ENAME.get(e_exp, e_exp)), c, co,
                          "%s failed with errno %d (%s) for a configuration whose every step is valid: what the library handed "
                          "to the kernel is not what was configured" % (stepname, e_exp, ENAME.get(e_exp, "?")), got=dict(kind=kind, code=code))
                return "judged"
            if step == "pre-exec" and e_exp == -1:
                if kind == -1:
                    ck.note_distinct("%s/err/child/pre-exec/no-code" % okc)
                    ck.count("errors_reported_without_code_for_codeless_closure")
                    self.sample(c, "Err(no code) from pre-exec closure")
                    return "judged"
                self.viol("C13/pre-exec/wrong-closure-errno-reported", c, co,
                          "%s failed with an error that carries no OS code, the caller got kind=%d code=%d (closures %r)"
                          % (stepname, kind, code, ncl), got=dict(kind=kind, code=code))
                return "judged"
            if step == "pre-exec" and not (kind == 0 and code == e_exp):
                self.viol("C13/pre-exec/wrong-closure-errno-reported", c, co,
                          "%s was the first failing step (errno %d) but the caller's error is kind=%d code=%d (closures %r)"
                          % (stepname, e_exp, kind, code, ncl), expected=e_exp, got=dict(kind=kind, code=code))
                return "judged"
            if kind == 0 and code == e_exp:
                ck.note_distinct("%s/err/%s/%s/%s" % (okc, first[1], stepname, ENAME.get(e_exp, e_exp)))
                ck.count("errors_reported_with_exact_errno")
                self.sample(c, "Err(%s) from %s" % (ENAME.get(e_exp, e_exp), stepname))
                return "judged"
            if kind == 0 and code == -e_exp:
                self.viol("C13/%s/errno-sign" % label, c, co,
                          "%s failed with errno %d (%s) but the caller's error carries code %d (sign not flipped)"
                          % (stepname, e_exp, ENAME.get(e_exp, "?"), code), expected=e_exp, got=code)
                ck.note_distinct("%s/defect/errno-sign/%s" % (self.fl, step))
                return "judged"
            if kind == 0:
                # a later step's errno instead of the first one? (still wrong: the first failing step decides)
                self.viol("C13/%s/wrong-errno" % label, c, co,
                          "%s failed with errno %d but the caller's error carries code %d" % (stepname, e_exp, code),
                          expected=e_exp, got=code)
                return "judged"
            self.viol("C13/%s/errno-lost" % label, c, co,
                      "%s failed with errno %d (%s) but the caller got an error without an OS code (kind=%d)"
                      % (stepname, e_exp, ENAME.get(e_exp, "?"), kind), expected=e_exp)
            ck.note_distinct("%s/defect/errno-lost/%s" % (self.fl, step))
            return "judged"

        # ---- the caller was told Ok ------------------------------------------------------------------
        if first is not None:
            step = first[2]
            stepname = step + ("-" + first[3] if first[3] else "")
            sig = "C13/%s/ok-despite-failure" % ("exec-error" if step == "execve" else step)
            extra = ""
            for pid, ch in kids:
                for e in ch["ev"]:
                    if e.k == "S" and e.nr == NR["write"] and e.seq > first[0] and e.args[2] == 8 and syslog.s64(e.args[0]) <= 2:
                        # the 8-byte error record went into descriptor 0-2: the child's end of the sync pipe was inside the
                        # standard range and got replaced by the stdio redirection
                        sig += "/sync-pipe-in-stdio-range"
                        extra = "; the child wrote its error record to descriptor %d, which the stdio set-up had redirected" % e.args[0]
                        break
                if extra:
                    break
            self.viol(sig, c, co, "%s failed with errno %d but spawn returned Ok%s" % (stepname, first[4], extra))
            return "judged"
        if len(kids) != 1:
            self.viol("C13/spawn/ok-without-child", c, co, "spawn returned Ok but the caller forked %d processes" % len(kids))
            return "judged"
        Q, ch = kids[0]
        if ch["exec_seq"] is None:
            self.viol("C13/spawn/ok-without-exec", c, co, "spawn returned Ok but child %d never exec'd (exit status %s)" % (Q, ch["exit"]))
            return "judged"
        rep = {}
        pipes = {}
        pipe_data = {}
        for e in co.pev:
            if e.k == "M" and e.kind == 3 and e.a[1] == cid:
                if e.a[0] == K_PIPE:
                    pipes[e.a[2]] = (e.a[3], e.a[4])
                else:
                    rep.setdefault(e.a[0], []).append(e.a)
            elif e.k == "B" and e.tag in (1001, 1002):
                pipe_data[e.tag - 1000] = e.data
        bad = []   # (signature suffix, text)

        cert = getattr(self.sh, "certs", {}).get(Q)
        if cert is not None:
            if cert["complete"]:
                self.viol("C13/wait/deadlock-stdin-pipe-still-open", c, co,
                          "wait() can never report the child's status: caller %d is parked in wait4(%d), child %d is parked in read(0), "
                          "its descriptor 0 is the read end of %s and every write end of that pipe is held by the caller itself "
                          "(the Child's stdin pipe is still open while wait blocks); the child was killed to contain the hang"
                          % (cert["caller"], Q, Q, cert.get("child_fd0")), certificate=cert)
                ck.note_distinct("%s/defect/wait-deadlock-stdin" % self.fl)
                return "judged"
            ck.note_inconclusive("%s case %d: caller and child stayed parked (%s) but the certificate is incomplete: %s"
                                 % (self.fl, cid, cert.get("child_syscall"), cert.get("why")))
            return "incomplete"
        if not c["helper"]:
            return "judged"
        dump_path = self.dump_path(c)
        d = parse_dump(dump_path)
        if d is None and c.get("decoy"):
            # nothing was written next to the configured program: did the same-named file of the caller's cwd run?
            d = parse_dump(self.dump_path(c, decoy=True))
        if ch["exit"] is None:
            return "incomplete"
        if d is None or not d["done"]:
            self.ck.note_inconclusive("%s case %d: helper produced no complete dump (wait status %s)" % (self.fl, cid, ch["exit"]))
            return "incomplete"
        exp_argv = [c["bin"]] + c["args"]
        if d["args"] != exp_argv:
            bad.append(("child/argv-mismatch", "argv: expected %d entries %r..., helper saw %d entries %r..."
                        % (len(exp_argv), exp_argv[:4], len(d["args"]), d["args"][:4])))
        exe_exp = os.path.realpath(bin_abs(c, self.sh))
        if d.get("exe") != exe_exp:
            bad.append(("child/program-mismatch", "exe %r != %r" % (d.get("exe"), exe_exp)))
        # environment
        if c["env_mode"] == "provided":
            exp_env = list(c["envs"])
        elif self.start:
            exp_env = list(self.sh.probe_env)     # Environment::Inherit
        else:
            exp_env = []                          # Environment::None
        if d["envs"] != exp_env:
            if c["env_mode"] == "provided" and not self.start and d["envs"] == []:
                bad.append(("env/provided-ignored-without-start",
                            "Command::env(..) x%d configured, the child's environment block is empty" % len(exp_env)))
            else:
                bad.append(("child/env-mismatch", "environment: expected %d entries %r..., helper saw %d entries %r..."
                            % (len(exp_env), exp_env[:3], len(d["envs"]), d["envs"][:3])))
        # cwd
        cwd_exp = os.path.realpath(os.path.join(self.sh.bdir, c["cwd"])) if c["cwd"] is not None else os.path.realpath(self.sh.bdir)
        if d.get("cwd") != cwd_exp:
            bad.append(("child/cwd-mismatch", "cwd %r != %r" % (d.get("cwd"), cwd_exp)))
        # ids
        ids = d.get("ids") or [None] * 6
        u_exp = c["uid"] if c["uid"] is not None else self.base["uid"]
        g_exp = c["gid"] if c["gid"] is not None else self.base["gid"]
        if ids[0:3] != [u_exp] * 3:
            bad.append(("child/uid-mismatch", "uids %r != %r" % (ids[0:3], u_exp)))
        if ids[3:6] != [g_exp] * 3:
            bad.append(("child/gid-mismatch", "gids %r != %r" % (ids[3:6], g_exp)))
        if d.get("pid") != Q:
            bad.append(("child/pid-mismatch", "helper pid %r, forked pid %d" % (d.get("pid"), Q)))
        if d.get("ppid") != P:
            bad.append(("child/parent-mismatch", "helper ppid %r, caller %d" % (d.get("ppid"), P)))
        pg_exp = self.base["pgid"] if c["pg"] in (None, -1) else (Q if c["pg"] == 0 else c["pg"])
        if d.get("pgid") != pg_exp:
            bad.append(("child/pgid-mismatch", "pgid %r != %r" % (d.get("pgid"), pg_exp)))
        cp = rep.get(K_CHILD_PID)
        if not cp or cp[0][2] != Q:
            bad.append(("child/get-pid-mismatch", "Child::get_pid %r, forked pid %d" % (cp, Q)))
        # descriptors
        open_exp = {0, 1, 2} | set(self.base["fds"])
        extra = set(d["fds"]) - open_exp
        missing = {0, 1, 2} - set(d["fds"])
        if extra:
            bad.append(("child/unexpected-descriptor", "descriptors %s open in the child beyond 0-2 (%r)"
                        % (sorted(extra), {k: d["fds"][k] for k in sorted(extra)})))
        if missing:
            bad.append(("child/stdio-closed", "descriptors %s not open in the child" % sorted(missing)))
        payload_in = b""
        for s in range(3):
            m = c["io"][s]
            f = d["fds"].get(s)
            if f is None:
                continue
            mode = "inherit" if m in (None, "i") else "null" if m == "n" else "pipe" if m == "p" else "rawfd"
            if mode == "inherit" and s in (c.get("closed") or []):
                # the caller itself has this descriptor closed, so has the child at exec; the helper's runtime (Rust std)
                # re-opens /dev/null on closed standard descriptors before main: that is what the dump can show
                if not stat.S_ISCHR(f["mode"]) or f["rdev"] != self.devnull:
                    bad.append(("child/stdio-mismatch/%s-closed" % STREAM[s], "%s is closed in the caller and inherited, the child has "
                                "something else there (mode %o rdev %x ino %d)" % (STREAM[s], f["mode"], f["rdev"], f["ino"])))
                continue
            ident = (f["dev"], f["ino"])
            acc = f["fl"] & 3
            why = None
            if mode == "inherit":
                if ident != self.base["stdio"].get(s):
                    why = "identity %r != the caller's %r" % (ident, self.base["stdio"].get(s))
            elif mode == "null":
                if not stat.S_ISCHR(f["mode"]) or f["rdev"] != self.devnull:
                    why = "not /dev/null (mode %o rdev %x)" % (f["mode"], f["rdev"])
                elif (s == 0 and acc == os.O_WRONLY) or (s != 0 and acc == os.O_RDONLY):
                    why = "/dev/null opened with the wrong access mode %d" % acc
            elif mode == "pipe":
                if not stat.S_ISFIFO(f["mode"]):
                    why = "not a pipe (mode %o)" % f["mode"]
                elif pipes.get(s) != ident:
                    why = "pipe identity %r != the end the caller holds %r" % (ident, pipes.get(s))
                elif (s == 0 and acc != os.O_RDONLY) or (s != 0 and acc != os.O_WRONLY):
                    why = "wrong end of the pipe (access mode %d)" % acc
            else:
                want = self.base.get("rawfd", {}).get((cid, s))
                if want != ident:
                    why = "identity %r != the descriptor handed over %r" % (ident, want)
            if why:
                bad.append(("child/stdio-mismatch/%s-%s" % (STREAM[s], mode), "%s (%s): %s" % (STREAM[s], mode, why)))
            if s == 0 and (m == "p" or (isinstance(m, tuple) and m[0] in "rb")):
                payload_in = c["payload"]
        # data round trip
        if d.get("in_data") != payload_in or d.get("in_ret", -1) < 0:
            bad.append(("child/stdin-data", "helper read %r... (%d bytes, ret %s errno %s) from stdin, expected %d bytes"
                        % (d.get("in_data", b"")[:16], len(d.get("in_data", b"")), d.get("in_ret"), d.get("in_errno"), len(payload_in))))
        if c["io"][0] == "p":
            w = rep.get(K_STDIN_WRITE)
            if not w or w[0][2] != len(c["payload"]):
                bad.append(("child/stdin-pipe-write", "writing %d bytes into the child's stdin pipe: %r" % (len(c["payload"]), w)))
        seen = d.get("in_data", b"")
        # where each output stream is configured to end up: ("pipe", s) | ("file", path, prefix) | ("caller", n)
        def sink(s):
            m = c["io"][s]
            hops = 0
            while isinstance(m, tuple) and m[0] == "s" and hops < 3:
                m = c["io"][m[1]]
                hops += 1
            if m == "p":
                return ("pipe", s)
            if isinstance(m, tuple) and m[0] in "wb":
                return ("file", m[1])
            if isinstance(m, tuple) and m[0] == "x":
                return ("caller", m[1])
            if m in (None, "i"):
                return ("null",) if s in (c.get("closed") or []) else ("caller", s)
            return ("null",)
        file_expect = {}     # path -> expected content
        caller_expect = {1: [], 2: []}
        for s0 in range(3):
            m = c["io"][s0]
            if isinstance(m, tuple) and m[0] == "b":
                file_expect[m[1]] = c["payload"]      # read to its end by the helper before it writes
        for s, tag in ((1, b"O"), (2, b"E")):
            # the helper knows its case only from the name of its executable: the first spawn's id when a Command is re-used
            hid = c["head"]["id"] if c.get("head") is not None else cid
            msg = tag + b"%d:" % hid + (hx(seen).encode() if seen else b"-") + b"\n"
            w = d.get("out" if s == 1 else "err")
            if not w or w[0] != w[2]:
                bad.append(("child/%s-unwritable" % STREAM[s], "helper's write to %s: %r" % (STREAM[s], w)))
                continue
            sk = sink(s)
            if sk[0] == "pipe":
                if pipe_data.get(s) != msg:
                    bad.append(("child/pipe-roundtrip/%s" % STREAM[s], "caller read %r... from the %s pipe, helper wrote %r..."
                                % ((pipe_data.get(s) or b"")[:40], STREAM[s], msg[:40])))
            elif sk[0] == "file":
                file_expect[sk[1]] = file_expect.get(sk[1], b"") + msg
            elif sk[0] == "caller" and sk[1] in (1, 2):
                caller_expect[sk[1]].append((s, msg))
        for path, want in file_expect.items():
            try:
                with open(path, "rb") as fh:
                    got = fh.read()
            except OSError:
                got = None
            if got != want:
                bad.append(("child/rawfd-output", "file behind RawFd holds %r... (%s bytes), expected %r... (%d bytes)"
                            % ((got or b"")[:40], None if got is None else len(got), want[:40], len(want))))
        for n, msgs in caller_expect.items():
            lines = self.out_lines if n == 1 else self.err_lines
            for s, msg in msgs:
                if lines.count(msg[:-1]) != 1:
                    mode = "inherit" if c["io"][s] in (None, "i") else "rawfd"
                    bad.append(("child/%s-output/%s" % (mode, STREAM[s]), "the helper's %s line did not arrive exactly once on the caller's %s"
                                % (STREAM[s], STREAM[n])))
        # pre-exec closures: each once, in order, in the child, before exec
        pre = [e for e in ch["ev"] if e.k == "M" and e.kind == 3 and e.a[0] == K_PREEXEC and e.a[1] == cid]
        if [e.a[2] for e in pre] != list(range(len(ncl))) or any(e.seq > ch["exec_seq"] for e in pre):
            bad.append(("child/pre-exec-closures", "closures ran as %r, expected 0..%d once each in order before exec"
                        % ([e.a[2] for e in pre], len(ncl))))
        if any(e.k == "M" and e.kind == 3 and e.a[0] == K_PREEXEC for e in co.pev):
            bad.append(("child/pre-exec-in-caller", "a pre-exec closure ran in the caller"))
        # wait
        st = ch["exit"]
        if st & 0x7f != 0 or (st >> 8) != c["code"]:
            bad.append(("child/exit-code", "helper was meant to exit(%d), the tracer saw wait status %d" % (c["code"], st)))
        for k, name in ((K_WAITED, "wait"), (K_SECOND_WAIT, "second-wait")):
            if k == K_SECOND_WAIT and not c["wait2"]:
                continue
            w = rep.get(k)
            if not w:
                bad.append(("wait/missing", "%s not reported" % name))
                continue
            wk, wv = w[0][2], w[0][3]
            if k == K_WAITED and c["trywait"]:
                ck.count("try_wait_polls_answered_none", w[0][4])
                ck.count("try_wait_cases")
            if wk == -3:
                ck.note_inconclusive("%s case %d: try_wait kept answering None for 10 s" % (self.fl, cid))
                return "incomplete"
            if wk != 1:
                bad.append(("wait/error", "%s returned Err kind=%d code=%d for a child that exited with status %d" % (name, wk, wv, st)))
            elif wv == st:
                ck.count("wait_reports_raw_wait_status")
            elif wv == (st >> 8) and st & 0x7f == 0:
                ck.count("wait_reports_exit_code")
            else:
                bad.append(("wait/status-mismatch", "%s returned %d, the child's wait status was %d (exit code %d)" % (name, wv, st, st >> 8)))
        if bad:
            seen_sig = set()
            for sig, text in bad:
                if sig in seen_sig:
                    continue
                seen_sig.add(sig)
                self.viol("C13/" + sig, c, co, text, all_mismatches=[t for _, t in bad][:12])
                ck.note_distinct("%s/defect/%s" % (self.fl, sig))
            return "judged"
        # held on this case
        iok = "".join("-" if m is None else (m if isinstance(m, str) else (m[0] + str(m[1]) if m[0] in "sx" else m[0])) for m in c["io"])
        ck.note_distinct("%s/ok/stdio-%s" % (okc, iok))
        ck.note_distinct("%s/ok/env-%s-%s/args-%s" % (self.fl, c["env_mode"] if c["env_mode"] == "provided" else ("inherit" if self.start else "none"),
                                                      nargs_class(len(c["envs"])), nargs_class(len(c["args"]))))
        ck.note_distinct("%s/ok/cwd-%s/uid-%s/gid-%s/pg-%s/pre-%d" % (
            self.fl, "set" if c["cwd"] is not None else "unset", c["uid"], c["gid"], c["pg"], len(ncl)))
        ck.count("spawns_ok_verified")
        if c["cwd"] is not None and not c["bin"].startswith(b"/"):
            ck.count("spawns_ok_verified/relative-program-inside-cwd" + ("-decoy-in-callers-cwd" if c.get("decoy") else ""))
        self.sample(c, "Ok: helper dump, stdio identities, round trip and wait status match (exit code %d)" % c["code"])
        return "judged"

    def dump_path(self, c, decoy=False):
        b = bin_abs(c, self.sh, decoy)
        return os.path.realpath(b) + b".dump" + (b".%d" % c["dump_id"] if c.get("dump_id") is not None else b"")

    def sample(self, c, outcome):
        line = case_line(c)
        if len(line) > 600:
            line = line[:600] + "...(%d chars)" % len(line)
        key = "%s/%s/%s" % (self.fl, c["kind"], outcome.split(":")[0][:24])
        self.ck.sample(dict(flavour=self.fl, kind=c["kind"], note=c["note"], case=line, outcome=outcome), key=key)


# ------------------------------------------------------------------------------------------------
def build_all(thorough):
    sysmon = syslog.sysmon_bin()
    hd = vlib.cargo_build(HELPER, "dump_helper", bins=["dump_helper"])
    fl = []
    d = vlib.cargo_build(PROBE_STD, "spawn_probe-debug", bins=["spawn_probe"])
    fl.append(dict(name="std-nostart", exe=os.path.join(d, "spawn_probe"), start=False))
    d = vlib.build_nolibc(PROBE_NOLIBC, "spawn_probe_nolibc", "dynpie", False, bins=["spawn_probe_nolibc"])
    fl.append(dict(name="nolibc-start", exe=os.path.join(d, "spawn_probe_nolibc"), start=True))
    if thorough:
        d = vlib.cargo_build(PROBE_STD, "spawn_probe-release", bins=["spawn_probe"], release=True)
        fl.append(dict(name="std-nostart-release", exe=os.path.join(d, "spawn_probe"), start=False))
        d = vlib.build_nolibc(PROBE_NOLIBC, "spawn_probe_nolibc", "static", True, bins=["spawn_probe_nolibc"])
        fl.append(dict(name="nolibc-start-static-release", exe=os.path.join(d, "spawn_probe_nolibc"), start=True))
    return sysmon, os.path.join(hd, "dump_helper"), fl


def setup():
    build_all(True)


def run(ck, replay=None):
    quick = ck.tier == "quick"
    sysmon, helper_src, flavours = build_all(not quick)
    root = tempfile.mkdtemp(prefix="c13-", dir="/tmp")
    os.chmod(root, 0o755)
    try:
        return _run(ck, quick, sysmon, helper_src, flavours, root, replay)
    finally:
        shutil.rmtree(root, ignore_errors=True)


def _run(ck, quick, sysmon, helper_src, flavours, root, replay):
    helper = os.path.join(root, "dump_helper")
    shutil.copy(helper_src, helper)
    os.chmod(helper, 0o755)
    helper_b = os.fsencode(helper)
    devnull = os.stat("/dev/null").st_rdev
    counter = [0]
    SEED[0] = ck.seed

    def next_id():
        counter[0] += 1
        return counter[0]

    why = preflight(root, helper, helper_b)
    if why:
        ck.note_inconclusive("preflight: " + why)
        return "nothing judged: " + why
    shards = []
    if replay:
        with open(replay) as f:
            rp = json.load(f)
        det = rp.get("detail", {})
        fl = [f for f in flavours if f["name"] == det.get("flavour")] or flavours[:1]
        sh = Shard(root, fl[0], 0)
        sh.probe_env = [bytes.fromhex(e) for e in det.get("probe_env", [])]
        head = deser_case(det["replay_case"], sh, helper_b)
        materialize(head, sh)
        for f in head["followers"]:
            f["io"] = list(head["io"])
        sh.cases = [head] + head["followers"]
        shards.append(sh)
    else:
        per_ok = 40 if quick else 160
        for fl in flavours:
            heavy = fl["name"] in ("std-nostart", "nolibc-start")
            n_ok = (800 if quick else 8000) if heavy else 1200
            r = vlib.rng(ck.seed, "c13", fl["name"])
            # workload shards
            nsh = max(1, n_ok // per_ok)
            idx = 0
            for k in range(nsh):
                sh = Shard(root, fl, idx)
                idx += 1
                sh.probe_env = probe_env_for(r)
                for _ in range(per_ok):
                    c = gen_config(r, sh, helper_b, next_id())
                    sh.cases.append(c)
                shards.append(sh)
            # fault shards: real failures + injections (thorough: all positions x errnos, quick: all positions)
            sh = Shard(root, fl, idx)
            idx += 1
            sh.probe_env = probe_env_for(r)
            sh.cases += gen_real_failures(r, sh, helper_b, next_id, not quick)
            shards.append(sh)
            sh = Shard(root, fl, idx)
            idx += 1
            sh.probe_env = probe_env_for(r)
            sh.cases += gen_shared_stdio(r, sh, helper_b, next_id, 2 if quick else 6)
            shards.append(sh)
            for gen, reps in ((gen_chains, 24 if quick else 200), (gen_hold_stdin, 2 if quick else 10),
                              (gen_closed_std, 1 if quick else 4),
                              (gen_relbin, 1 if quick else 4)):
                sh = Shard(root, fl, idx)
                idx += 1
                sh.probe_env = probe_env_for(r)
                sh.cases += gen(r, sh, helper_b, next_id, reps)
                shards.append(sh)
            # discovery: every mode once, un-injected; phase 2 refuses each call these runs show
            specs = mode_specs(ck.seed, (not quick) and heavy)
            for i in range(0, len(specs), 30):
                sh = Shard(root, fl, idx)
                idx += 1
                sh.probe_env = probe_env_for(r)
                sh.discovery = specs[i:i + 30]
                sh.cases += [make_mode(sp, sh, helper_b, next_id()) for sp in sh.discovery]
                shards.append(sh)
            fl["next_idx"] = idx + 100
        for sh in shards:
            for c in sh.cases:
                materialize(c, sh)

    timeout_s = 45 if quick else 600
    with concurrent.futures.ThreadPoolExecutor(max_workers=vlib.NCPU) as ex:
        list(ex.map(lambda s: run_shard(s, sysmon, timeout_s), shards))
    for sh in shards:
        sh.evs = syslog.parse(sh.log) if os.path.exists(sh.log) else []
        sh.dg = digest(sh.evs)

    # ---- phase 2: refuse every discovered (mode, side, call, occurrence) in turn ------------------------------
    cells_total = 0
    cell_keys = set()
    phase2 = []
    if not replay:
        for sh in shards:
            specs = getattr(sh, "discovery", None)
            if not specs:
                continue
            base, cases, rootpid, root_exit = sh.dg
            fl = sh.flavour
            heavy = fl["name"] in ("std-nostart", "nolibc-start")
            nerr = 1 if quick or not heavy else 3
            todo = []
            for sp, c in zip(specs, sh.cases):
                co = cases.get(c["id"])
                cells = discover_cells(co, c["id"], rootpid) if (co is not None and rootpid is not None) else None
                if cells is None:
                    ck.note_inconclusive("%s: mode %s: no complete un-injected run to discover its calls from" % (fl["name"], sp["name"]))
                    continue
                for ci, cell in enumerate(cells):
                    cells_total += 1
                    cell["key"] = "%s/%s/%s#%d" % (sp["name"], cell["side"], cell["name"], cell["occ"])
                    cell_keys.add(cell["key"])
                    for j in range(nerr):
                        en = GEN_ERRNOS[(ci + j + len(sp["name"])) % len(GEN_ERRNOS)]
                        todo.append((sp, cell, en, 1))
                    if cell["side"] == "parent" and cell["after_fork"]:
                        # an interrupted call of the caller while the child is under way is not a failed step:
                        # interrupted once / twice / three times in a row, the expected result stays Ok
                        for count in ((1, 2, 3) if nerr > 1 else (1 + (ci + len(sp["name"])) % 3,)):
                            todo.append((sp, cell, "EINTR", count))
            for i in range(0, len(todo), 60):
                sh2 = Shard(root, fl, fl["next_idx"])
                fl["next_idx"] += 1
                sh2.probe_env = sh.probe_env
                for sp, cell, en, count in todo[i:i + 60]:
                    c = make_mode(sp, sh2, helper_b, next_id())
                    c["kind"] = "inject"
                    c["inj"] = [(cell["scope"], cell["nr"], cell["k"], -ERRNO[en], count)]
                    c["fault"] = (cell["name"], cell["occ"], ERRNO[en])
                    c["cell"] = cell["key"] + ("/EINTR" if en == "EINTR" else "")
                    c["note"] = "mode %s: refuse %s %s#%d with %s%s" % (sp["name"], cell["side"], cell["name"], cell["occ"], en,
                                                                       " x%d" % count if count > 1 else "")
                    materialize(c, sh2)
                    sh2.cases.append(c)
                phase2.append(sh2)
        with concurrent.futures.ThreadPoolExecutor(max_workers=vlib.NCPU) as ex:
            list(ex.map(lambda s: run_shard(s, sysmon, timeout_s), phase2))
        for sh in phase2:
            sh.evs = syslog.parse(sh.log) if os.path.exists(sh.log) else []
            sh.dg = digest(sh.evs)
        shards += phase2

    nproc = 0
    cells_judged = set()
    for sh in shards:
        tag = "%s-%d" % (sh.flavour["name"], sh.idx)
        if sh.timed_out or sh.rc in (124, 125) or sh.rc is None:
            ck.note_inconclusive("%s: sysmon rc=%s (watchdog/timeout), stderr %r" % (tag, sh.rc, sh.err[-300:]))
        evs = sh.evs
        base, cases, rootpid, root_exit = sh.dg
        nproc += sum(1 for e in evs if e.k == "F")
        if rootpid is None:
            ck.note_inconclusive("%s: probe never started (rc=%s, stderr %r)" % (tag, sh.rc, sh.err[-300:]))
            continue
        if base["parse_err"]:
            ck.note_inconclusive("%s: probe could not set up %d case(s): %r" % (tag, len(base["parse_err"]), base["parse_err"][:3]))
        J = Judge(ck, sh, base, rootpid, devnull)
        incomplete = 0
        for c in sh.cases:
            co = cases.get(c["id"])
            if co is None:
                incomplete += 1
                continue
            res = J.judge(c, co)
            if res == "judged":
                ck.add_eval(1)
                ck.count("cases/%s/%s" % (sh.flavour["name"], c["kind"]))
                if c["fault"]:
                    ck.count("fault_positions_exercised/%s" % c["fault"][0])
                if c.get("cell"):
                    cells_judged.add(sh.flavour["name"] + "/" + c["cell"])
                    ck.note_distinct("%s/cell/%s" % (sh.flavour["name"], c["cell"]))
            elif res == "incomplete":
                incomplete += 1
                returned = any(e.k == "M" and e.kind == 3 and e.a[0] == K_RETURNED and e.tgid == rootpid for e in co.order)
                if co.end is None and not returned and root_exit not in (None, 0) and (root_exit & 0x7f) != 9 \
                        and not sh.timed_out and sh.rc not in (124, 125):
                    J.viol("C13/spawn/caller-crashed-before-return", c, co,
                           "the caller ended with wait status %d (signal %d, exit code %d) between BEGIN and the return of spawn() "
                           "of this case" % (root_exit, root_exit & 0x7f, root_exit >> 8),
                           stderr_tail=sh.err[-1500:].decode("utf-8", "replace"))
        if incomplete:
            ck.note_inconclusive("%s: %d of %d cases without a complete observation (probe rc=%s)" % (tag, incomplete, len(sh.cases), sh.rc))
        sh.evs = None
    ck.count("discovered_cells", cells_total)
    ck.count("discovered_cells_judged", len(cells_judged))
    ck.extra["discovered_cell_sample"] = sorted(cell_keys)[:60]
    ck.extra["never_refused_calls"] = sorted(syslog.NAME.get(n, n) for n in NEVER_REFUSED)
    ck.count("processes_forked_observed", nproc)
    ck.count("probe_processes", len(shards))
    if ck.counters.get("injection_not_reached", 0) > 0:
        ck.note_inconclusive("%d injected fault(s) were never reached by the spawn sequence" % ck.counters["injection_not_reached"])
    ck.exhaustive = False
    ck.extra["flavours"] = [f["name"] for f in flavours]
    ck.extra["refusal_errnos"] = GEN_ERRNOS + ["EINTR (x1..x3, on the caller's calls after the fork: retry required)"]
    ck.assume("the process tree and every system-call result are taken from the ptrace monitor (engines/sysmon); the 'spawn returned' "
              "marker is issued by the probe immediately after spawn() and a non-caller process passing it is contained with exit_group(77)")
    ck.assume("the exec target (probes/dump_helper, plain std/libc) learns its case id and exit code only from the name of its own "
              "executable (/proc/self/exe of a per-case hard link), never from argv/env/cwd/stdio")
    ck.assume("expected errno of a failed step = the result of the first failing system call of the spawn sequence as seen by the tracer "
              "(injected or real); EINTR on the sync-pipe read and EBUSY on dup may be retried")
    ck.assume("wait() is accepted when it reports the child's raw wait status or its exit code, as long as the helper's exit code is recoverable")
    ck.assume("runs as root: setuid/setgid to 65534/12345 succeed; child-side faults are injected with scope 'all' between arming and DISARM "
              "(scope 'children' when the caller issues the same call after the fork)")
    ck.assume("discovered enumeration: the refusal list is read from un-injected traced runs per mode and flavour (every nr, every occurrence, "
              "up to the first call that fails by itself); never refused and never counted as a failed step: close, exit, exit_group, write, wait4")
    ck.assume("descriptor leaks in the caller are C12's subject and not judged here; only the descriptor table seen by the exec'd program is")
    return ("seeded spawn configurations (0..50 args incl. empty/non-UTF-8/long, environment default|provided 1..50 incl. duplicates and "
            "entries without '=', cwd absolute/relative/non-UTF-8, uid/gid/pgroup on/off, stdio unset/Inherit/Null/MakePipe/RawFd per stream "
            "with a data round trip, 0..3 pre-exec closures) run by a std-linked probe (tiny-std without `start`) and a no-libc probe (with "
            "`start`) under the ptrace monitor; failures by real means (ENOENT/EACCES/ENOEXEC/ENOTDIR/ELOOP/ENAMETOOLONG programs, bad cwd, "
            "setgid after setuid, foreign pgroup, closed RawFd, failing closure); faults by a DISCOVERED "
            "enumeration: every parent/stdio mode (plain, pipes, nulls, files, shared/own/crossed RawFd, full settings, each closed-0/1/2 "
            "variant of the caller, real exec failure) is first run un-injected, the tracer's log gives every call the caller makes inside "
            "Command::spawn and every call the forked child makes up to the exec (process creation and exec recognised by the tracer's F/E "
            "events, not by number), and each (mode, side, call, occurrence) is then refused in turn with an errno list, the caller's calls "
            "after the fork also interrupted with EINTR x1..3 (never refused: close, exit, exit_group, write, wait4); distinct = (flavour, "
            "kind, stdio modes | env/arg size classes | cwd/uid/gid/pgroup/closures | failing step x errno) cells of judged cases")


def preflight(root, helper, helper_b):
    """The scratch area must allow what the 'valid' configurations rely on: executing the helper there, also as uid 65534."""
    d = os.path.join(root, "preflight")
    os.mkdir(d)
    os.chmod(d, 0o777)
    for tag, uid in (("1", None), ("2", 65534)):
        link = os.path.join(d, "h.%s.7" % tag)
        os.link(helper, link)

        def drop(uid=uid):
            if uid is not None:
                os.setgid(uid)
                os.setuid(uid)
        try:
            p = subprocess.run([link], stdin=subprocess.DEVNULL, stdout=subprocess.DEVNULL, stderr=subprocess.DEVNULL,
                               preexec_fn=drop, timeout=30, cwd=d)
        except (OSError, subprocess.SubprocessError) as ex:
            return "cannot execute the helper in %s as uid %s: %s" % (d, uid, ex)
        if p.returncode != 7 or not os.path.exists(link + ".dump"):
            return "helper run in %s as uid %s: rc=%s, dump %s" % (d, uid, p.returncode, os.path.exists(link + ".dump"))
    if os.geteuid() != 0:
        return "not running as root (the uid/gid scenarios need it)"
    return None
