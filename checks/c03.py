"""C03: tiny-std Dlmalloc - every returned block aligned, disjoint from all live blocks, intact until
freed; realloc keeps the common prefix; calloc zeroed; when the kernel refuses memory the call returns
null, nothing is lost, the heap stays usable.

Oracle: shadow model (interval map + per-block PRNG pattern) in engines/h_alloc (bin c03) around a private
Dlmalloc instance, one child process per history; the kernel really refuses (soft RLIMIT_AS lowered around
exactly one allocator call). Debug build (allocator's own invariant walker after every call) and release."""
import json
import re
import shutil

import syslog
import vlib

LEVEL = "fault_enumeration"
CRATE = "engines/h_alloc"


def _build():
    dbg = vlib.cargo_build(CRATE, "h_alloc-debug", bins=["c03"])
    rel = vlib.cargo_build(CRATE, "h_alloc-release", bins=["c03"], release=True)
    return dbg, rel


def _probe():
    # the no-libc executable on the shipped global allocator (shared with C04); here only its `forkcheck` mode is used
    return vlib.build_nolibc("probes/alloc_probe", "alloc_probe", "static", True) + "/alloc_probe"


def setup():
    _build()
    _probe()
    syslog.sysmon_bin()


RULE = ("seeded histories of malloc/calloc/realloc/free (1000-3000 ops quick, up to 20000 thorough; sizes biased to MIN_CHUNK, "
        "small-bin, tree-bin, 64 KiB granularity and 2 MiB trim edges, and to the current top/dv size; alignments 1..8192; "
        "grow/churn/drain phases and free-everything sweeps in address/reverse/fifo/lifo/alternate/random order), each run in its own "
        "process without refusal, with ~24-40 sampled refusal windows (single calls and runs of 2-60 calls) and, for short histories, "
        "once per op index with the refusal at exactly that call; plus trim-heavy histories (64 KiB-8 MiB blocks, in-place shrinks and "
        "frees of the block next to top) under sysmon with mremap and/or munmap failing throughout or at sampled calls; three fork "
        "steps at seeded op indices in every plain and refusal history (child scribbles over its heap, parent re-verifies); distinct = (operation, size class, alignment class, path taken "
        "classified from verif_stats deltas, refused or not) cells plus phases/styles/profiles")


def _replay(ck, path, dbg, rel):
    """re-run the one history a replay file names (same seed, length, refusal windows, build profile)"""
    det = json.load(open(path)).get("detail", {})
    if "seed" not in det or "nops" not in det:
        ck.note_inconclusive("replay file %s names no history (seed/nops missing)" % path)
        return
    d = dbg if det.get("profile", "debug") == "debug" else rel
    first = max(0, int(det.get("clean_at", det.get("op_index", 0))) - 1)
    faults = det.get("faults", "")
    fargs = faults.split() if "=" in faults else ["w=" + faults]
    argv = [d + "/c03", "hist", str(det["seed"]), str(det["nops"])] + fargs + ["k1from=%d" % first]
    if any(a.startswith("s=") and len(a) > 2 for a in fargs):  # mremap/munmap failures come from the ptrace monitor
        argv = [syslog.sysmon_bin(), "--log", "/dev/null", "--timeout-s", "900", "--idle-ms", "0", "--"] + argv
    setarch = shutil.which("setarch")
    if setarch:  # histories are planned with ASLR off (address-ordered sweeps)
        argv = [setarch, "x86_64", "-R"] + argv
    r = vlib.run_one(argv, timeout=1800)
    ck.consume_result(r, "replay " + " ".join(argv[-5:]), expect_rc=(0, 3, 6))
    ck.note_distinct("replay")
    ck.sample({"case": "replay", "argv": argv, "exit": r["rc"]})


def run(ck, replay=None):
    quick = ck.tier == "quick"
    dbg, rel = _build()
    if replay:
        _replay(ck, replay, dbg, rel)
        return RULE
    sysmon = syslog.sysmon_bin()
    nshard = 16
    per_shard = 3 if quick else 20
    jobs = []
    labels = []
    for prof, d in (("debug", dbg), ("release", rel)):
        for i in range(nshard):
            jobs.append(dict(argv=[d + "/c03", "batch", str(ck.seed % 1_000_000_007 + (0 if prof == "debug" else 17)),
                                   str(per_shard), "tier=" + ck.tier, "shard=%d/%d" % (i, nshard), "sysmon=" + sysmon],
                             timeout=600 if quick else 7200))
            labels.append("%s batch shard %d" % (prof, i))
    # second opinion on a small budget: the release harness under memcheck (no refusal windows there:
    # the lowered limit would hit valgrind itself). Plain mmap-backed heaps are opaque to memcheck, so this
    # only sees accesses outside any mapping and wild writes into the harness' own (libc) heap.
    vg = shutil.which("valgrind")
    nvg = 0
    if vg:
        for j in range(2 if quick else 12):
            jobs.append(dict(argv=[vg, "-q", "--tool=memcheck", "--error-exitcode=97", "--undef-value-errors=no",
                                   rel + "/c03", "hist", str(ck.seed % 1_000_003 * 10 + j), str(400 if quick else 1500),
                                   "style=%d" % (j % 5), "k=1"], timeout=900))
            labels.append("valgrind release history %d" % j)
            nvg += 1
    # fork oracle on the global allocator (alloc_probe forkcheck <seed> <blocks> <rounds>)
    probe = _probe()
    for j in range(6 if quick else 32):
        jobs.append(dict(argv=[probe, "forkcheck", str(ck.seed % 1_000_003 * 7 + j), str(150 + 90 * (j % 4)), "4"], timeout=600))
        labels.append("forkcheck global allocator %d" % j)
    res = vlib.run_parallel(jobs, nproc=vlib.NCPU + 4)
    maxlive = 0
    for lab, r in zip(labels, res):
        if lab.startswith("forkcheck"):
            rows = [l.split() for l in r["out"].splitlines() if l.startswith("F ")]
            if r["timed_out"] or r["rc"] != 0 or not rows:
                if r["rc"] is not None and r["rc"] < 0:
                    ck.violation("C03/fork/global-allocator/probe-killed-by-signal", {"argv": r["argv"], "signal": -r["rc"], "out": r["out"][-300:]})
                else:
                    ck.note_inconclusive("%s: rc=%s out=%s" % (lab, r["rc"], (r["out"] + r["err"])[-200:]))
                continue
            for row in rows:
                ck.add_eval(int(row[2]))
                ck.count("fork_steps_global_allocator")
                ck.count("live_blocks_verified_after_a_forked_child", int(row[2]))
                if int(row[3]) >= 0:
                    ck.violation("C03/fork/global-allocator/live-block-changed-by-forked-child",
                                 {"argv": r["argv"], "round": int(row[1]), "blocks": int(row[2]), "first_changed_block": int(row[3]), "offset": int(row[4])})
            ck.note_distinct("fork-step/global-allocator")
            continue
        if lab.startswith("valgrind"):
            if r["rc"] == 97:
                ck.violation("C03/valgrind/invalid-access", {"stderr": r["err"][-3000:], "argv": r["argv"]})
            elif ck.consume_result(r, lab, expect_rc=(0, 3)):
                ck.count("valgrind_memcheck_histories")
                ck.note_distinct("profile/valgrind-release")
            continue
        if ck.consume_result(r, lab):
            ck.note_distinct("profile/" + lab.split()[0])
        for m in re.finditer(r"^##MAXLIVE (\d+)", r["out"], re.M):
            maxlive = max(maxlive, int(m.group(1)))
    ck.extra["max_live_blocks"] = maxlive
    # note, not a verdict: which flags anonymous mmaps carried in the traced histories
    flags = {k.rsplit("_", 1)[1]: v for k, v in ck.counters.items() if k.startswith("traced_anonymous_mmap_flags_")}
    ck.extra["traced_anonymous_mmap_flags"] = flags
    odd = sorted(f for f in flags if f not in ("0x22", "0x32", "0x20022", "0x4022"))  # harness/libc own: 0x32 (MAP_FIXED), 0x20022 (MAP_STACK)
    if odd:
        ck.assume("NOTE (no verdict): anonymous mmaps with flags %s were issued in traced histories; HEAD's allocator maps with "
                  "MAP_PRIVATE|MAP_ANONYMOUS (0x22) only - whether heap memory is private to the process is decided by the fork step" % ", ".join(odd))
    ck.extra["profiles"] = ["debug (debug_assert + invariant walker after every call)", "release"] + (["release under valgrind memcheck"] if nvg else [])
    ck.exhaustive = False
    ck.extra["refusal_position_exhaustive_on_short_histories"] = ck.counters.get("short_histories_with_refusal_at_every_op_index", 0) > 0
    ck.assume("the kernel's refusal is produced by lowering the soft RLIMIT_AS to one page around exactly one allocator call "
              "(mmap and growing mremap fail with ENOMEM); failing mremap (incl. the shrinking one of sys_trim) and munmap are produced "
              "by the ptrace monitor sysmon around the allocator calls of trim-heavy histories (whole history, and sampled calls; "
              "ENOMEM / EINVAL), with all live blocks re-verified after every such call that changed footprint/top/segments")
    ck.assume("'null required' is judged conservatively: a non-null result under refusal is refuted only when the request exceeds "
              "footprint - live bytes (it cannot have come from held memory) or the footprint grew; every non-null result is "
              "checked for alignment, disjointness, content like any other")
    ck.assume("fork steps: the child is a plain fork(2) of the harness (own copy of the Dlmalloc struct), overwrites every live block, "
              "frees/reallocs up to 64 of them, mallocs 48 more and leaves with _exit; the parent then re-reads every live block and runs the walker")
    ck.assume("blocks above 128 KiB carry the pattern on both 16 KiB edges and 64 bytes of every page, smaller ones on every byte")
    ck.assume("request sizes 1 byte .. 48 MiB plus impossible sizes (>= 2^47, null required); alignments 1 .. 8192; size 0 is outside "
              "the GlobalAlloc contract and not generated")
    return RULE
