//! h_locks: runtime monitor for tiny-std's Mutex (C01) and RwLock (C02).
//!
//! The same code runs natively (debug / release / TSan) and under Miri.
//!
//!   h_locks noop
//!   h_locks prog   <seed> <reps>   <m|rw> <first-prog> <nprog> <spin> <spurious-%> <point-yield-%>
//!   h_locks stress <seed> <millis> <m|rw> <nthreads> <nlocks> <spin> <spurious-%>
//!
//! Besides lock/try/read/write the programs exercise the rest of the public surface: `{:?}` of a Mutex
//! (from holders and non-holders, into a String, into a fixed-size sink that runs full at a chosen
//! byte, with a payload whose Debug returns Err or panics), `{:?}` / `{}` of the guards, and - single
//! threaded, with exact post-conditions - Default / get_mut / into_inner and the formatting battery
//! over every byte position (`surface_battery`).
//!
//! Oracles (all monitor state is touched with Relaxed read-modify-write operations only, so the
//! monitor adds no happens-before edge that could hide a missing Acquire/Release, and an RMW always
//! observes the latest value in the modification order, so stamps are consistent with real order):
//!  * occupancy word per lock (readers low 16 bits, exclusive holders high 16 bits): inner intervals
//!  * plain (non-atomic) payload written/read under the guard: race detectors judge synchronisation;
//!    every exclusive holder must find its predecessor's unique stamp and count (visibility, no lost update)
//!  * failed try_*: must overlap the OUTER interval of a call that can explain it (exact, offline, in
//!    `prog` mode; conservative online counters in `stress` mode)
//!  * try_* must not reach the futex-wait hook (per-thread counter kept by the callback)
//!  * deadlock: Miri's scheduler; natively the watchdog thread (all live workers between WAIT_ENTER
//!    and WAIT_EXIT, no progress event for >= 200 ms, every one of them shown by
//!    /proc/self/task/<tid>/syscall inside futex(2), nobody inside a critical section)
//!  * livelock (logical, no clock): one blocking call has passed LIVELOCK_EVENTS hook points / futex-wait
//!    entries without really sleeping, while no operation of any thread completed, the books show the
//!    lock free and every other thread is finished, parked or inside a blocking call as well
//!  * a wall-clock stall watchdog (no operation completed for HL_STALL_MS) only ever says "inconclusive"
use std::cell::Cell;
use std::collections::HashSet;
use std::fmt;
use std::fmt::Write as _;
use std::sync::atomic::{AtomicU32, AtomicU64, AtomicUsize, Ordering::Relaxed};
use std::sync::Arc;

use rusl::verif as rv;
use tiny_std::sync::{Mutex, MutexGuard, RwLock, RwLockReadGuard, RwLockWriteGuard};
use vh::Rng;

const MAXW: usize = 32; // worker threads
const MAXT: usize = MAXW + 1; // + the main thread's slot for the quiescence phase
const MAXL: usize = 2;
const NPT: usize = 32;
const IS_MIRI: bool = cfg!(miri);

// ------------------------------------------------------------------------------------------------
// protected payload: plain data, only ever touched through a guard
// ------------------------------------------------------------------------------------------------
const PW: usize = 6;
struct Payload {
    stamp: u64,
    count: u64,
    arr: [u64; PW],
}
impl Payload {
    const fn new() -> Self {
        Payload {
            stamp: 0,
            count: 0,
            arr: [0; PW],
        }
    }
}

impl Default for Payload {
    fn default() -> Self {
        Payload::new()
    }
}
impl Payload {
    fn render(&self, f: &mut fmt::Formatter<'_>, name: &str) -> fmt::Result {
        // plain reads of the protected data: formatting without the lock is a data race
        match TL.with(|t| t.fail_mode.get()) {
            1 => return Err(fmt::Error),
            2 => panic!("payload formatting panics on request"),
            _ => {}
        }
        f.write_str(name)?;
        f.write_str(" { stamp: ")?;
        fmt::Display::fmt(&self.stamp, f)?;
        f.write_str(", count: ")?;
        fmt::Display::fmt(&self.count, f)?;
        f.write_str(", arr0: ")?;
        fmt::Display::fmt(&self.arr[0], f)?;
        f.write_str(", arr5: ")?;
        fmt::Display::fmt(&self.arr[PW - 1], f)?;
        f.write_str(" }")
    }
}
impl fmt::Debug for Payload {
    fn fmt(&self, f: &mut fmt::Formatter<'_>) -> fmt::Result {
        self.render(f, "Payload")
    }
}
impl fmt::Display for Payload {
    fn fmt(&self, f: &mut fmt::Formatter<'_>) -> fmt::Result {
        self.render(f, "payload")
    }
}

/// where formatted output goes
#[derive(Clone, Copy, Debug, PartialEq, Eq)]
enum Sink {
    Str,
    Fixed(usize),
    FailErr,
    FailPanic,
}
struct FixedSink {
    buf: [u8; 512],
    len: usize,
    cap: usize,
}
impl fmt::Write for FixedSink {
    fn write_str(&mut self, s: &str) -> fmt::Result {
        let room = self.cap - self.len;
        let n = room.min(s.len());
        self.buf[self.len..self.len + n].copy_from_slice(&s.as_bytes()[..n]);
        self.len += n;
        if n < s.len() {
            Err(fmt::Error)
        } else {
            Ok(())
        }
    }
}
/// run one formatting call against the chosen sink; (returned Ok, panicked, bytes written)
fn run_fmt(sink: Sink, f: &dyn Fn(&mut dyn fmt::Write) -> fmt::Result) -> (bool, bool, usize) {
    TL.with(|t| {
        t.fail_mode.set(match sink {
            Sink::FailErr => 1,
            Sink::FailPanic => 2,
            _ => 0,
        });
        t.expect_panic.set(sink == Sink::FailPanic);
    });
    let r = std::panic::catch_unwind(std::panic::AssertUnwindSafe(|| match sink {
        Sink::Fixed(k) => {
            let mut w = FixedSink { buf: [0; 512], len: 0, cap: k.min(512) };
            let r = f(&mut w);
            (r.is_ok(), w.len)
        }
        _ => {
            let mut w = String::new();
            let r = f(&mut w);
            (r.is_ok(), w.len())
        }
    }));
    TL.with(|t| {
        t.fail_mode.set(0);
        t.expect_panic.set(false);
    });
    match r {
        Ok((ok, n)) => (ok, false, n),
        Err(_) => (false, true, 0),
    }
}

/// non-atomic write of the whole payload under an exclusive guard; returns what was there
#[inline(never)]
fn payload_write(p: &mut Payload, stamp: u64) -> (u64, u64, bool) {
    let seen = p.stamp;
    let cnt = p.count;
    let mut ok = true;
    for (i, v) in p.arr.iter().enumerate() {
        if *v != seen ^ (i as u64).wrapping_mul(0x9E37_79B9) {
            ok = false;
        }
    }
    if seen == 0 {
        ok = p.arr.iter().all(|v| *v == 0);
    }
    p.stamp = stamp;
    p.count = cnt.wrapping_add(1);
    for (i, v) in p.arr.iter_mut().enumerate() {
        *v = stamp ^ (i as u64).wrapping_mul(0x9E37_79B9);
    }
    (seen, cnt, ok)
}

/// non-atomic read of the whole payload under any guard
#[inline(never)]
fn payload_read(p: &Payload) -> (u64, u64, bool) {
    let seen = p.stamp;
    let cnt = p.count;
    let mut ok = true;
    if seen == 0 {
        ok = p.arr.iter().all(|v| *v == 0);
    } else {
        for (i, v) in p.arr.iter().enumerate() {
            if *v != seen ^ (i as u64).wrapping_mul(0x9E37_79B9) {
                ok = false;
            }
        }
    }
    (seen, cnt, ok)
}

struct Shared {
    m: [Mutex<Payload>; MAXL],
    rw: [RwLock<Payload>; MAXL],
}
impl Shared {
    fn new() -> Self {
        Shared {
            m: [Mutex::new(Payload::new()), Mutex::new(Payload::new())],
            rw: [RwLock::new(Payload::new()), RwLock::new(Payload::new())],
        }
    }
}

// ------------------------------------------------------------------------------------------------
// monitor state (Relaxed RMWs only)
// ------------------------------------------------------------------------------------------------
#[allow(clippy::declare_interior_mutable_const)]
const Z32: AtomicU32 = AtomicU32::new(0);
#[allow(clippy::declare_interior_mutable_const)]
const Z64: AtomicU64 = AtomicU64::new(0);

static CLK: AtomicU64 = AtomicU64::new(1);
static OCC: [AtomicU32; MAXL] = [Z32; MAXL];
static MON_LAST: [AtomicU64; MAXL] = [Z64; MAXL];
static MON_CNT: [AtomicU64; MAXL] = [Z64; MAXL];
// outer-interval counters for the online try_* justification
static ANY_ACT: [AtomicU64; MAXL] = [Z64; MAXL];
static ANY_OPN: [AtomicU64; MAXL] = [Z64; MAXL];
static WR_ACT: [AtomicU64; MAXL] = [Z64; MAXL];
static WR_OPN: [AtomicU64; MAXL] = [Z64; MAXL];
static BR_ACT: [AtomicU64; MAXL] = [Z64; MAXL];
static BR_OPN: [AtomicU64; MAXL] = [Z64; MAXL];

static PROGRESS: AtomicU64 = AtomicU64::new(0);
/// completed operations of any thread (acquire returned, guard released, formatting done, thread ended);
/// hook events do not count: "nobody got anywhere" = this counter unchanged
static OPS_DONE: AtomicU64 = AtomicU64::new(0);
/// hook events one blocking call may pass without sleeping while nothing else moves
/// test knob (HL_NO_LIVELOCK=1): lets the wall-clock bounds be exercised on a spinning lock
static LIVELOCK_OFF: AtomicU32 = AtomicU32::new(0);
const LIVELOCK_EVENTS: u64 = if IS_MIRI { 3_000 } else { 300_000 };
static EXEC_ID: AtomicU64 = AtomicU64::new(0);
static ARRIVED: AtomicU32 = AtomicU32::new(0);
static STOP: AtomicU32 = AtomicU32::new(0);
static VIOLS: AtomicU32 = AtomicU32::new(0);

// configuration, written by main before any worker exists
static KIND_RW: AtomicU32 = AtomicU32::new(0);
static SPUR_PCT: AtomicU32 = AtomicU32::new(0);
static PT_YIELD_PCT: AtomicU32 = AtomicU32::new(0);
static DELAY: [AtomicU32; NPT] = [Z32; NPT];

struct Slot {
    live: AtomicU32,
    in_wait: AtomicU32,
    tid: AtomicU32,
    op: AtomicU32,
    in_block: AtomicU32,
    wait_addr: AtomicUsize,
}
#[allow(clippy::declare_interior_mutable_const)]
const SLOT0: Slot = Slot {
    live: AtomicU32::new(0),
    in_wait: AtomicU32::new(0),
    tid: AtomicU32::new(0),
    op: AtomicU32::new(0),
    in_block: AtomicU32::new(0),
    wait_addr: AtomicUsize::new(0),
};
static SLOTS: [Slot; MAXT] = [SLOT0; MAXT];

#[inline]
fn clk() -> u64 {
    CLK.fetch_add(1, Relaxed)
}
#[inline]
fn rd64(a: &AtomicU64) -> u64 {
    a.fetch_add(0, Relaxed)
}
#[inline]
fn rd32(a: &AtomicU32) -> u32 {
    a.fetch_add(0, Relaxed)
}

fn kind_id() -> &'static str {
    if KIND_RW.load(Relaxed) != 0 {
        "C02"
    } else {
        "C01"
    }
}

static VIOL_SEEN: std::sync::Mutex<Vec<(String, u32)>> = std::sync::Mutex::new(Vec::new());
/// report a violation (at most 3 per signature and 40 per process are printed)
fn viol(what: &str, detail: &str) {
    let n = VIOLS.fetch_add(1, Relaxed);
    let sig = format!("{}/{}", kind_id(), what);
    let mut print = n < 40;
    if let Ok(mut seen) = VIOL_SEEN.lock() {
        if let Some(e) = seen.iter_mut().find(|e| e.0 == sig) {
            e.1 += 1;
            print = print && e.1 <= 3;
        } else {
            seen.push((sig.clone(), 1));
        }
    }
    if print {
        vh::viol(&sig, detail);
    }
}

// ------------------------------------------------------------------------------------------------
// thread-local bookkeeping used by the hook callbacks
// ------------------------------------------------------------------------------------------------
#[derive(Default, Clone, Debug)]
struct TStats {
    waits: u64,       // futex_wait calls (EV_WAIT_ENTER)
    slept: u64,       // real waits that returned 0 (slept and were woken)
    eagain: u64,      // real waits that returned EAGAIN (word had changed)
    other_ret: u64,   // any other return of a real wait
    spurious: u64,    // injected returns
    wake_calls: u64,  // futex_wake calls
    woken: u64,       // threads reported woken by our wake calls
    ho_writer: u64,   // rwlock: wake on writer_notify woke a writer
    ho_nowriter: u64, // rwlock: wake on writer_notify woke nobody
    ho_fallback: u64, // rwlock: both-waiting path found no writer and fell back to readers
    ho_readers: u64,  // rwlock: readers-only wake
    shared_reads: u64,
    pts: [u64; NPT],
}

struct Tl {
    me: Cell<usize>,
    rng: Cell<u64>,
    waits: Cell<u64>,
    slept: Cell<u64>,
    eagain: Cell<u64>,
    other_ret: Cell<u64>,
    spurious: Cell<u64>,
    wake_calls: Cell<u64>,
    woken: Cell<u64>,
    ho_writer: Cell<u64>,
    ho_nowriter: Cell<u64>,
    ho_fallback: Cell<u64>,
    ho_readers: Cell<u64>,
    shared_reads: Cell<u64>,
    saw213: Cell<bool>,
    pts: [Cell<u64>; NPT],
    fail_mode: Cell<u8>,
    expect_panic: Cell<bool>,
    blk: Cell<u32>,     // op code | lock << 8 of the blocking call in progress, 0 = none
    blk_ev: Cell<u64>,  // hook events of that call since the last sign of life anywhere
    blk_ops: Cell<u64>, // OPS_DONE when blk_ev was last reset
}
#[allow(clippy::declare_interior_mutable_const)]
const C0: Cell<u64> = Cell::new(0);
thread_local! {
    static TL: Tl = const { Tl {
        me: Cell::new(usize::MAX), rng: Cell::new(0x1234_5678_9abc_def1), waits: C0, slept: C0, eagain: C0,
        other_ret: C0, spurious: C0, wake_calls: C0, woken: C0, ho_writer: C0, ho_nowriter: C0,
        ho_fallback: C0, ho_readers: C0, shared_reads: C0, saw213: Cell::new(false), pts: [C0; NPT],
        fail_mode: Cell::new(0), expect_panic: Cell::new(false), blk: Cell::new(0), blk_ev: C0, blk_ops: C0,
    } };
}
fn bump(c: &Cell<u64>) {
    c.set(c.get() + 1);
}
fn tl_reset(me: usize, seed: u64) {
    TL.with(|t| {
        t.me.set(me);
        t.rng.set(seed | 1);
        for c in [
            &t.waits,
            &t.slept,
            &t.eagain,
            &t.other_ret,
            &t.spurious,
            &t.wake_calls,
            &t.woken,
            &t.ho_writer,
            &t.ho_nowriter,
            &t.ho_fallback,
            &t.ho_readers,
            &t.shared_reads,
        ] {
            c.set(0);
        }
        t.saw213.set(false);
        for p in &t.pts {
            p.set(0);
        }
        t.blk.set(0);
        t.blk_ev.set(0);
    });
}
fn tl_take() -> TStats {
    TL.with(|t| {
        let mut s = TStats {
            waits: t.waits.get(),
            slept: t.slept.get(),
            eagain: t.eagain.get(),
            other_ret: t.other_ret.get(),
            spurious: t.spurious.get(),
            wake_calls: t.wake_calls.get(),
            woken: t.woken.get(),
            ho_writer: t.ho_writer.get(),
            ho_nowriter: t.ho_nowriter.get(),
            ho_fallback: t.ho_fallback.get(),
            ho_readers: t.ho_readers.get(),
            shared_reads: t.shared_reads.get(),
            pts: [0; NPT],
        };
        for (i, p) in t.pts.iter().enumerate() {
            s.pts[i] = p.get();
        }
        s
    })
}
fn tl_waits() -> u64 {
    TL.with(|t| t.waits.get())
}
/// xorshift; thread-local so the callbacks need no shared state
fn tl_rand(t: &Tl) -> u64 {
    let mut x = t.rng.get();
    x ^= x << 13;
    x ^= x >> 7;
    x ^= x << 17;
    t.rng.set(x);
    x.wrapping_mul(0x2545_F491_4F6C_DD1D) >> 11
}

/// One more hook event inside a blocking lock()/read()/write() call of this thread. Purely logical
/// certificate of a livelock: LIVELOCK_EVENTS events without this thread really sleeping and without
/// any operation of any thread completing, the books show nobody inside the lock, and every other
/// thread is finished, parked in futex wait or itself inside a blocking call (such a thread holds
/// nothing: blocking calls are never nested). A correct lock admits the caller within a handful of
/// events in that situation.
fn blk_event(t: &Tl) {
    let b = t.blk.get();
    if b == 0 {
        return;
    }
    let n = t.blk_ev.get() + 1;
    t.blk_ev.set(n);
    if n & 0xff != 0 {
        return;
    }
    let od = rd64(&OPS_DONE);
    if od != t.blk_ops.get() {
        t.blk_ops.set(od);
        t.blk_ev.set(0);
        return;
    }
    if n < LIVELOCK_EVENTS || LIVELOCK_OFF.load(Relaxed) != 0 {
        return;
    }
    let me = t.me.get();
    let l = (b >> 8) as usize;
    if l >= MAXL || rd32(&OCC[l]) != 0 {
        return;
    }
    let mut others = String::from("[");
    for (i, s) in SLOTS.iter().enumerate() {
        if i == me || rd32(&s.live) == 0 {
            continue;
        }
        let parked = rd32(&s.in_wait) != 0;
        let blocked = rd32(&s.in_block) != 0;
        if !parked && !blocked {
            return; // somebody is on its way: look again 256 events later
        }
        let _ = write!(others, "{{\"thread\":{i},\"state\":\"{}\"}},", if parked { "parked in futex wait" } else { "inside a blocking call" });
    }
    if others.ends_with(',') {
        others.pop();
    }
    others.push(']');
    let op = OP_NAMES[((b & 0xff) as usize).min(OP_NAMES.len() - 1)];
    let ctx = WD_CTX.lock().map(|c| c.clone()).unwrap_or_default();
    vh::viol(
        &format!("{}/{op}/spins-forever-on-free-{}", kind_id(), if KIND_RW.load(Relaxed) != 0 { "rwlock" } else { "mutex" }),
        &format!(
            "{{\"what\":\"one {op}() call passed {n} hook points / futex-wait entries without sleeping while no operation of any thread completed, nobody is inside lock {l} and no other thread can release anything\",\"thread\":{me},\"lock\":{l},\"events\":{n},\"other_live_threads\":{others},\"run\":{}}}",
            if ctx.is_empty() { "null".to_string() } else { ctx }
        ),
    );
    use std::io::Write;
    let _ = std::io::stdout().flush();
    std::process::exit(3);
}

fn futex_cb(ev: u32, addr: usize, val: u32, res: isize) -> u32 {
    TL.with(|t| {
        let me = t.me.get();
        match ev {
            rv::EV_WAIT_ENTER => {
                bump(&t.waits);
                blk_event(t);
                let pct = SPUR_PCT.load(Relaxed);
                if pct != 0 && tl_rand(t) % 100 < u64::from(pct) {
                    bump(&t.spurious);
                    PROGRESS.fetch_add(1, Relaxed);
                    return match tl_rand(t) % 3 {
                        0 => rv::ACT_SPURIOUS_OK,
                        1 => rv::ACT_EINTR,
                        _ => rv::ACT_EAGAIN,
                    };
                }
                if me < MAXT {
                    SLOTS[me].wait_addr.store(addr, Relaxed);
                    SLOTS[me].in_wait.store(1, Relaxed);
                }
                PROGRESS.fetch_add(1, Relaxed);
                rv::ACT_PROCEED
            }
            rv::EV_WAIT_EXIT => {
                if me < MAXT {
                    SLOTS[me].in_wait.store(0, Relaxed);
                }
                PROGRESS.fetch_add(1, Relaxed);
                match res {
                    0 => {
                        // really slept: somebody held the word at the expected value
                        t.blk_ev.set(0);
                        bump(&t.slept);
                    }
                    -11 => bump(&t.eagain),
                    _ => bump(&t.other_ret),
                }
                rv::ACT_PROCEED
            }
            rv::EV_WAKE_ENTER => {
                bump(&t.wake_calls);
                PROGRESS.fetch_add(1, Relaxed);
                if val == i32::MAX as u32 {
                    // rwlock: wake all readers
                    if t.saw213.get() {
                        bump(&t.ho_fallback);
                    } else {
                        bump(&t.ho_readers);
                    }
                    t.saw213.set(false);
                }
                rv::ACT_PROCEED
            }
            _ => {
                PROGRESS.fetch_add(1, Relaxed);
                if res > 0 {
                    t.woken.set(t.woken.get() + res as u64);
                }
                if val == 1 && KIND_RW.load(Relaxed) != 0 {
                    if res > 0 {
                        bump(&t.ho_writer);
                    } else {
                        bump(&t.ho_nowriter);
                    }
                }
                rv::ACT_PROCEED
            }
        }
    })
}

fn pt_index(id: u32) -> usize {
    let i = if id >= 200 { id - 190 } else { id.wrapping_sub(100) } as usize;
    if i < NPT {
        i
    } else {
        NPT - 1
    }
}

fn point_cb(id: u32) {
    TL.with(|t| {
        let i = pt_index(id);
        bump(&t.pts[i]);
        if id == 211 {
            t.saw213.set(false);
        } else if id == 213 {
            t.saw213.set(true);
        }
        blk_event(t);
        if t.blk_ev.get() > 2000 {
            return; // a call that is going round and round is not delayed any further
        }
        if IS_MIRI {
            let pct = PT_YIELD_PCT.load(Relaxed);
            if pct != 0 && tl_rand(t) % 100 < u64::from(pct) {
                std::thread::yield_now();
            }
            return;
        }
        let d = DELAY[i].load(Relaxed);
        let kind = d & 3;
        if kind == 0 {
            return;
        }
        let den = u64::from((d >> 2) & 0xff).max(1);
        if tl_rand(t) % den != 0 {
            return;
        }
        let amount = d >> 10;
        match kind {
            1 => std::thread::yield_now(),
            2 => {
                for _ in 0..amount {
                    std::hint::spin_loop();
                }
            }
            _ => std::thread::sleep(std::time::Duration::from_micros(u64::from(amount))),
        }
    });
}

/// native delay plan: light yields everywhere, a few "hot" points with sleeps / long spins
fn arm_delays(r: &mut Rng, rw: bool) -> String {
    let ids: Vec<u32> = if rw { (200..=216).collect() } else { (100..=106).collect() };
    for d in &DELAY {
        d.store(0, Relaxed);
    }
    let mut desc = String::new();
    if IS_MIRI {
        return desc;
    }
    let light = r.below(3); // 0: nothing, 1: rare yields, 2: frequent yields
    for id in &ids {
        let v = match light {
            0 => 0,
            1 => 1 | (32 << 2),
            _ => 1 | (6 << 2),
        };
        DELAY[pt_index(*id)].store(v, Relaxed);
    }
    let nhot = r.below(4);
    for _ in 0..nhot {
        let id = *r.pick(&ids);
        let den = 1 + r.below(8) as u32;
        let v = if r.chance(1, 2) {
            let us = 5 + r.below(150) as u32;
            let _ = write!(desc, "p{id}:sleep{us}us/{den} ");
            3 | (den << 2) | (us << 10)
        } else {
            let n = 200 + r.below(20_000) as u32;
            let _ = write!(desc, "p{id}:spin{n}/{den} ");
            2 | (den << 2) | (n << 10)
        };
        DELAY[pt_index(id)].store(v, Relaxed);
    }
    let _ = write!(desc, "light{light}");
    desc
}

// ------------------------------------------------------------------------------------------------
// programs
// ------------------------------------------------------------------------------------------------
#[derive(Clone, Copy, Debug, PartialEq, Eq)]
enum Acq {
    Lock,
    Try,
    Read,
    Write,
    TryRead,
    TryWrite,
    /// `{:?}` of the Mutex itself (takes the lock with try_lock for the duration of the formatting)
    Fmt,
}
impl Acq {
    fn is_try(self) -> bool {
        matches!(self, Acq::Try | Acq::TryRead | Acq::TryWrite)
    }
    fn is_excl(self) -> bool {
        !matches!(self, Acq::Read | Acq::TryRead)
    }
    fn mn(self) -> &'static str {
        match self {
            Acq::Lock => "L",
            Acq::Try => "T",
            Acq::Read => "R",
            Acq::Write => "W",
            Acq::TryRead => "TR",
            Acq::TryWrite => "TW",
            Acq::Fmt => "F",
        }
    }
    fn code(self) -> u32 {
        match self {
            Acq::Fmt => 10,
            a => a as u32 + 1,
        }
    }
}

#[derive(Clone, Copy, Debug)]
struct Op {
    a: Acq,
    l: u8,
    h: u8,
    inner: Option<(Acq, u8)>,
    /// format the guard inside the critical section: 0 = no, else sink kind 1..=4 (+8: Display)
    gf: u8,
}
impl Op {
    fn mn(&self) -> String {
        let mut s = String::with_capacity(16);
        s.push_str(self.a.mn());
        s.push((b'0' + self.l) as char);
        s.push(if self.a == Acq::Fmt { 's' } else { 'h' });
        s.push((b'0' + self.h) as char);
        if self.gf != 0 {
            s.push('g');
            s.push((b'0' + (self.gf & 7)) as char);
            if self.gf & 8 != 0 {
                s.push('d');
            }
        }
        if let Some((ia, il)) = self.inner {
            s.push('[');
            s.push_str(ia.mn());
            s.push((b'0' + il) as char);
            s.push(']');
        }
        s
    }
}

fn gen_op(r: &mut Rng, rw: bool, nlocks: usize) -> Op {
    let l = r.below(nlocks as u64) as u8;
    let h = match r.below(8) {
        0 | 1 => 0,
        2..=4 => 1,
        5 | 6 => 2,
        _ => 3,
    };
    let il = if r.chance(1, 2) { l } else { r.below(nlocks as u64) as u8 };
    // one section in six formats its guard (sink kind 1..=4; rwlock guards also have Display)
    let gf = if r.below(6) == 0 { 1 + r.below(4) as u8 + if rw && r.chance(1, 2) { 8 } else { 0 } } else { 0 };
    let op = |a, inner| Op { a, l, h, inner, gf };
    if rw {
        match r.below(20) {
            0..=4 => op(Acq::Read, None),
            5..=9 => op(Acq::Write, None),
            10..=12 => op(Acq::TryRead, None),
            13..=15 => op(Acq::TryWrite, None),
            16 => op(Acq::Read, Some((Acq::TryWrite, il))),
            17 => op(Acq::Read, Some((Acq::TryRead, il))),
            18 => op(Acq::Write, Some((Acq::TryRead, il))),
            _ => op(Acq::Write, Some((Acq::TryWrite, il))),
        }
    } else {
        match r.below(24) {
            0..=9 => op(Acq::Lock, None),
            10..=15 => op(Acq::Try, None),
            16..=19 => op(Acq::Lock, Some((Acq::Try, il))),
            // the holder formats a mutex (its own or the other one)
            20 => op(Acq::Lock, Some((Acq::Fmt, il))),
            // anybody formats the mutex: `h` is the sink kind
            _ => Op { a: Acq::Fmt, l, h: 1 + r.below(4) as u8, inner: None, gf: 0 },
        }
    }
}

struct Prog {
    rw: bool,
    pid: u64,
    nlocks: usize,
    scripts: Vec<Vec<Op>>,
}
impl Prog {
    fn gen(rw: bool, seed: u64, pid: u64) -> Prog {
        let mut r = Rng::new(seed.wrapping_mul(0x9E37_79B9_7F4A_7C15) ^ pid.wrapping_mul(0xD1B5_4A32_D192_ED03) ^ u64::from(rw));
        let nthreads = 2 + r.below(3) as usize;
        let nlocks = if r.below(3) == 0 { 2 } else { 1 };
        let mut scripts = Vec::new();
        for _ in 0..nthreads {
            let n = 2 + r.below(5);
            scripts.push((0..n).map(|_| gen_op(&mut r, rw, nlocks)).collect());
        }
        Prog { rw, pid, nlocks, scripts }
    }
    fn json(&self) -> String {
        let mut s = String::from("[");
        for (i, sc) in self.scripts.iter().enumerate() {
            if i > 0 {
                s.push(',');
            }
            s.push('"');
            for (j, op) in sc.iter().enumerate() {
                if j > 0 {
                    s.push(' ');
                }
                s.push_str(&op.mn());
            }
            s.push('"');
        }
        s.push(']');
        s
    }
}

// ------------------------------------------------------------------------------------------------
// worker
// ------------------------------------------------------------------------------------------------
#[derive(Clone, Copy, Debug)]
struct Rec {
    t: u8,
    a: Acq,
    l: u8,
    ok: bool,
    c: u64,   // stamp taken before the call
    aft: u64, // stamp taken after the call returned
    r: u64,   // stamp taken after the guard's drop returned (== aft for a failed try)
}

enum G<'a> {
    M(MutexGuard<'a, Payload>),
    R(RwLockReadGuard<'a, Payload>),
    W(RwLockWriteGuard<'a, Payload>),
}

#[inline(never)]
fn do_acquire(sh: &Shared, a: Acq, l: usize) -> Option<G<'_>> {
    match a {
        Acq::Lock => Some(G::M(sh.m[l].lock())),
        Acq::Try => sh.m[l].try_lock().map(G::M),
        Acq::Read => Some(G::R(sh.rw[l].read())),
        Acq::Write => Some(G::W(sh.rw[l].write())),
        Acq::TryRead => sh.rw[l].try_read().map(G::R),
        Acq::TryWrite => sh.rw[l].try_write().map(G::W),
        Acq::Fmt => None, // handled by run_fmt_op
    }
}

struct Snap {
    any_opn: u64,
    any_act: u64,
    wr_opn: u64,
    wr_act: u64,
    br_opn: u64,
    br_act: u64,
}

#[derive(Default, Clone, Debug)]
struct WStats {
    acq_excl: [u64; MAXL],
    acq_shared: [u64; MAXL],
    try_ok: u64,
    try_fail: u64,
    online_unjustified: u64,
    panicked_calls: u64,
    fmt_ops: u64,
    ops: u64,
}

struct Worker<'a> {
    t: usize,
    sh: &'a Shared,
    rng: Rng,
    ctr: u64,
    logging: bool,
    online_verdict: bool,
    log: Vec<Rec>,
    ws: WStats,
}

fn hold_unit(rng: &mut Rng) {
    if IS_MIRI {
        std::thread::yield_now();
    } else {
        match rng.below(4) {
            0 => std::thread::yield_now(),
            1 => {
                for _ in 0..rng.below(2000) {
                    std::hint::spin_loop();
                }
            }
            2 => {
                std::thread::yield_now();
                for _ in 0..rng.below(300) {
                    std::hint::spin_loop();
                }
            }
            _ => {
                for _ in 0..rng.below(100) {
                    std::hint::spin_loop();
                }
            }
        }
    }
}

impl<'a> Worker<'a> {
    fn stamp(&mut self) -> u64 {
        self.ctr += 1;
        ((self.t as u64 + 1) << 48) | self.ctr
    }

    fn snap(l: usize) -> Snap {
        // "opened" before "active": a registration (active then opened) missed by the second read
        // is necessarily counted by the later re-read of "opened"
        let any_opn = rd64(&ANY_OPN[l]);
        let wr_opn = rd64(&WR_OPN[l]);
        let br_opn = rd64(&BR_OPN[l]);
        Snap {
            any_opn,
            wr_opn,
            br_opn,
            any_act: rd64(&ANY_ACT[l]),
            wr_act: rd64(&WR_ACT[l]),
            br_act: rd64(&BR_ACT[l]),
        }
    }

    fn run_op(&mut self, op: Op, a: Acq, l: usize, h: u32, inner: Option<(Acq, u8)>, held: Option<(Acq, usize)>) {
        let sh = self.sh;
        let me = self.t;
        self.ws.ops += 1;
        if a == Acq::Fmt {
            self.run_fmt_op(op, l);
            return;
        }
        // must this call fail because this very thread holds a conflicting guard?
        let must_fail = match held {
            Some((ha, hl)) if hl == l => ha.is_excl() || a == Acq::TryWrite,
            _ => false,
        };
        let snap = if a.is_try() { Some(Self::snap(l)) } else { None };
        // open the outer interval(s)
        ANY_ACT[l].fetch_add(1, Relaxed);
        ANY_OPN[l].fetch_add(1, Relaxed);
        if a.is_excl() {
            WR_ACT[l].fetch_add(1, Relaxed);
            WR_OPN[l].fetch_add(1, Relaxed);
        }
        if a == Acq::Read {
            BR_ACT[l].fetch_add(1, Relaxed);
            BR_OPN[l].fetch_add(1, Relaxed);
        }
        SLOTS[me].op.store(a.code() | ((l as u32) << 8), Relaxed);
        PROGRESS.fetch_add(1, Relaxed);
        let c = clk();
        let w0 = tl_waits();
        if !a.is_try() {
            // blocking calls are never nested: a thread in here holds nothing
            SLOTS[me].in_block.store(1, Relaxed);
            TL.with(|t| {
                t.blk_ev.set(0);
                t.blk_ops.set(rd64(&OPS_DONE));
                t.blk.set(a.code() | ((l as u32) << 8));
            });
        }
        let g = std::panic::catch_unwind(std::panic::AssertUnwindSafe(|| do_acquire(sh, a, l)));
        if !a.is_try() {
            TL.with(|t| t.blk.set(0));
            SLOTS[me].in_block.store(0, Relaxed);
        }
        OPS_DONE.fetch_add(1, Relaxed);
        let w1 = tl_waits();
        let aft = clk();
        if a == Acq::Read {
            BR_ACT[l].fetch_sub(1, Relaxed);
        }
        let g = match g {
            Ok(g) => g,
            Err(_) => {
                // the call panicked inside repo code (recorded by the panic hook with the operation's
                // name); it neither returned a guard nor a refusal, so nothing is logged for it
                self.ws.panicked_calls += 1;
                ANY_ACT[l].fetch_sub(1, Relaxed);
                if a.is_excl() {
                    WR_ACT[l].fetch_sub(1, Relaxed);
                }
                SLOTS[me].op.store(0, Relaxed);
                PROGRESS.fetch_add(1, Relaxed);
                return;
            }
        };
        if a.is_try() && w1 != w0 {
            viol(
                &format!("{}/reached-futex-wait", a.mn_long()),
                &format!("{{\"thread\":{me},\"op\":{},\"futex_waits_during_call\":{}}}", vh::js(&op.mn()), w1 - w0),
            );
        }
        match g {
            None => {
                self.ws.try_fail += 1;
                // close the outer interval, then judge
                let s = snap.expect("only try ops fail");
                let any1 = rd64(&ANY_OPN[l]);
                let wr1 = rd64(&WR_OPN[l]);
                let br1 = rd64(&BR_OPN[l]);
                ANY_ACT[l].fetch_sub(1, Relaxed);
                if a.is_excl() {
                    WR_ACT[l].fetch_sub(1, Relaxed);
                }
                let own_wr = u64::from(a.is_excl());
                let justified = match a {
                    Acq::TryRead => s.wr_act > 0 || s.br_act > 0 || wr1 - s.wr_opn > own_wr || br1 > s.br_opn,
                    _ => s.any_act > 0 || any1 - s.any_opn > 1,
                };
                if !justified {
                    self.ws.online_unjustified += 1;
                    // C02's statement does not constrain refusals (fetch_update starts from a Relaxed
                    // load, which may legitimately be stale): counted, not judged, for the rwlock
                    if self.online_verdict && KIND_RW.load(Relaxed) == 0 {
                        viol(
                            &format!("{}/unjustified-failure", a.mn_long()),
                            &format!(
                                "{{\"thread\":{me},\"op\":{},\"mode\":\"online counters\",\"active_before\":{},\"opened_during\":{}}}",
                                vh::js(&op.mn()),
                                s.any_act,
                                any1 - s.any_opn - 1
                            ),
                        );
                    }
                }
                if self.logging {
                    self.log.push(Rec { t: me as u8, a, l: l as u8, ok: false, c, aft, r: aft });
                }
            }
            Some(g) => {
                if a.is_try() {
                    self.ws.try_ok += 1;
                }
                if must_fail {
                    let (ha, _) = held.unwrap();
                    viol(
                        &format!("{}/succeeded-while-{}-held-by-caller", a.mn_long(), if ha.is_excl() { "exclusively" } else { "read" }),
                        &format!("{{\"thread\":{me},\"op\":{}}}", vh::js(&op.mn())),
                    );
                    // do not touch the payload through a second aliasing guard
                    self.release(g, l);
                } else {
                    self.section(g, op, a, l, h, inner);
                }
                let r = clk();
                ANY_ACT[l].fetch_sub(1, Relaxed);
                if a.is_excl() {
                    WR_ACT[l].fetch_sub(1, Relaxed);
                }
                if self.logging {
                    self.log.push(Rec { t: me as u8, a, l: l as u8, ok: true, c, aft, r });
                }
            }
        }
        SLOTS[me].op.store(0, Relaxed);
        PROGRESS.fetch_add(1, Relaxed);
    }

    /// critical section: inner interval = [OCC increment, OCC decrement]
    fn section(&mut self, mut g: G<'a>, op: Op, a: Acq, l: usize, h: u32, inner: Option<(Acq, u8)>) {
        let me = self.t;
        let excl = a.is_excl();
        let prev = OCC[l].fetch_add(if excl { 1 << 16 } else { 1 }, Relaxed);
        if excl && prev != 0 {
            viol(
                if a == Acq::Lock || a == Acq::Try { "guard/two-guards-alive" } else { "guard/writer-with-other-guard" },
                &format!(
                    "{{\"thread\":{me},\"op\":{},\"lock\":{l},\"readers_inside\":{},\"exclusive_inside\":{}}}",
                    vh::js(&op.mn()),
                    prev & 0xffff,
                    prev >> 16
                ),
            );
        }
        if !excl && (prev >> 16) != 0 {
            viol(
                "guard/reader-with-writer",
                &format!("{{\"thread\":{me},\"op\":{},\"lock\":{l},\"exclusive_inside\":{}}}", vh::js(&op.mn()), prev >> 16),
            );
        }
        if !excl && (prev & 0xffff) != 0 {
            TL.with(|t| bump(&t.shared_reads));
        }
        let mine;
        let seen0;
        match &mut g {
            G::M(gg) => {
                mine = self.stamp();
                seen0 = self.excl_entry(&mut **gg, mine, l, &op);
            }
            G::W(gg) => {
                mine = self.stamp();
                seen0 = self.excl_entry(&mut **gg, mine, l, &op);
            }
            G::R(gg) => {
                mine = 0;
                let exp = rd64(&MON_LAST[l]);
                let expc = rd64(&MON_CNT[l]);
                let (s, c, ok) = payload_read(&**gg);
                seen0 = s;
                if s != exp || c != expc || !ok {
                    viol(
                        "visibility/reader-sees-stale-or-torn-value",
                        &format!(
                            "{{\"thread\":{me},\"op\":{},\"lock\":{l},\"seen_stamp\":{s},\"latest_writer_stamp\":{exp},\"seen_count\":{c},\"writes_so_far\":{expc},\"consistent\":{ok}}}",
                            vh::js(&op.mn())
                        ),
                    );
                }
                self.ws.acq_shared[l] += 1;
            }
        }
        if op.gf != 0 {
            // format the guard (Debug, for rwlock guards also Display) into the chosen sink; whatever
            // the sink does, the guard stays what it was - the monitors below and the other threads'
            // monitors keep judging that
            let sink = self.pick_sink(op.gf);
            let display = op.gf & 8 != 0;
            let saved = SLOTS[me].op.load(Relaxed);
            SLOTS[me].op.store(11 | ((l as u32) << 8), Relaxed);
            let w0 = tl_waits();
            let _ = run_fmt(sink, &|w| match &g {
                G::M(gg) => write!(w, "{gg:?}"),
                G::R(gg) if display => write!(w, "{gg}"),
                G::R(gg) => write!(w, "{gg:?}"),
                G::W(gg) if display => write!(w, "{gg}"),
                G::W(gg) => write!(w, "{gg:?}"),
            });
            if tl_waits() != w0 {
                viol("guard-fmt/reached-futex-wait", &format!("{{\"thread\":{me},\"op\":{}}}", vh::js(&op.mn())));
            }
            self.ws.fmt_ops += 1;
            SLOTS[me].op.store(saved, Relaxed);
        }
        let h1 = h / 2;
        for _ in 0..h1 {
            hold_unit(&mut self.rng);
        }
        if let Some((ia, il)) = inner {
            let iop = Op { a: ia, l: il, h: if ia == Acq::Fmt { 1 + self.rng.below(4) as u8 } else { 0 }, inner: None, gf: 0 };
            self.run_op(iop, ia, il as usize, 0, None, Some((a, l)));
        }
        for _ in h1..h {
            hold_unit(&mut self.rng);
        }
        // the payload must still be what this holder wrote / saw
        let (s, _, ok) = match &g {
            G::M(gg) => payload_read(gg),
            G::W(gg) => payload_read(gg),
            G::R(gg) => payload_read(gg),
        };
        let want = if excl { mine } else { seen0 };
        if s != want || !ok {
            viol(
                "visibility/value-changed-while-guard-held",
                &format!("{{\"thread\":{me},\"op\":{},\"lock\":{l},\"seen_stamp\":{s},\"expected\":{want},\"consistent\":{ok}}}", vh::js(&op.mn())),
            );
        }
        OCC[l].fetch_sub(if excl { 1 << 16 } else { 1 }, Relaxed);
        self.release(g, l);
    }

    /// drop the guard; a panic inside the unlock path is recorded by the hook under "unlock"
    fn release(&mut self, g: G<'a>, l: usize) {
        let code = match &g {
            G::M(_) => 7,
            G::R(_) => 8,
            G::W(_) => 9,
        };
        SLOTS[self.t].op.store(code | ((l as u32) << 8), Relaxed);
        if std::panic::catch_unwind(std::panic::AssertUnwindSafe(move || drop(g))).is_err() {
            self.ws.panicked_calls += 1;
        }
        OPS_DONE.fetch_add(1, Relaxed);
    }

    fn pick_sink(&mut self, kind: u8) -> Sink {
        match kind & 7 {
            1 => Sink::Str,
            2 => Sink::Fixed(self.rng.below(110) as usize),
            3 => Sink::FailErr,
            _ => Sink::FailPanic,
        }
    }

    /// `{:?}` of the mutex itself, by a holder or a bystander. The implementation may take the lock for
    /// the duration (try_lock), so for everybody else's books this is an outer interval like a try_lock
    /// that may have succeeded; it must never block, and afterwards the formatter holds nothing (judged
    /// exactly in the single-threaded phases, where nobody else can hold).
    fn run_fmt_op(&mut self, op: Op, l: usize) {
        let sh = self.sh;
        let me = self.t;
        ANY_ACT[l].fetch_add(1, Relaxed);
        ANY_OPN[l].fetch_add(1, Relaxed);
        WR_ACT[l].fetch_add(1, Relaxed);
        WR_OPN[l].fetch_add(1, Relaxed);
        let saved = SLOTS[me].op.load(Relaxed);
        SLOTS[me].op.store(Acq::Fmt.code() | ((l as u32) << 8), Relaxed);
        PROGRESS.fetch_add(1, Relaxed);
        let sink = self.pick_sink(op.h);
        let c = clk();
        let w0 = tl_waits();
        let (_ok, _panicked, _n) = run_fmt(sink, &|w| write!(w, "{:?}", sh.m[l]));
        let w1 = tl_waits();
        let aft = clk();
        OPS_DONE.fetch_add(1, Relaxed);
        self.ws.fmt_ops += 1;
        if w1 != w0 {
            viol(
                "debug-fmt/reached-futex-wait",
                &format!("{{\"thread\":{me},\"op\":{},\"futex_waits_during_call\":{}}}", vh::js(&op.mn()), w1 - w0),
            );
        }
        ANY_ACT[l].fetch_sub(1, Relaxed);
        WR_ACT[l].fetch_sub(1, Relaxed);
        if self.logging {
            self.log.push(Rec { t: me as u8, a: Acq::Fmt, l: l as u8, ok: true, c, aft, r: aft });
        }
        SLOTS[me].op.store(saved, Relaxed);
        PROGRESS.fetch_add(1, Relaxed);
    }

    fn excl_entry(&mut self, p: &mut Payload, mine: u64, l: usize, op: &Op) -> u64 {
        let prev_mon = MON_LAST[l].swap(mine, Relaxed);
        let n = MON_CNT[l].fetch_add(1, Relaxed);
        let (seen, cnt, ok) = payload_write(p, mine);
        if seen != prev_mon || cnt != n || !ok {
            viol(
                "visibility/predecessor-write-not-seen",
                &format!(
                    "{{\"thread\":{},\"op\":{},\"lock\":{l},\"seen_stamp\":{seen},\"predecessor_stamp\":{prev_mon},\"seen_count\":{cnt},\"exclusive_entries_before\":{n},\"consistent\":{ok}}}",
                    self.t,
                    vh::js(&op.mn())
                ),
            );
        }
        self.ws.acq_excl[l] += 1;
        seen
    }
}

impl Acq {
    fn mn_long(self) -> &'static str {
        match self {
            Acq::Lock => "lock",
            Acq::Try => "try_lock",
            Acq::Read => "read",
            Acq::Write => "write",
            Acq::TryRead => "try_read",
            Acq::TryWrite => "try_write",
            Acq::Fmt => "debug-fmt",
        }
    }
}

// ------------------------------------------------------------------------------------------------
// panic capture (a panic inside repo code is a finding, one inside the harness is a harness bug)
// ------------------------------------------------------------------------------------------------
static PANICS: std::sync::Mutex<Vec<(String, u32, String, &'static str)>> = std::sync::Mutex::new(Vec::new());
const OP_NAMES: [&str; 12] = ["-", "lock", "try_lock", "read", "write", "try_read", "try_write", "unlock", "read_unlock", "write_unlock", "debug-fmt", "guard-fmt"];
fn install_panic_hook() {
    std::panic::set_hook(Box::new(|info| {
        let (f, l) = info.location().map_or(("?".to_string(), 0), |l| (l.file().to_string(), l.line()));
        let msg = if let Some(s) = info.payload().downcast_ref::<&str>() {
            (*s).to_string()
        } else if let Some(s) = info.payload().downcast_ref::<String>() {
            s.clone()
        } else {
            "non-string panic".to_string()
        };
        if msg == "payload formatting panics on request" && TL.with(|t| t.expect_panic.get()) {
            return; // the payload's formatting was asked to panic
        }
        if EXPECT_LIMIT_PANIC.load(Relaxed) != 0 && msg.starts_with(LIMIT_PANIC_MSG) {
            LIMIT_PANICS_SEEN.fetch_add(1, Relaxed);
            return; // documented refusal of read() with the maximum number of readers held
        }
        let me = TL.with(|t| t.me.get());
        let op = if me < MAXT { OP_NAMES[((SLOTS[me].op.load(Relaxed) & 0xff) as usize).min(OP_NAMES.len() - 1)] } else { "-" };
        if let Ok(mut p) = PANICS.lock() {
            p.push((f, l, msg, op));
        }
    }));
}
/// returns true when a panic came from the harness itself (logs are then incomplete)
fn report_panics(ctx: &dyn std::fmt::Display) -> bool {
    let ps: Vec<_> = PANICS.lock().map(|mut p| std::mem::take(&mut *p)).unwrap_or_default();
    let mut harness = false;
    for (f, l, msg, op) in ps {
        let in_repo = (f.contains("tiny-std/src/") || f.contains("rusl/src/")) && !f.contains("h_locks");
        if in_repo {
            let class: String = msg.chars().take(40).map(|c| if c.is_alphanumeric() { c } else { '-' }).collect();
            viol(
                &format!("{op}/panic/{class}"),
                &format!("{{\"file\":{},\"line\":{l},\"message\":{},\"operation\":\"{op}\",\"run\":{ctx}}}", vh::js(&f), vh::js(&msg)),
            );
        } else {
            harness = true;
            vh::inconclusive(&format!("harness panic at {f}:{l}: {msg} ({ctx})"));
        }
    }
    harness
}

// ------------------------------------------------------------------------------------------------
// native deadlock watchdog
// ------------------------------------------------------------------------------------------------
#[cfg(not(miri))]
extern "C" {
    fn syscall(num: i64, ...) -> i64;
}
#[cfg(not(miri))]
fn gettid() -> u32 {
    unsafe { syscall(186) as u32 }
}
#[cfg(miri)]
fn gettid() -> u32 {
    0
}

static WD_CTX: std::sync::Mutex<String> = std::sync::Mutex::new(String::new());

#[cfg(not(miri))]
fn watchdog() {
    let mut prev: Option<(u64, u64, u64)> = None;
    let mut since = std::time::Instant::now();
    let stall_ms: u64 = std::env::var("HL_STALL_MS").ok().and_then(|s| s.parse().ok()).unwrap_or(30_000);
    let mut last_ops = (u64::MAX, u64::MAX);
    let mut ops_since = std::time::Instant::now();
    loop {
        std::thread::sleep(std::time::Duration::from_millis(70));
        // wall-clock bound (never a verdict): threads are live but no operation of any thread completed
        // for a long time - whether they are parked or runnable. Ends the process so that a run always ends.
        let od = (EXEC_ID.load(Relaxed), OPS_DONE.load(Relaxed));
        let any_live = SLOTS.iter().any(|s| s.live.load(Relaxed) != 0);
        if od != last_ops || !any_live {
            last_ops = od;
            ops_since = std::time::Instant::now();
        } else if ops_since.elapsed() > std::time::Duration::from_millis(stall_ms) {
            let mut st = String::new();
            for (i, s) in SLOTS.iter().enumerate() {
                if s.live.load(Relaxed) != 0 {
                    let op = s.op.load(Relaxed);
                    let _ = write!(st, " thread {i}: {} lock {} {};", OP_NAMES[((op & 0xff) as usize).min(OP_NAMES.len() - 1)], op >> 8,
                        if s.in_wait.load(Relaxed) != 0 { "parked in futex wait" } else { "runnable" });
                }
            }
            let ctx = WD_CTX.lock().map(|c| c.clone()).unwrap_or_default();
            vh::inconclusive(&format!("watchdog: no operation completed for {stall_ms} ms with live threads (wall-clock bound, no verdict):{st} run {ctx}"));
            use std::io::Write;
            let _ = std::io::stdout().flush();
            std::process::exit(4);
        }
        let ex = EXEC_ID.load(Relaxed);
        let pr = PROGRESS.load(Relaxed);
        let mut live = 0u64;
        let mut mask = 0u64;
        let mut all_wait = true;
        let mut try_parked: Option<&'static str> = None;
        for (i, s) in SLOTS.iter().enumerate() {
            if s.live.load(Relaxed) != 0 {
                live += 1;
                if s.in_wait.load(Relaxed) != 0 {
                    mask |= 1 << i;
                    let code = (s.op.load(Relaxed) & 0xff) as usize;
                    if code == 2 || code == 5 || code == 6 || code == 10 || code == 11 {
                        try_parked = Some(OP_NAMES[code]);
                    }
                } else {
                    all_wait = false;
                }
            }
        }
        let occ: u32 = OCC.iter().map(|o| o.load(Relaxed)).sum();
        // nobody inside a critical section - unless a try_* call itself is parked (it may be nested in one)
        let cand = live > 0 && all_wait && (occ == 0 || try_parked.is_some());
        let key = (ex, pr, mask);
        if !cand {
            prev = None;
            continue;
        }
        if prev != Some(key) {
            prev = Some(key);
            since = std::time::Instant::now();
            continue;
        }
        if since.elapsed() < std::time::Duration::from_millis(250) {
            continue;
        }
        // same execution, no hook event in between, every live worker between WAIT_ENTER and WAIT_EXIT,
        // nobody inside a critical section. Confirm with the kernel's view of each thread.
        let mut in_kernel = true;
        let mut threads = String::from("[");
        for (i, s) in SLOTS.iter().enumerate() {
            if s.live.load(Relaxed) == 0 {
                continue;
            }
            let tid = s.tid.load(Relaxed);
            let sc = std::fs::read_to_string(format!("/proc/self/task/{tid}/syscall")).unwrap_or_default();
            let f: Vec<&str> = sc.split_whitespace().collect();
            let is_futex_wait = f.len() >= 3 && f[0] == "202" && (u64::from_str_radix(f[2].trim_start_matches("0x"), 16).unwrap_or(99) & 0x7f) == 0;
            if !is_futex_wait {
                in_kernel = false;
            }
            let op = s.op.load(Relaxed);
            let opn = OP_NAMES[((op & 0xff) as usize).min(OP_NAMES.len() - 1)];
            if threads.len() > 1 {
                threads.push(',');
            }
            let _ = write!(threads, "{{\"thread\":{i},\"blocked_in\":\"{opn}\",\"lock\":{},\"kernel\":{}}}", op >> 8, vh::js(sc.trim()));
        }
        threads.push(']');
        if !in_kernel || PROGRESS.load(Relaxed) != pr || EXEC_ID.load(Relaxed) != ex {
            prev = None;
            continue;
        }
        let ctx = WD_CTX.lock().map(|c| c.clone()).unwrap_or_default();
        let sig = match try_parked {
            Some(op) => format!("{}/{op}/blocked-in-futex-wait", kind_id()),
            None => format!("{}/deadlock/all-parked", kind_id()),
        };
        vh::viol(
            &sig,
            &format!(
                "{{\"what\":\"every live thread is blocked in futex wait{}, no hook event for 250 ms\",\"threads\":{threads},\"run\":{}}}",
                if try_parked.is_some() { " and one of them is inside a try_* call" } else { ", no guard is held" },
                if ctx.is_empty() { "null".to_string() } else { ctx }
            ),
        );
        use std::io::Write;
        let _ = std::io::stdout().flush();
        std::process::exit(3);
    }
}

// ------------------------------------------------------------------------------------------------
// one execution of a program
// ------------------------------------------------------------------------------------------------
struct ExecOut {
    recs: Vec<Rec>,
    ts: Vec<TStats>,
    ws: Vec<WStats>,
    sig: u64,
    parked: u64,
    try_fail: u64,
    unexplained_refusals: u64,
    not_judged_weak: u64,
}

fn reset_monitor() {
    for l in 0..MAXL {
        OCC[l].store(0, Relaxed);
        MON_LAST[l].store(0, Relaxed);
        MON_CNT[l].store(0, Relaxed);
        for a in [&ANY_ACT, &ANY_OPN, &WR_ACT, &WR_OPN, &BR_ACT, &BR_OPN] {
            a[l].store(0, Relaxed);
        }
    }
    for s in &SLOTS {
        s.live.store(0, Relaxed);
        s.in_wait.store(0, Relaxed);
        s.in_block.store(0, Relaxed);
        s.op.store(0, Relaxed);
    }
    ARRIVED.store(0, Relaxed);
    STOP.store(0, Relaxed);
    EXEC_ID.fetch_add(1, Relaxed);
}

/// All workers have been joined, so nobody holds or waits. The main thread (slot `n`, watched by the
/// deadlock oracles like any worker) must get every lock: a refusal or a park here means that a
/// holder count or a waiting bit leaked.
fn quiescence(sh: &Shared, n: usize, rw: bool, nlocks: usize, seed: u64, logging: bool, online_verdict: bool) -> Option<(Vec<Rec>, WStats, TStats)> {
    tl_reset(n, seed ^ 0x5151);
    SLOTS[n].tid.store(gettid(), Relaxed);
    SLOTS[n].live.store(1, Relaxed);
    let r = std::panic::catch_unwind(std::panic::AssertUnwindSafe(|| {
        let mut w = Worker { t: n, sh, rng: Rng::new(seed), ctr: 0, logging, online_verdict, log: Vec::new(), ws: WStats::default() };
        for l in 0..nlocks {
            let seq: &[Acq] = if rw { &[Acq::TryWrite, Acq::TryRead, Acq::Read, Acq::Write] } else { &[Acq::Try, Acq::Lock] };
            for &a in seq {
                let op = Op { a, l: l as u8, h: 0, inner: None, gf: 0 };
                w.run_op(op, a, l, 0, None, None);
            }
            if !rw {
                // nobody else exists: formatting the mutex must leave it exactly as it was
                let kinds: &[u8] = if IS_MIRI { &[2] } else { &[1, 2, 3, 4] };
                for &k in kinds {
                    let sink = if IS_MIRI && seed & 1 == 0 { Sink::FailErr } else { w.pick_sink(k) };
                    fmt_leaves_unlocked(&sh.m[l], sink, "quiescence");
                    w.ws.fmt_ops += 1;
                }
            }
        }
        (w.log, w.ws)
    }));
    SLOTS[n].live.store(0, Relaxed);
    r.ok().map(|(log, ws)| (log, ws, tl_take()))
}

/// Single-threaded probe "is this mutex free?". A lock that was left held refuses every time; a
/// try_lock that merely refuses now and then (nobody holds: that is its own violation) is reported
/// as such and not blamed on the operation under test.
fn mutex_free(m: &Mutex<Payload>) -> bool {
    for i in 0..400 {
        if let Some(g) = m.try_lock() {
            drop(g);
            if i > 0 {
                viol(
                    "try_lock/unjustified-failure",
                    &format!("{{\"what\":\"single thread, no guard exists: try_lock refused {i} time(s), then succeeded\"}}"),
                );
            }
            return true;
        }
    }
    false
}
fn rwlock_free(l: &RwLock<Payload>) -> bool {
    // refusals of try_write are not constrained by C02; only a lock that never opens is "held"
    (0..400).any(|_| l.try_write().is_some())
}

/// Single-threaded: the mutex is free before; format it; it must be free afterwards.
fn fmt_leaves_unlocked(m: &Mutex<Payload>, sink: Sink, phase: &str) -> bool {
    if !mutex_free(m) {
        return false; // not free to begin with: somebody else's fault, reported elsewhere
    }
    let (ok, panicked, n) = run_fmt(sink, &|w| write!(w, "{m:?}"));
    OPS_DONE.fetch_add(1, Relaxed);
    match mutex_free(m) {
        true => true,
        false => {
            viol(
                "debug-fmt/lock-left-held",
                &format!(
                    "{{\"what\":\"single thread: try_lock succeeded, the mutex was formatted with {{:?}}, try_lock fails although no guard exists\",\"sink\":{},\"formatting_returned_ok\":{ok},\"formatting_panicked\":{panicked},\"bytes_written\":{n},\"phase\":\"{phase}\"}}",
                    vh::js(&format!("{sink:?}"))
                ),
            );
            false
        }
    }
}

/// The rest of the public surface, single-threaded with exact post-conditions; every formatting entry
/// point is driven into a fixed-size sink that runs full at every byte position (a stride under Miri),
/// into a String, and with a payload whose formatting returns Err / panics, on free and on held locks.
/// At HEAD the surface is: Mutex {new, lock, try_lock, get_mut, into_inner, Default, Debug},
/// MutexGuard {Deref, DerefMut, Drop, Debug}, RwLock {new, read, try_read, write, try_write, get_mut,
/// into_inner}, RwLock{Read,Write}Guard {Deref, (DerefMut), Drop, Debug, Display}.
fn surface_battery(rw: bool) -> u64 {
    let mut cases = 0u64;
    let stride = if IS_MIRI { 9 } else { 1 };
    let mut sinks: Vec<Sink> = vec![Sink::Str, Sink::FailErr, Sink::FailPanic];
    let stamp = 0x00AB_0000_0000_0001u64;
    let mut probe = Payload::new();
    payload_write(&mut probe, stamp);
    if !rw {
        let mut m: Mutex<Payload> = Mutex::default();
        if !mutex_free(&m) {
            viol("default/not-unlocked", "{\"what\":\"Mutex::default() cannot be locked\"}");
            return cases;
        }
        payload_write(m.get_mut(), stamp);
        let full = format!("{m:?}").len();
        sinks.extend((0..=full + 1).step_by(stride).map(Sink::Fixed));
        sinks.push(Sink::Fixed(full));
        if mutex_free(&m) {
            if payload_read(&m.lock()).0 != stamp {
                viol("get_mut/value-mismatch", "{\"what\":\"a value written through get_mut is not what the next guard sees\"}");
            }
        } else {
            viol("get_mut/lock-left-held", "{\"what\":\"try_lock fails after get_mut on a fresh mutex\"}");
        }
        for &sink in &sinks {
            cases += 3;
            // (1) free mutex
            if !fmt_leaves_unlocked(&m, sink, "battery, free mutex") {
                return cases;
            }
            // (2) held by the formatting thread itself: neither blocks nor changes anything
            let g = m.lock();
            let _ = run_fmt(sink, &|w| write!(w, "{m:?}"));
            if m.try_lock().is_some() {
                viol("debug-fmt/lock-released-under-holder", &format!("{{\"sink\":{}}}", vh::js(&format!("{sink:?}"))));
                return cases;
            }
            // (3) the guard's own Debug
            let _ = run_fmt(sink, &|w| write!(w, "{g:?}"));
            if m.try_lock().is_some() || payload_read(&g).0 != stamp {
                viol("guard-fmt/lock-released", &format!("{{\"guard\":\"MutexGuard\",\"sink\":{}}}", vh::js(&format!("{sink:?}"))));
                return cases;
            }
            drop(g);
            if !mutex_free(&m) {
                viol("debug-fmt/lock-left-held", &format!("{{\"what\":\"after the holder formatted mutex and guard and dropped the guard\",\"sink\":{}}}", vh::js(&format!("{sink:?}"))));
                return cases;
            }
        }
        // (4) held by another thread while this one formats (prints a placeholder, takes nothing)
        if !IS_MIRI {
            let g = m.lock();
            std::thread::scope(|s| {
                s.spawn(|| {
                    for &sink in sinks.iter().step_by(7) {
                        let _ = run_fmt(sink, &|w| write!(w, "{m:?}"));
                    }
                });
            });
            if payload_read(&g).0 != stamp || m.try_lock().is_some() {
                viol("debug-fmt/lock-released-under-holder", "{\"what\":\"another thread formatted the held mutex\"}");
            }
            drop(g);
            cases += 1;
        }
        if !mutex_free(&m) {
            viol("debug-fmt/lock-left-held", "{\"what\":\"end of the formatting battery\"}");
            return cases;
        }
        let v = m.into_inner();
        if v.stamp != stamp {
            viol("into_inner/value-mismatch", "{\"what\":\"into_inner returned a different value than the guards saw\"}");
        }
        cases += 1;
    } else {
        let mut l: RwLock<Payload> = RwLock::new(Payload::new());
        payload_write(l.get_mut(), stamp);
        let full = format!("{probe:?}").len();
        sinks.extend((0..=full + 1).step_by(stride).map(Sink::Fixed));
        if rwlock_free(&l) {
            if payload_read(&l.read()).0 != stamp {
                viol("get_mut/value-mismatch", "{\"what\":\"a value written through get_mut is not what the next guard sees\"}");
            }
        } else {
            viol("get_mut/lock-left-held", "{\"what\":\"try_write never succeeds after get_mut on a fresh lock\"}");
        }
        for &sink in &sinks {
            for display in [false, true] {
                cases += 2;
                let g = l.read();
                let _ = run_fmt(sink, &|w| if display { write!(w, "{g}") } else { write!(w, "{g:?}") });
                // still read-locked by exactly this guard: no writer admitted, another reader is
                let w_ok = l.try_write().is_some();
                let r_ok = (0..400).any(|_| l.try_read().is_some()); // a refusal is not constrained, "never" is
                if w_ok || !r_ok || payload_read(&g).0 != stamp {
                    viol("guard-fmt/lock-state-changed", &format!("{{\"guard\":\"RwLockReadGuard\",\"display\":{display},\"sink\":{},\"try_write_admitted\":{w_ok},\"try_read_admitted\":{r_ok}}}", vh::js(&format!("{sink:?}"))));
                    return cases;
                }
                drop(g);
                let g = l.write();
                let _ = run_fmt(sink, &|w| if display { write!(w, "{g}") } else { write!(w, "{g:?}") });
                let w_ok = l.try_write().is_some();
                let r_ok = l.try_read().is_some();
                if w_ok || r_ok || payload_read(&g).0 != stamp {
                    viol("guard-fmt/lock-state-changed", &format!("{{\"guard\":\"RwLockWriteGuard\",\"display\":{display},\"sink\":{},\"try_write_admitted\":{w_ok},\"try_read_admitted\":{r_ok}}}", vh::js(&format!("{sink:?}"))));
                    return cases;
                }
                drop(g);
                if !rwlock_free(&l) {
                    viol("guard-fmt/lock-left-held", &format!("{{\"display\":{display},\"sink\":{}}}", vh::js(&format!("{sink:?}"))));
                    return cases;
                }
            }
        }
        let v = l.into_inner();
        if v.stamp != stamp {
            viol("into_inner/value-mismatch", "{\"what\":\"into_inner returned a different value than the guards saw\"}");
        }
        cases += 1;
    }
    cases
}

/// After an execution, with every thread joined: the owner's view (get_mut / into_inner) must be the
/// value the last guard left, and taking it must leave the lock free.
fn owner_view(sh: Arc<Shared>, rw: bool, nlocks: usize, ctx: &dyn fmt::Display) {
    let Ok(mut sh) = Arc::try_unwrap(sh) else {
        return;
    };
    for l in 0..nlocks {
        let last = rd64(&MON_LAST[l]);
        let mon = rd64(&MON_CNT[l]);
        let (s, c, ok) = if rw { payload_read(sh.rw[l].get_mut()) } else { payload_read(sh.m[l].get_mut()) };
        let free = if rw { rwlock_free(&sh.rw[l]) } else { mutex_free(&sh.m[l]) };
        if s != last || c != mon || !ok {
            viol("get_mut/value-mismatch", &format!("{{\"lock\":{l},\"stamp\":{s},\"last_writer_stamp\":{last},\"count\":{c},\"exclusive_sections\":{mon},\"run\":{ctx}}}"));
        }
        if !free {
            viol("get_mut/lock-left-held", &format!("{{\"lock\":{l},\"run\":{ctx}}}"));
        }
    }
    let Shared { m, rw: rws } = sh;
    if rw {
        for (l, x) in rws.into_iter().enumerate().take(nlocks) {
            let v = x.into_inner();
            if v.stamp != rd64(&MON_LAST[l]) || v.count != rd64(&MON_CNT[l]) {
                viol("into_inner/value-mismatch", &format!("{{\"lock\":{l},\"run\":{ctx}}}"));
            }
        }
    } else {
        for (l, x) in m.into_iter().enumerate().take(nlocks) {
            let v = x.into_inner();
            if v.stamp != rd64(&MON_LAST[l]) || v.count != rd64(&MON_CNT[l]) {
                viol("into_inner/value-mismatch", &format!("{{\"lock\":{l},\"run\":{ctx}}}"));
            }
        }
    }
}

fn fnv(h: &mut u64, v: u64) {
    for i in 0..8 {
        *h ^= (v >> (8 * i)) & 0xff;
        *h = h.wrapping_mul(0x0000_0100_0000_01B3);
    }
}

fn run_exec(p: &Prog, run_seed: u64, ctx: &dyn std::fmt::Display) -> ExecOut {
    reset_monitor();
    let n = p.scripts.len();
    let sh = Arc::new(Shared::new());
    for s in SLOTS.iter().take(n) {
        s.live.store(1, Relaxed);
    }
    if !IS_MIRI {
        if let Ok(mut c) = WD_CTX.lock() {
            *c = ctx.to_string();
        }
    }
    let mut hs = Vec::new();
    for t in 0..n {
        let sh = sh.clone();
        let script = p.scripts[t].clone();
        let seed = run_seed ^ (t as u64 + 1).wrapping_mul(0xA24B_AED4_963E_E407);
        hs.push(std::thread::spawn(move || {
            tl_reset(t, seed);
            SLOTS[t].tid.store(gettid(), Relaxed);
            let r = std::panic::catch_unwind(std::panic::AssertUnwindSafe(|| {
                let mut w = Worker {
                    t,
                    sh: &sh,
                    rng: Rng::new(seed),
                    ctr: 0,
                    logging: true,
                    online_verdict: false,
                    log: Vec::with_capacity(16),
                    ws: WStats::default(),
                };
                if !IS_MIRI {
                    ARRIVED.fetch_add(1, Relaxed);
                    let mut spins = 0u32;
                    while (rd32(&ARRIVED) as usize) < n && spins < 2_000_000 {
                        std::hint::spin_loop();
                        spins += 1;
                        if spins % 256 == 0 {
                            std::thread::yield_now();
                        }
                    }
                }
                for op in script {
                    w.run_op(op, op.a, op.l as usize, u32::from(op.h), op.inner, None);
                }
                (w.log, w.ws)
            }));
            SLOTS[t].live.store(0, Relaxed);
            OPS_DONE.fetch_add(1, Relaxed);
            PROGRESS.fetch_add(1, Relaxed);
            (r.ok(), tl_take())
        }));
    }
    let mut out = ExecOut { recs: Vec::new(), ts: Vec::new(), ws: Vec::new(), sig: 0, parked: 0, try_fail: 0, unexplained_refusals: 0, not_judged_weak: 0 };
    let mut incomplete = false;
    for h in hs {
        match h.join() {
            Ok((Some((log, ws)), ts)) => {
                out.recs.extend(log);
                out.ws.push(ws);
                out.ts.push(ts);
            }
            Ok((None, ts)) => {
                incomplete = true;
                out.ws.push(WStats::default());
                out.ts.push(ts);
            }
            Err(_) => {
                incomplete = true;
                out.ws.push(WStats::default());
                out.ts.push(TStats::default());
            }
        }
    }
    let panicked = report_panics(ctx) || incomplete;
    if incomplete {
        vh::inconclusive(&format!("harness: a worker thread died, logs incomplete ({ctx})"));
    }

    // ---- quiescence phase on the main thread (slot n): nobody holds anything now -------------------
    if !panicked {
        if let Some((log, ws, ts)) = quiescence(&sh, n, p.rw, p.nlocks, run_seed, true, false) {
            out.recs.extend(log);
            out.ws.push(ws);
            out.ts.push(ts);
        }
        report_panics(ctx);
    }

    // ---- offline checks over the joined logs ------------------------------------------------------
    // (1) every failed try_* is explained by an overlapping outer interval
    for f in out.recs.iter().filter(|r| !r.ok) {
        out.try_fail += 1;
        if panicked {
            continue;
        }
        let just = out.recs.iter().any(|o| {
            if !o.ok || o.l != f.l || (o.c == f.c && o.t == f.t) {
                return false;
            }
            match f.a {
                // refused reader: a writer's whole outer interval, or a blocking read() call in progress
                Acq::TryRead => (o.a.is_excl() && o.c < f.aft && o.r > f.c) || (o.a == Acq::Read && o.c < f.aft && o.aft > f.c),
                _ => o.c < f.aft && o.r > f.c,
            }
        });
        if !just && p.rw {
            // observation only: the statement of C02 does not constrain refusals, and try_read/try_write
            // decide on a Relaxed load that may be stale
            out.unexplained_refusals += 1;
        } else if !just {
            // No interval overlaps in the monitor's (totally ordered) stamps. Under Miri's weak-memory
            // emulation that is a refutation only if every earlier holder's release provably
            // happens-before the failed call: otherwise a Relaxed load inside try_lock may legitimately
            // still see the held word (the holding instant is concurrent with the call in the memory
            // model). Provable: the caller released it itself (program order); the caller is the main
            // thread after joining everybody; or the caller itself acquired this lock after that
            // release (every hand-over of the word is a release/acquire RMW pair). Natively (x86-TSO,
            // locked RMW stamps around the call) the stamp rule alone is sound.
            let ordered = !IS_MIRI
                || usize::from(f.t) == n
                || out.recs.iter().filter(|o| o.ok && o.l == f.l && o.t != f.t && o.r < f.c).all(|o| {
                    out.recs.iter().any(|q| q.ok && q.t == f.t && q.l == f.l && matches!(q.a, Acq::Lock | Acq::Try) && q.c > o.r && q.aft < f.c)
                });
            if !ordered {
                out.not_judged_weak += 1;
                continue;
            }
            viol(
                &format!("{}/unjustified-failure", f.a.mn_long()),
                &format!(
                    "{{\"thread\":{},\"lock\":{},\"call\":[{},{}],\"what\":\"no other call's outer interval on this lock overlaps the failed call{}\",\"run\":{ctx}}}",
                    f.t, f.l, f.c, f.aft,
                    if IS_MIRI { ", and every earlier release of this lock happens-before the call (own release, own later acquisition, or all threads joined)" } else { "" }
                ),
            );
        }
    }
    let online: u64 = out.ws.iter().map(|w| w.online_unjustified).sum();
    if online > 0 && VIOLS.load(Relaxed) == 0 && !panicked && !p.rw && out.not_judged_weak == 0 {
        vh::inconclusive(&format!("harness: online try-justification fired {online}x but the exact offline check did not ({ctx})"));
    }
    // (2) final value: count == number of exclusive sections (three independent counts)
    if !panicked {
        for l in 0..p.nlocks {
            let mine: u64 = out.ws.iter().map(|w| w.acq_excl[l]).sum();
            let mon = rd64(&MON_CNT[l]);
            let last = rd64(&MON_LAST[l]);
            let (s, c) = if p.rw {
                match sh.rw[l].try_read() {
                    Some(g) => {
                        let (s, c, _) = payload_read(&g);
                        (s, c)
                    }
                    None => (last, mon), // already reported by the quiescence phase
                }
            } else {
                match sh.m[l].try_lock() {
                    Some(g) => {
                        let (s, c, _) = payload_read(&g);
                        (s, c)
                    }
                    None => (last, mon),
                }
            };
            if c != mine || c != mon || s != last {
                viol(
                    "visibility/final-value-mismatch",
                    &format!("{{\"lock\":{l},\"final_count\":{c},\"exclusive_sections_by_threads\":{mine},\"by_monitor\":{mon},\"final_stamp\":{s},\"last_writer_stamp\":{last},\"run\":{ctx}}}"),
                );
            }
        }
    }
    if !panicked {
        owner_view(sh, p.rw, p.nlocks, ctx);
    }
    // ---- schedule signature -------------------------------------------------------------------------
    let mut ent: Vec<&Rec> = out.recs.iter().filter(|r| r.ok).collect();
    ent.sort_by_key(|r| r.aft);
    let mut h = 0xcbf2_9ce4_8422_2325u64;
    for r in &ent {
        fnv(&mut h, (u64::from(r.t) << 16) | (u64::from(r.l) << 8) | u64::from(r.a.code()));
    }
    for (i, t) in out.ts.iter().enumerate() {
        fnv(&mut h, (i as u64) << 56 | t.waits << 40 | t.slept << 28 | t.spurious << 16 | t.wake_calls << 8 | t.woken);
        out.parked += t.slept;
    }
    for f in out.recs.iter().filter(|r| !r.ok) {
        fnv(&mut h, 0xF000 | (u64::from(f.t) << 16) | u64::from(f.a.code()));
    }
    out.sig = h;
    out
}

#[derive(Default)]
struct Agg {
    ts: TStats,
    ws: WStats,
    park_execs: u64,
    failed_try_execs: u64,
    unexplained_refusals: u64,
    not_judged_weak: u64,
}
impl Agg {
    fn add_ts(&mut self, t: &TStats) {
        let a = &mut self.ts;
        a.waits += t.waits;
        a.slept += t.slept;
        a.eagain += t.eagain;
        a.other_ret += t.other_ret;
        a.spurious += t.spurious;
        a.wake_calls += t.wake_calls;
        a.woken += t.woken;
        a.ho_writer += t.ho_writer;
        a.ho_nowriter += t.ho_nowriter;
        a.ho_fallback += t.ho_fallback;
        a.ho_readers += t.ho_readers;
        a.shared_reads += t.shared_reads;
        for i in 0..NPT {
            a.pts[i] += t.pts[i];
        }
    }
    fn add_ws(&mut self, w: &WStats) {
        let a = &mut self.ws;
        for l in 0..MAXL {
            a.acq_excl[l] += w.acq_excl[l];
            a.acq_shared[l] += w.acq_shared[l];
        }
        a.try_ok += w.try_ok;
        a.try_fail += w.try_fail;
        a.panicked_calls += w.panicked_calls;
        a.fmt_ops += w.fmt_ops;
        a.online_unjustified += w.online_unjustified;
        a.ops += w.ops;
    }
    /// one line, parsed by the python driver ("@@AGG k=v k=v ...": cheap to produce under Miri)
    fn emit(&self, rw: bool, execs: u64, nontrivial: u64) {
        let t = &self.ts;
        let w = &self.ws;
        let mut kv: Vec<(&str, u64)> = vec![
            ("program_executions", execs),
            ("program_executions_nontrivial", nontrivial),
            ("executions_with_a_real_park", self.park_execs),
            ("executions_with_a_failed_try", self.failed_try_execs),
            ("futex_wait_calls", t.waits),
            ("futex_waits_slept_and_woken", t.slept),
            ("futex_waits_eagain", t.eagain),
            ("futex_waits_other_return", t.other_ret),
            ("futex_spurious_injected", t.spurious),
            ("futex_wake_calls", t.wake_calls),
            ("futex_threads_woken", t.woken),
            ("acquisitions_exclusive", w.acq_excl.iter().sum()),
            ("acquisitions_shared", w.acq_shared.iter().sum()),
            ("try_success", w.try_ok),
            ("try_failure", w.try_fail),
            ("calls_that_panicked_in_repo_code", w.panicked_calls),
            ("formatting_operations", w.fmt_ops),
            ("try_lock_failures_not_judged_concurrent_release_weak_memory", self.not_judged_weak),
            ("rw_refusals_without_overlapping_interval_not_judged", self.unexplained_refusals + if rw { w.online_unjustified } else { 0 }),
            ("ops", w.ops),
        ];
        if rw {
            kv.extend_from_slice(&[
                ("rw_handoff_writer_woken", t.ho_writer),
                ("rw_handoff_no_writer_found", t.ho_nowriter),
                ("rw_handoff_fell_back_to_readers", t.ho_fallback),
                ("rw_handoff_readers_only", t.ho_readers),
                ("rw_reader_entries_with_other_reader_inside", t.shared_reads),
            ]);
        }
        let mut s = String::with_capacity(1024);
        s.push_str("@@AGG");
        for (k, v) in kv {
            s.push(' ');
            s.push_str(k);
            s.push('=');
            push_u64(&mut s, v);
        }
        for (i, v) in t.pts.iter().enumerate() {
            if *v > 0 {
                s.push_str(" point_");
                push_u64(&mut s, if i >= 10 { i as u64 + 190 } else { i as u64 + 100 });
                s.push('=');
                push_u64(&mut s, *v);
            }
        }
        println!("{s}");
    }
}

fn push_u64(s: &mut String, mut v: u64) {
    let mut buf = [0u8; 20];
    let mut i = 20;
    loop {
        i -= 1;
        buf[i] = b'0' + (v % 10) as u8;
        v /= 10;
        if v == 0 {
            break;
        }
    }
    s.push_str(std::str::from_utf8(&buf[i..]).unwrap_or("0"));
}

/// description of a run, rendered only when somebody needs it (formatting is slow under Miri)
struct Ctx<'a> {
    p: &'a Prog,
    env: &'a str,
    gen_seed: u64,
    spin: u32,
    spur: u32,
    pty: u32,
    rep: u64,
    delays: &'a str,
}
impl std::fmt::Display for Ctx<'_> {
    fn fmt(&self, f: &mut std::fmt::Formatter<'_>) -> std::fmt::Result {
        write!(
            f,
            "{{\"lock\":\"{}\",\"env\":\"{}\",\"program\":{},\"gen_seed\":{},\"threads\":{},\"locks\":{},\"spin\":{},\"spurious_pct\":{},\"point_yield_pct\":{},\"rep\":{},\"delays\":{}}}",
            if self.p.rw { "rwlock" } else { "mutex" },
            self.env,
            self.p.pid,
            self.gen_seed,
            self.p.json(),
            self.p.nlocks,
            self.spin,
            self.spur,
            self.pty,
            self.rep,
            vh::js(self.delays)
        )
    }
}

// ------------------------------------------------------------------------------------------------
// reader-count boundary (RwLock): the lock word is preset as if almost the maximum number of read
// guards had been forgotten (safe code can get there with mem::forget, 2^30 calls), then real
// try_read / read / try_write / guard drops run on it. The position of the word and the write-locked
// encoding are found by observation, never assumed; a failed observation is inconclusive.
// ------------------------------------------------------------------------------------------------
static EXPECT_LIMIT_PANIC: AtomicU32 = AtomicU32::new(0);
static LIMIT_PANICS_SEEN: AtomicU32 = AtomicU32::new(0);
const LIMIT_PANIC_MSG: &str = "too many active read locks";

struct RlWords<'a> {
    w: Vec<&'a AtomicU32>,
}
impl RlWords<'_> {
    fn snap(&self) -> Vec<u32> {
        self.w.iter().map(|a| a.load(Relaxed)).collect()
    }
}

/// find the state word of `lock` and the write-locked encoding by watching real guards
fn rl_probe<'a>(lock: &'a RwLock<u32>, words: &RlWords<'a>) -> Result<(usize, u32), String> {
    let s0 = words.snap();
    let Some(g) = lock.try_read() else { return Err("try_read on a fresh lock refused".into()) };
    let s1 = words.snap();
    drop(g);
    let s2 = words.snap();
    let ch: Vec<usize> = (0..s0.len()).filter(|&i| s0[i] != s1[i]).collect();
    if ch.len() != 1 || s0[ch[0]] != 0 || s1[ch[0]] != 1 || s2 != s0 {
        return Err(format!("one read guard did not change exactly one word 0 -> 1 -> 0: {s0:?} {s1:?} {s2:?}"));
    }
    let idx = ch[0];
    let Some(g) = lock.try_write() else { return Err("try_write on a free lock refused".into()) };
    let s3 = words.snap();
    drop(g);
    let s4 = words.snap();
    let ch: Vec<usize> = (0..s0.len()).filter(|&i| s0[i] != s3[i]).collect();
    if ch != [idx] || s4 != s0 {
        return Err(format!("one write guard did not change only the state word: {s0:?} {s3:?} {s4:?}"));
    }
    let wl = s3[idx];
    if wl < 7 || wl & wl.wrapping_add(1) != 0 {
        return Err(format!("write-locked encoding {wl:#x} is not a low-bit mask"));
    }
    // a preset count must behave like forgotten guards
    words.w[idx].store(5, Relaxed);
    let g = lock.try_read();
    let s5 = words.w[idx].load(Relaxed);
    drop(g);
    let s6 = words.w[idx].load(Relaxed);
    words.w[idx].store(0, Relaxed);
    if s5 != 6 || s6 != 5 {
        return Err(format!("preset word 5 did not count 5 -> 6 -> 5: {s5} {s6}"));
    }
    Ok((idx, wl))
}

/// returns (sequences run, judged operations) or Err(inconclusive text)
fn reader_limit_battery(env: &str) -> Result<(u64, u64), String> {
    if IS_MIRI {
        return Ok((0, 0));
    }
    let lock: RwLock<u32> = RwLock::new(0x5EED_C0DE);
    let n = std::mem::size_of::<RwLock<u32>>() / 4;
    if std::mem::align_of::<RwLock<u32>>() < 4 || n == 0 || n > 8 {
        return Err("unexpected RwLock<u32> layout".into());
    }
    let base = (&raw const lock).cast::<AtomicU32>();
    // SAFETY (harness): every word of RwLock<u32> is an AtomicU32 or an UnsafeCell<u32>, 4-aligned
    let words = RlWords { w: (0..n).map(|i| unsafe { &*base.add(i) }).collect() };
    let (idx, wl) = rl_probe(&lock, &words)?;
    let word = words.w[idx];
    let max_readers = wl - 1; // the largest count that does not read as write-locked
    let (mut seqs, mut judged) = (0u64, 0u64);
    const LEN: u32 = 5;
    for back in 0..3u32 {
        let preset = max_readers - back;
        'seq: for code in 0..4u32.pow(LEN) {
            seqs += 1;
            word.store(preset, Relaxed);
            let mut real: Vec<RwLockReadGuard<'_, u32>> = Vec::new();
            let mut trace = String::new();
            let mut bad: Option<(&str, String)> = None;
            for step in 0..LEN {
                let op = (code >> (2 * step)) & 3;
                let w0 = word.load(Relaxed);
                if w0 != preset + real.len() as u32 {
                    bad = Some(("count-drift", format!("word {w0:#x} before step {step}, expected preset + {} real guards", real.len())));
                    break;
                }
                match op {
                    0 | 1 => {
                        let name = if op == 0 { "try_read" } else { "read" };
                        let _ = write!(trace, "{name} ");
                        let got = if op == 0 {
                            lock.try_read()
                        } else {
                            if (w0 & wl) == wl {
                                continue; // a blocking read on a word that reads as write-locked would park: not called
                            }
                            EXPECT_LIMIT_PANIC.store(u32::from(w0 == max_readers), Relaxed);
                            let r = std::panic::catch_unwind(std::panic::AssertUnwindSafe(|| lock.read()));
                            EXPECT_LIMIT_PANIC.store(0, Relaxed);
                            r.ok() // a panic below the limit was recorded by the hook and is reported by report_panics
                        };
                        judged += 1;
                        let w1 = word.load(Relaxed);
                        if let Some(g) = got {
                            if (w1 & wl) == wl || w0 >= max_readers {
                                std::mem::forget(g);
                                bad = Some(("admitted-beyond-max", format!(
                                    "{name} returned a guard with {w0} readers already held (limit {max_readers}); the word is now {w1:#x} and a lock held only by readers reads as write-locked ({wl:#x})")));
                                break;
                            }
                            if w1 != w0 + 1 {
                                std::mem::forget(g);
                                bad = Some(("count-drift", format!("{name} succeeded but the word went {w0:#x} -> {w1:#x}")));
                                break;
                            }
                            if *g != 0x5EED_C0DE {
                                bad = Some(("payload", "read guard shows a different payload".into()));
                            }
                            real.push(g);
                        } else if w1 != w0 {
                            bad = Some(("count-drift", format!("{name} refused / panicked but the word went {w0:#x} -> {w1:#x}")));
                            break;
                        }
                    }
                    2 => {
                        trace.push_str("try_write ");
                        judged += 1;
                        if let Some(g) = lock.try_write() {
                            std::mem::forget(g);
                            bad = Some(("try-write-admitted-with-readers", format!("try_write succeeded with {w0} readers holding the lock")));
                            break;
                        }
                        if word.load(Relaxed) != w0 {
                            bad = Some(("count-drift", format!("refused try_write changed the word {w0:#x} -> {:#x}", word.load(Relaxed))));
                            break;
                        }
                    }
                    _ => {
                        trace.push_str("drop ");
                        if let Some(g) = real.pop() {
                            drop(g);
                            judged += 1;
                            let w1 = word.load(Relaxed);
                            if w1 != w0 - 1 {
                                bad = Some(("count-drift", format!("dropping a read guard moved the word {w0:#x} -> {w1:#x}")));
                                break;
                            }
                        }
                    }
                }
            }
            if bad.is_none() {
                let k = real.len();
                while let Some(g) = real.pop() {
                    drop(g);
                }
                let w = word.load(Relaxed);
                if w != preset {
                    bad = Some(("count-not-restored", format!("after dropping all {k} real guards the word is {w:#x}, preset was {preset:#x}")));
                }
            }
            if let Some((what, why)) = bad {
                for g in real.drain(..) {
                    std::mem::forget(g);
                }
                word.store(0, Relaxed);
                viol(
                    &format!("reader-limit/{what}"),
                    &format!(
                        "{{\"env\":\"{env}\",\"readers_preset_as_forgotten_guards\":{preset},\"reader_limit\":{max_readers},\"write_locked_encoding\":{wl},\"operations\":{},\"why\":{}}}",
                        vh::js(trace.trim()),
                        vh::js(&why)
                    ),
                );
                if what == "admitted-beyond-max" || what == "try-write-admitted-with-readers" {
                    break 'seq; // same defect on every further sequence of this preset
                }
            }
        }
    }
    word.store(0, Relaxed);
    if lock.try_write().is_none() {
        return Err("lock not free after the word was reset".into());
    }
    vh::count("reader_limit_overflow_panics_at_limit", u64::from(LIMIT_PANICS_SEEN.swap(0, Relaxed)));
    Ok((seqs, judged))
}

fn run_battery(rw: bool, kname: &str, env: &str) {
    reset_monitor();
    tl_reset(MAXW, 0xBA77);
    SLOTS[MAXW].tid.store(gettid(), Relaxed);
    SLOTS[MAXW].op.store(10, Relaxed);
    SLOTS[MAXW].live.store(1, Relaxed);
    if let Ok(mut c) = WD_CTX.lock() {
        *c = format!("{{\"lock\":\"{kname}\",\"env\":\"{env}\",\"phase\":\"single-threaded surface battery\"}}");
    }
    let r = std::panic::catch_unwind(|| surface_battery(rw));
    if rw {
        SLOTS[MAXW].op.store(3, Relaxed);
        match std::panic::catch_unwind(|| reader_limit_battery(env)) {
            Ok(Ok((seqs, judged))) => {
                vh::count("reader_limit_sequences", seqs);
                vh::count("reader_limit_operations_judged", judged);
                if seqs > 0 {
                    vh::distinct(&format!("{kname}/{env}/reader-limit"));
                }
            }
            Ok(Err(e)) => vh::inconclusive(&format!("reader-count boundary scenario not judged: {e}")),
            Err(_) => vh::inconclusive("reader-count boundary scenario did not complete (panic)"),
        }
    }
    SLOTS[MAXW].live.store(0, Relaxed);
    SLOTS[MAXW].op.store(0, Relaxed);
    let ctx = format!("{{\"phase\":\"surface battery\",\"env\":\"{env}\"}}");
    report_panics(&ctx);
    match r {
        Ok(n) => {
            vh::count("surface_battery_cases", n);
            vh::distinct(&format!("{kname}/{env}/surface-battery"));
        }
        Err(_) => vh::inconclusive("surface battery did not complete (panic)"),
    }
}

fn env_name() -> String {
    if IS_MIRI {
        return "miri".into();
    }
    std::env::var("HL_ENV").unwrap_or_else(|_| if cfg!(debug_assertions) { "debug".into() } else { "release".into() })
}

fn bucket(n: u64) -> &'static str {
    match n {
        0 => "0",
        1 => "1",
        2..=3 => "2-3",
        4..=9 => "4-9",
        _ => "10+",
    }
}

fn prog_mode(a: &vh::Args) {
    let rw = a.rest.first().is_some_and(|s| s == "rw");
    let first: u64 = a.rest.get(1).and_then(|s| s.parse().ok()).unwrap_or(0);
    let nprog: u64 = a.rest.get(2).and_then(|s| s.parse().ok()).unwrap_or(1);
    let spin: u32 = a.rest.get(3).and_then(|s| s.parse().ok()).unwrap_or(100);
    let spur: u32 = a.rest.get(4).and_then(|s| s.parse().ok()).unwrap_or(0);
    let pty: u32 = a.rest.get(5).and_then(|s| s.parse().ok()).unwrap_or(0);
    KIND_RW.store(u32::from(rw), Relaxed);
    SPUR_PCT.store(spur, Relaxed);
    PT_YIELD_PCT.store(pty, Relaxed);
    rv::set_spin_limit(if spin >= 100 { u32::MAX } else { spin });
    rv::set_futex_callback(Some(futex_cb));
    rv::set_point_callback(Some(point_cb));
    let env = env_name();
    let kname = if rw { "rwlock" } else { "mutex" };
    if !IS_MIRI || first == 0 {
        run_battery(rw, kname, &env);
    }
    let mut agg = Agg::default();
    let mut sigs: HashSet<u64> = HashSet::new();
    let mut execs = 0u64;
    let mut nontrivial = 0u64;
    let mut dr = Rng::new(a.seed ^ 0xDE1A);
    let mut nsamples = 0;
    for pid in first..first + nprog {
        let p = Prog::gen(rw, a.seed, pid);
        for rep in 0..a.budget.max(1) {
            let delays = arm_delays(&mut dr, rw);
            let run_seed = a.seed ^ pid.wrapping_mul(0x1000_0000_01B3) ^ rep.wrapping_mul(0x9E37_79B9);
            let ctx = Ctx { p: &p, env: &env, gen_seed: a.seed, spin, spur, pty, rep, delays: &delays };
            let out = run_exec(&p, run_seed, &ctx);
            execs += 1;
            for t in &out.ts {
                agg.add_ts(t);
            }
            for w in &out.ws {
                agg.add_ws(w);
            }
            let nt = out.parked > 0 || out.try_fail > 0;
            if nt {
                nontrivial += 1;
            }
            if out.parked > 0 {
                agg.park_execs += 1;
            }
            if out.try_fail > 0 {
                agg.failed_try_execs += 1;
            }
            agg.unexplained_refusals += out.unexplained_refusals;
            agg.not_judged_weak += out.not_judged_weak;
            if out.unexplained_refusals > 0 && agg.unexplained_refusals == out.unexplained_refusals {
                println!("@@NOTE rwlock refusal without an overlapping outer interval (allowed: try_* decide on a Relaxed load) in {ctx}");
            }
            let spur_n: u64 = out.ts.iter().map(|t| t.spurious).sum();
            if nt {
                if IS_MIRI {
                    vh::distinct(&format!("{kname}/miri/p{}-{}/{:012x}", a.seed % 1000, pid, out.sig & 0xffff_ffff_ffff));
                } else {
                    let ho: u64 = out.ts.iter().map(|t| u64::from(t.ho_writer > 0) | u64::from(t.ho_fallback > 0) << 1 | u64::from(t.ho_readers > 0) << 2).fold(0, |a, b| a | b);
                    vh::distinct(&format!(
                        "{kname}/{env}/t{}l{}/parks{}/failedtry{}/spur{}/handoff{}",
                        p.scripts.len(),
                        p.nlocks,
                        bucket(out.parked),
                        bucket(out.try_fail),
                        bucket(spur_n),
                        ho
                    ));
                }
            }
            let new_sig = sigs.insert(out.sig);
            if new_sig && nt && nsamples < if IS_MIRI { 1 } else { 2 } {
                nsamples += 1;
                vh::sample(
                    &format!(
                        "{{\"run\":{ctx},\"schedule_signature\":\"{:016x}\",\"parks\":{},\"failed_tries\":{},\"spurious_returns\":{spur_n}}}",
                        out.sig, out.parked, out.try_fail
                    ),
                    if IS_MIRI { 1 } else { 2 },
                );
            }
        }
    }
    vh::eval(execs);
    if !IS_MIRI {
        vh::count(&format!("native_schedule_signatures_{env}"), sigs.len() as u64);
    }
    agg.emit(rw, execs, nontrivial);
}

// ------------------------------------------------------------------------------------------------
// stress mode (native / TSan)
// ------------------------------------------------------------------------------------------------
fn stress_mode(a: &vh::Args) {
    let rw = a.rest.first().is_some_and(|s| s == "rw");
    let nthreads: usize = a.rest.get(1).and_then(|s| s.parse().ok()).unwrap_or(4).clamp(2, MAXW);
    let nlocks: usize = a.rest.get(2).and_then(|s| s.parse().ok()).unwrap_or(1).clamp(1, MAXL);
    let spin: u32 = a.rest.get(3).and_then(|s| s.parse().ok()).unwrap_or(100);
    let spur: u32 = a.rest.get(4).and_then(|s| s.parse().ok()).unwrap_or(0);
    let millis = a.budget;
    KIND_RW.store(u32::from(rw), Relaxed);
    SPUR_PCT.store(spur, Relaxed);
    rv::set_spin_limit(if spin >= 100 { u32::MAX } else { spin });
    rv::set_futex_callback(Some(futex_cb));
    rv::set_point_callback(Some(point_cb));
    let env = env_name();
    let kname = if rw { "rwlock" } else { "mutex" };
    run_battery(rw, kname, &env);
    let mut dr = Rng::new(a.seed ^ 0x57E5);
    let delays = arm_delays(&mut dr, rw);
    reset_monitor();
    let ctx = format!(
        "{{\"lock\":\"{kname}\",\"env\":\"{env}\",\"mode\":\"stress\",\"seed\":{},\"threads\":{nthreads},\"locks\":{nlocks},\"spin\":{spin},\"spurious_pct\":{spur},\"millis\":{millis},\"delays\":{}}}",
        a.seed,
        vh::js(&delays)
    );
    if let Ok(mut c) = WD_CTX.lock() {
        *c = ctx.clone();
    }
    let sh = Arc::new(Shared::new());
    for s in SLOTS.iter().take(nthreads) {
        s.live.store(1, Relaxed);
    }
    let mut hs = Vec::new();
    for t in 0..nthreads {
        let sh = sh.clone();
        let seed = a.seed ^ (t as u64 + 1).wrapping_mul(0xA24B_AED4_963E_E407);
        hs.push(std::thread::spawn(move || {
            tl_reset(t, seed);
            SLOTS[t].tid.store(gettid(), Relaxed);
            let r = std::panic::catch_unwind(std::panic::AssertUnwindSafe(|| {
                let mut w = Worker {
                    t,
                    sh: &sh,
                    rng: Rng::new(seed),
                    ctr: 0,
                    logging: false,
                    online_verdict: true,
                    log: Vec::new(),
                    ws: WStats::default(),
                };
                let mut gr = Rng::new(seed ^ 0x0b5);
                ARRIVED.fetch_add(1, Relaxed);
                while STOP.load(Relaxed) == 0 {
                    let mut op = gen_op(&mut gr, rw, nlocks);
                    if gr.below(4) != 0 {
                        op.h = 0;
                    }
                    w.run_op(op, op.a, op.l as usize, u32::from(op.h), op.inner, None);
                    if VIOLS.load(Relaxed) > 8 {
                        break;
                    }
                }
                w.ws
            }));
            SLOTS[t].live.store(0, Relaxed);
            OPS_DONE.fetch_add(1, Relaxed);
            PROGRESS.fetch_add(1, Relaxed);
            (r.ok(), tl_take())
        }));
    }
    std::thread::sleep(std::time::Duration::from_millis(millis));
    STOP.store(1, Relaxed);
    let mut agg = Agg::default();
    let mut excl = [0u64; MAXL];
    let mut parked = 0;
    let mut tf = 0;
    let mut spur_n = 0;
    let mut ho = 0u64;
    for h in hs {
        if let Ok((ws, ts)) = h.join() {
            if let Some(ws) = ws {
                for l in 0..MAXL {
                    excl[l] += ws.acq_excl[l];
                }
                tf += ws.try_fail;
                agg.add_ws(&ws);
            }
            parked += ts.slept;
            spur_n += ts.spurious;
            ho |= u64::from(ts.ho_writer > 0) | u64::from(ts.ho_fallback > 0) << 1 | u64::from(ts.ho_readers > 0) << 2;
            agg.add_ts(&ts);
        }
    }
    let mut panicked = report_panics(&ctx);
    if !panicked {
        match quiescence(&sh, nthreads, rw, nlocks, a.seed, false, true) {
            Some((_, ws, ts)) => {
                for l in 0..MAXL {
                    excl[l] += ws.acq_excl[l];
                }
                agg.add_ws(&ws);
                agg.add_ts(&ts);
            }
            None => panicked = true,
        }
        panicked |= report_panics(&ctx);
    }
    if !panicked {
        for l in 0..nlocks {
            let mon = rd64(&MON_CNT[l]);
            let last = rd64(&MON_LAST[l]);
            let got = if rw { sh.rw[l].try_read().map(|g| payload_read(&g)) } else { sh.m[l].try_lock().map(|g| payload_read(&g)) };
            if let Some((s, c, ok)) = got {
                if c != excl[l] || c != mon || s != last || !ok {
                    viol(
                        "visibility/final-value-mismatch",
                        &format!("{{\"lock\":{l},\"final_count\":{c},\"exclusive_sections_by_threads\":{},\"by_monitor\":{mon},\"final_stamp\":{s},\"last_writer_stamp\":{last},\"run\":{ctx}}}", excl[l]),
                    );
                }
            }
        }
    }
    if !panicked {
        owner_view(sh, rw, nlocks, &ctx);
    }
    vh::eval(1);
    vh::count("stress_runs", 1);
    agg.emit(rw, 0, 0);
    if parked > 0 || tf > 0 {
        vh::distinct(&format!(
            "{kname}/{env}/stress/t{nthreads}l{nlocks}/spin{spin}/spur{}/parks{}/handoff{ho}",
            bucket(spur_n),
            if parked > 0 { "+" } else { "0" }
        ));
        vh::sample(&format!("{{\"run\":{ctx},\"parks\":{parked},\"failed_tries\":{tf},\"exclusive_sections\":{}}}", excl[0] + excl[1]), 1);
    }
}

fn main() {
    let a = vh::args();
    install_panic_hook();
    #[cfg(not(miri))]
    {
        if std::env::var("HL_NO_LIVELOCK").is_ok() {
            LIVELOCK_OFF.store(1, Relaxed);
        }
        std::thread::spawn(watchdog);
    }
    match a.mode.as_str() {
        "noop" => {}
        "prog" => prog_mode(&a),
        "stress" => stress_mode(&a),
        m => vh::inconclusive(&format!("unknown mode {m}")),
    }
    use std::io::Write;
    let _ = std::io::stdout().flush();
}
