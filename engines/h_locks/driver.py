"""Driver shared by checks/c01.py (Mutex) and checks/c02.py (RwLock).

One harness binary (engines/h_locks) runs generated lock programs and stress loops against the real
tiny-std locks with the verif-hooks feature:
  * under Miri (real blocking through the futex hook's `syscall` shim): race detector on the plain
    payload, weak-memory emulation, scheduler deadlock report, plus the harness' own monitors
  * natively in debug and release with seeded delay points, with a logical deadlock watchdog
  * natively under ThreadSanitizer
The harness speaks the '@@' protocol; this module adds the classification of Miri / TSan reports.
"""
import concurrent.futures
import json
import os
import re
import signal
import subprocess
import time

import vlib

CRATE = "engines/h_locks"
BIN = "h_locks"

# (preemption rate, weak-CAS failure rate) sets; spin limits; spurious futex return rates (percent)
PREEMPT = ["0.01", "0.1", "0.5"]
CASFAIL = ["0", "0.8"]
SPINS = [0, 2, 100]
SPURS = [0, 5, 25]
PTYIELD = [0, 10, 30]


def _kname(kind):
    return "mutex" if kind == "m" else "rwlock"


def setup_builds(with_tsan=True):
    dbg = vlib.cargo_build(CRATE, "h_locks-debug", bins=[BIN])
    rel = vlib.cargo_build(CRATE, "h_locks-release", bins=[BIN], release=True)
    tsan = None
    if with_tsan:
        tsan = vlib.cargo_build(CRATE, "h_locks-tsan", bins=[BIN], release=True, toolchain="nightly",
                                rustflags=["-Zsanitizer=thread"], target=vlib.TARGET, build_std=True)
    return dbg, rel, tsan


def warm_miri():
    argv, env, cwd = vlib.miri_cmd(CRATE, "h_locks-miri", BIN, ["noop"], [])
    r = run_bounded(argv, env=env, cwd=cwd, timeout=1800)
    if r["rc"] != 0:
        raise vlib.BuildError("miri build of h_locks failed:\n" + r["err"][-3000:])


# ---------------------------------------------------------------------------------------------------
# bounded execution: every job has a hard wall-clock bound and the whole batch a deadline
# ---------------------------------------------------------------------------------------------------
def run_bounded(argv, env=None, cwd=None, timeout=600):
    """Like vlib.run_one, but the job runs in its own process group and the whole group is killed when
    the bound is hit (cargo -> cargo-miri -> miri would otherwise survive and keep the pipes open)."""
    t0 = time.time()
    p = subprocess.Popen(argv, env=env, cwd=cwd, stdout=subprocess.PIPE, stderr=subprocess.PIPE,
                         stdin=subprocess.DEVNULL, start_new_session=True)
    timed_out = False
    try:
        out, err = p.communicate(timeout=timeout)
    except subprocess.TimeoutExpired:
        timed_out = True
        try:
            os.killpg(p.pid, signal.SIGKILL)
        except OSError:
            pass
        try:
            out, err = p.communicate(timeout=20)
        except subprocess.TimeoutExpired:
            p.kill()
            out, err = b"", b""
    return dict(rc=None if timed_out else p.returncode, out=(out or b"").decode("utf-8", "replace"),
                err=(err or b"").decode("utf-8", "replace"), timed_out=timed_out, wall=time.time() - t0, argv=argv)


def run_batch(runs, deadline_s, nproc=None):
    """Run the jobs (dicts of run_bounded kwargs) on nproc workers. No job runs past the batch deadline:
    its bound is cut to what is left, and jobs that could not start in time are not run at all."""
    t_end = time.time() + deadline_s

    def one(r):
        left = t_end - time.time()
        if left < 5:
            return dict(rc=None, out="", err="", timed_out=True, wall=0.0, argv=r["argv"], not_run=True)
        r = dict(r)
        r["timeout"] = min(r.get("timeout", 600), left)
        return run_bounded(**r)

    with concurrent.futures.ThreadPoolExecutor(max_workers=nproc or vlib.NCPU) as ex:
        return list(ex.map(one, runs))


def setup():
    setup_builds()
    warm_miri()


# ---------------------------------------------------------------------------------------------------
# report classification
# ---------------------------------------------------------------------------------------------------
_FRAME = re.compile(r"(?:-->|\bat) ([^\s:]+):(\d+)")


def _is_repo(path):
    if "/h_locks/" in path or "/engines/vh/" in path:
        return False
    return path.startswith(vlib.REPO + "/") or "/tiny-std/src/" in path or "/rusl/src/" in path


def _is_harness(path):
    # Miri prints the harness' own files relative to the crate directory
    return path.startswith("src/") or "/h_locks/" in path or "/engines/vh/" in path


def miri_error_blocks(err):
    """split Miri's stderr into its `error:` blocks"""
    blocks, cur = [], None
    for line in err.splitlines():
        if line.startswith("error"):
            if cur:
                blocks.append("\n".join(cur))
            cur = [line]
        elif cur is not None:
            cur.append(line)
    if cur:
        blocks.append("\n".join(cur))
    return blocks


def classify_miri(ck, pid, res, label, seed=None):
    """Return True when the run ended normally. Miri `error:` blocks are classified by what was hit and
    where: a data race on the protected payload / inside repo code, a deadlock with a thread parked in
    the repo's futex wait, or UB whose first non-std frame is repo code are violations; anything whose
    first non-std frame is the harness is a harness problem (inconclusive)."""
    nv = len(ck.violations)
    ck.consume(res["out"], context=label)
    if res["timed_out"]:
        ck.note_inconclusive("%s: watchdog: %s (no verdict)" % (
            label, "not run, the batch deadline was reached" if res.get("not_run") else "wall-clock bound hit after %.0fs" % res["wall"]))
        return False
    if res["rc"] == 0:
        return True
    if res["rc"] == 3 and len(ck.violations) > nv:
        return False  # the harness' own monitor reported and ended the (stuck) program
    err = res["err"]
    blocks = [b for b in miri_error_blocks(err) if not b.startswith("error: aborting") and "could not compile" not in b]
    if "could not compile" in err or "error[E" in err:
        ck.note_inconclusive("%s: build failed: %s" % (label, err[-800:]))
        return False
    handled = False
    dead = [b for b in blocks if "deadlock" in b.splitlines()[0]]
    if dead:
        handled = True
        alltext = "\n".join(dead)
        frames = _FRAME.findall(alltext)
        if any(_is_repo(p) for p, _ in frames):
            where = sorted({"%s:%s" % (os.path.basename(p), l) for p, l in frames if _is_repo(p) and "/sync/" in p})
            ck.violation("%s/miri/deadlock" % pid, {"context": label, "failing_miri_seed": seed,
                                                    "threads_parked_at": where, "stderr": alltext[-6000:]})
        else:
            ck.note_inconclusive("%s: Miri deadlock without a repo frame (harness problem): %s" % (label, alltext[-3000:]))
    for b in blocks:
        head = b.splitlines()[0]
        if "deadlock" in head:
            continue
        frames = _FRAME.findall(b)
        nonstd = [(p, l) for p, l in frames if _is_repo(p) or _is_harness(p)]
        first_repo = bool(nonstd) and _is_repo(nonstd[0][0])
        payload = "payload_write" in b or "payload_read" in b
        if "Data race detected" in head:
            handled = True
            if first_repo or payload or any(_is_repo(p) for p, _ in nonstd):
                ck.violation("%s/miri/data-race" % pid, {"context": label, "failing_miri_seed": seed,
                                                         "report": head[:400], "stderr": b[-5000:]})
            else:
                ck.note_inconclusive("%s: data race outside payload/repo code (harness problem): %s" % (label, b[-800:]))
        elif "Undefined Behavior" in head:
            handled = True
            if first_repo:
                ck.violation("%s/miri/ub/%s" % (pid, os.path.basename(nonstd[0][0])),
                             {"context": label, "failing_miri_seed": seed, "report": head[:400], "stderr": b[-5000:]})
            else:
                ck.note_inconclusive("%s: UB reported in harness/std frames (harness problem): %s" % (label, b[-800:]))
        elif "unsupported operation" in head or "memory leaked" in head or "abnormal termination" in head \
                or "panicked" in head or "process didn't exit successfully" in head:
            handled = True
            ck.note_inconclusive("%s: %s" % (label, b[-800:]))
    if not handled:
        ck.note_inconclusive("%s: exit status %s; stderr tail: %s" % (label, res["rc"], err[-800:]))
    return False


def classify_tsan(ck, pid, res, label):
    ck.consume(res["out"], context=label)
    if res["timed_out"]:
        ck.note_inconclusive("%s: watchdog: %s (no verdict)" % (
            label, "not run, the batch deadline was reached" if res.get("not_run") else "wall-clock bound hit after %.0fs" % res["wall"]))
        return False
    err = res["err"]
    reports = re.split(r"(?m)^==================\n", err)
    # a thread leak is reported when the in-process watchdog ends the process with parked threads
    only_leaks = bool(reports) and all("ThreadSanitizer: thread leak" in r for r in reports if "WARNING: ThreadSanitizer" in r)
    reports = [r for r in reports if "WARNING: ThreadSanitizer" in r and "ThreadSanitizer: thread leak" not in r]
    for r in reports[:3]:
        head = [l for l in r.splitlines() if "WARNING: ThreadSanitizer" in l][0]
        in_payload = "payload_write" in r or "payload_read" in r or "tiny_std" in r or "tiny-std/src" in r or "rusl" in r
        if "data race" in head and in_payload:
            ck.violation("%s/tsan/data-race" % pid, {"context": label, "report": head.strip(), "stderr": r[-5000:]})
        else:
            ck.note_inconclusive("%s: ThreadSanitizer report not on the payload / repo code: %s" % (label, r[:1500]))
    if reports:
        return False
    if res["rc"] not in (0, 3, 4) and not (res["rc"] == 66 and only_leaks):
        ck.note_inconclusive("%s: exit status %s; stderr tail: %s" % (label, res["rc"], err[-600:]))
        return False
    return res["rc"] == 0


def consume_native(ck, res, label):
    # exit status 3 = an in-process oracle reported and ended the stuck process (already a @@VIOL line),
    # 4 = the in-process stall watchdog ended it (already an @@INCONCLUSIVE line)
    if res["timed_out"]:
        ck.consume(res["out"], context=label)
        ck.note_inconclusive("%s: watchdog: %s (no verdict)" % (
            label, "not run, the batch deadline was reached" if res.get("not_run") else "wall-clock bound hit after %.0fs" % res["wall"]))
        return False
    return ck.consume_result(res, label, expect_rc=(0, 3, 4)) and res["rc"] == 0


_AGG = re.compile(r"^@@AGG (.*)$", re.M)


def merge_agg(ck, out, prefix=""):
    for m in _AGG.finditer(out):
        for kv in m.group(1).split():
            k, _, v = kv.partition("=")
            try:
                n = int(v)
            except ValueError:
                continue
            if n:
                ck.count(prefix + k, n)


# ---------------------------------------------------------------------------------------------------
# job construction
# ---------------------------------------------------------------------------------------------------
def miri_job(kind, gen_seed, first, nprog, spin, spur, pty, preempt, casfail, seed, timeout):
    # one interpreter seed per process: Miri's stderr then holds exactly one execution
    flags = ["-Zmiri-preemption-rate=%s" % preempt, "-Zmiri-compare-exchange-weak-failure-rate=%s" % casfail,
             "-Zmiri-seed=%d" % seed]
    argv, env, cwd = vlib.miri_cmd(CRATE, "h_locks-miri", BIN,
                                   ["prog", gen_seed, 1, kind, first, nprog, spin, spur, pty], flags)
    label = "miri %s programs %d..%d gen_seed=%d spin=%d spurious=%d%% point-yield=%d%% preemption=%s weak-cas-fail=%s miri-seed=%d" % (
        _kname(kind), first, first + nprog - 1, gen_seed, spin, spur, pty, preempt, casfail, seed)
    return dict(kind="miri", label=label, run=dict(argv=argv, env=env, cwd=cwd, timeout=timeout), miri_seed=seed,
                flagset="preempt%s/cas%s/spin%d/spur%d/pty%d" % (preempt, casfail, spin, spur, pty))


def native_job(envname, bindir, mode, kind, seed, budget, rest, timeout, tsan=False):
    argv = [os.path.join(bindir, BIN), mode, str(seed), str(budget), kind] + [str(x) for x in rest]
    env = vlib.base_env({"HL_ENV": envname, "HL_STALL_MS": "45000" if tsan else "30000"})
    if tsan:
        env["TSAN_OPTIONS"] = "halt_on_error=1 exitcode=66 second_deadlock_stack=1 report_signal_unsafe=0"
    label = "%s %s %s seed=%d budget=%d args=%s" % (envname, mode, _kname(kind), seed, budget, " ".join(str(x) for x in rest))
    return dict(kind="tsan" if tsan else "native", label=label, envname=envname, mode=mode,
                run=dict(argv=argv, env=env, timeout=timeout))


def plan(ck, kind):
    quick = ck.tier == "quick"
    r = vlib.rng(ck.seed, ck.pid, "plan")
    gen_seed = ck.seed % 1_000_000_007
    jobs = []
    dbg, rel, tsan = setup_builds()
    warm_miri()
    # ---- native stress (needs real parallelism: scheduled first) ---------------------------------
    ms = 2500 if quick else 20000
    for i, nt in enumerate([2, 3, 4, 8, 16] if quick else [2, 2, 3, 4, 4, 6, 8, 8, 12, 16, 16, 24, 32]):
        for envname, d in (("debug", dbg), ("release", rel)):
            jobs.append(native_job(envname, d, "stress", kind, r.getrandbits(40), ms,
                                   [nt, 1 + (i % 2), r.choice(SPINS), r.choice(SPURS)], timeout=ms / 1000 + (60 if quick else 300)))
    # ---- ThreadSanitizer -------------------------------------------------------------------------
    for i in range(1 if quick else 10):
        tms = 5000 if quick else 30000
        jobs.append(native_job("tsan", tsan, "stress", kind, r.getrandbits(40), tms,
                               [r.choice([4, 8, 16]), 1 + (i % 2), r.choice(SPINS), r.choice([0, 5])],
                               timeout=tms / 1000 + (90 if quick else 400), tsan=True))
    jobs.append(native_job("tsan", tsan, "prog", kind, gen_seed, 3 if quick else 20,
                           [0, 60 if quick else 400, r.choice(SPINS), r.choice(SPURS), 0], timeout=150 if quick else 2400, tsan=True))
    # ---- native program executions ---------------------------------------------------------------
    nshard = 3 if quick else 12
    per = 60 if quick else 400
    reps = 12 if quick else 60
    for i in range(nshard):
        for envname, d in (("debug", dbg), ("release", rel)):
            jobs.append(native_job(envname, d, "prog", kind, gen_seed, reps,
                                   [i * per, per, SPINS[i % 3], SPURS[(i // 3 + i) % 3], 0], timeout=120 if quick else 2400))
    # ---- Miri ------------------------------------------------------------------------------------
    # every (program group, interpreter seed) pair gets its own flag combination, rotating through all values
    ngroups, gsize, nseeds = (5, 8, 12) if quick else (48, 8, 18)
    for g in range(ngroups):
        for sd in range(nseeds):
            k = g * nseeds + sd + ck.seed % 7
            preempt = PREEMPT[k % 3]
            cas = CASFAIL[(k // 3) % 2]
            spin = SPINS[(k // 2 + k // 6) % 3]
            spur = SPURS[(k // 4 + g) % 3]
            pty = PTYIELD[(k // 5 + sd) % 3]
            jobs.append(miri_job(kind, gen_seed, g * gsize, gsize, spin, spur, pty, preempt, cas,
                                 sd + 100 * (ck.seed % 1000), timeout=180 if quick else 900))
    return jobs


def execute(ck, kind, jobs):
    pid = ck.pid
    # hard bounds: quick ends at most ~7 min after the builds even if every single job hangs
    results = run_batch([j["run"] for j in jobs], deadline_s=400 if ck.tier == "quick" else 3 * 3600, nproc=vlib.NCPU)
    per_env = {}
    flagsets = set()
    for j, res in zip(jobs, results):
        before = len(ck.violations)
        if j["kind"] == "miri":
            ok = classify_miri(ck, pid, res, j["label"], j.get("miri_seed"))
            env = "miri"
            flagsets.add(j["flagset"])
        elif j["kind"] == "tsan":
            ok = classify_tsan(ck, pid, res, j["label"])
            env = "tsan"
        else:
            ok = consume_native(ck, res, j["label"])
            env = j["envname"]
        merge_agg(ck, res["out"])
        merge_agg(ck, res["out"], prefix=env + "/")
        e = per_env.setdefault(env, {"jobs": 0, "jobs_completed": 0, "wall_s": 0.0})
        e["jobs"] += 1
        e["jobs_completed"] += 1 if ok else 0
        e["wall_s"] = round(e["wall_s"] + res["wall"], 1)
        for sig, det in ck.violations[before:]:
            if isinstance(det, dict):
                det.setdefault("job", {"argv": j["run"]["argv"], "MIRIFLAGS": (j["run"].get("env") or {}).get("MIRIFLAGS"),
                                       "cwd": j["run"].get("cwd"), "kind": j["kind"], "label": j["label"]})
    return per_env, flagsets


RULE = ("programs are generated from the seed (2-4 threads, 2-6 operations each over 1-2 locks, blocking / try / "
        "nested try while holding) and executed (a) under Miri across interpreter seeds x preemption rates x weak-CAS "
        "failure rates x spin limits x injected spurious futex returns, (b) natively in debug and release with seeded "
        "delays at the hook points, (c) as 2-32 thread stress loops natively and under ThreadSanitizer; one evaluation "
        "= one program execution or one stress run judged by the monitors (occupancy, stamp chain on a plain payload, "
        "try justification by outer intervals, futex-hook attribution, deadlock = all parked, livelock = one call passing "
        "hook points without end while nothing else moves and the books show the lock free); the programs also format "
        "locks and guards (String, fixed-size sink running full at a chosen byte, failing / panicking payload Debug) and "
        "each process first runs a single-threaded battery over Default/get_mut/into_inner and every formatting entry "
        "point at every byte position. non-trivial = at least "
        "one futex wait that really slept or one failed try_*; distinct = (program, schedule signature) under Miri, "
        "where the signature hashes the order of critical-section entries, per-thread park/wake/spurious counts and "
        "failed tries; coarse (env, threads, locks, parks, failed tries, spurious, hand-off paths) classes natively")


def replay(ck, kind, path):
    with open(path) as f:
        rp = json.load(f)
    job = (rp.get("detail") or {}).get("job")
    if not job:
        ck.note_inconclusive("replay file has no job description")
        return RULE
    env = vlib.base_env()
    if job.get("MIRIFLAGS"):
        env["MIRIFLAGS"] = job["MIRIFLAGS"]
        env["CARGO_TARGET_DIR"] = os.path.join(vlib.BUILD, "h_locks-miri" + vlib._repo_tag())
    else:
        setup_builds()
        env["TSAN_OPTIONS"] = "halt_on_error=1 exitcode=66"
    n = 1 if job["kind"] == "miri" else 8
    for i in range(n):
        res = run_bounded(job["argv"], env=env, cwd=job.get("cwd"), timeout=600)
        label = "replay %d of %s" % (i, job["label"])
        if job["kind"] == "miri":
            classify_miri(ck, ck.pid, res, label)
        elif job["kind"] == "tsan":
            classify_tsan(ck, ck.pid, res, label)
        else:
            consume_native(ck, res, label)
        merge_agg(ck, res["out"])
        if ck.violations:
            break
    ck.note_distinct("replay/" + job["kind"])
    ck.note_distinct("replay/label/" + job["label"][:60])
    if not ck.samples:
        ck.sample({"replayed": job["label"]})
    return RULE


def run(ck, kind, replay_path=None):
    if replay_path:
        return replay(ck, kind, replay_path)
    jobs = plan(ck, kind)
    per_env, flagsets = execute(ck, kind, jobs)
    c = ck.counters
    ck.extra["executions_by_environment"] = per_env
    ck.extra["miri_flag_sets_used"] = sorted(flagsets)
    ck.extra["program_executions_that_parked"] = c.get("executions_with_a_real_park", 0)
    ck.extra["program_executions_with_failed_try"] = c.get("executions_with_a_failed_try", 0)
    ck.extra["futex"] = {k: c.get(k, 0) for k in ("futex_wait_calls", "futex_waits_slept_and_woken", "futex_waits_eagain",
                                                   "futex_spurious_injected", "futex_wake_calls", "futex_threads_woken")}
    if kind == "rw":
        ck.extra["rwlock_handoff_paths"] = {
            "writer_woken": c.get("rw_handoff_writer_woken", 0),
            "both_waiting_no_writer_found_fell_back_to_readers": c.get("rw_handoff_fell_back_to_readers", 0),
            "readers_only": c.get("rw_handoff_readers_only", 0),
            "wake_writer_found_nobody": c.get("rw_handoff_no_writer_found", 0),
            "under_miri": {"writer_woken": c.get("miri/rw_handoff_writer_woken", 0),
                           "fell_back_to_readers": c.get("miri/rw_handoff_fell_back_to_readers", 0),
                           "readers_only": c.get("miri/rw_handoff_readers_only", 0)},
        }
        for k in ("rw_handoff_writer_woken", "rw_handoff_fell_back_to_readers", "rw_handoff_readers_only"):
            if not c.get(k):
                ck.note_inconclusive("hand-off path never taken in this run: %s" % k)
    if not c.get("futex_waits_slept_and_woken") and not ck.violations:
        ck.note_inconclusive("no futex wait ever slept: the blocking paths were not exercised")
    ck.exhaustive = False
    ck.assume("interleavings are sampled (Miri's randomised scheduler and the OS scheduler with seeded delay points), not enumerated")
    ck.assume("Miri wakes futex waiters FIFO; which waiter a wake picks varies only natively")
    ck.assume("monitor stamps come from Relaxed read-modify-write operations on one counter; on x86-64 and in Miri their order is the execution order")
    ck.assume("weak-memory outcomes only as far as Miri's store buffers and x86-64 hardware produce them")
    ck.assume("native deadlock verdict = every live thread between the futex hook's WAIT_ENTER and WAIT_EXIT, shown inside futex(2) by /proc/self/task/<tid>/syscall, "
              "no guard held, no hook event for 250 ms; wall-clock timeouts are inconclusive")
    ck.assume("livelock verdict is a count, not a clock: one blocking call passed 300000 (Miri: 3000) hook points / futex-wait entries without sleeping while "
              "no operation of any thread completed, the monitor's occupancy of that lock is zero and every other thread is finished, parked or inside a blocking call")
    if kind == "m":
        ck.assume("under Miri (weak-memory emulation on) a failed try_lock without an overlapping interval is judged only when every earlier release of that "
                  "mutex provably happens-before the call (released by the caller, caller acquired the mutex since, or all threads joined); otherwise it is "
                  "counted as try_lock_failures_not_judged_concurrent_release_weak_memory (this run: %d). Natively the stamp rule is judged as is"
                  % c.get("try_lock_failures_not_judged_concurrent_release_weak_memory", 0))
    ck.assume("every job has a hard wall-clock bound (process group killed) and the batch a deadline; hitting either is reported as 'watchdog' and is never a verdict")
    if kind == "rw":
        ck.extra["reader_limit_boundary"] = {k: c.get(k, 0) for k in ("reader_limit_sequences", "reader_limit_operations_judged",
                                                                      "reader_limit_overflow_panics_at_limit")}
        ck.assume("reader-count boundary (native only): the state word is located and the write-locked encoding read off by watching one real read and one "
                  "real write guard (any mismatch = inconclusive), then preset to limit-2..limit readers as if their guards had been forgotten; every "
                  "try_read/read/try_write/drop sequence of length 5 runs on it. A refusal (None) or the 'too many active read locks' panic of read() with "
                  "exactly limit readers held is accepted; a guard handed out there, a try_write that succeeds, or a count that is not back at the preset is not")
        ck.assume("a refused try_read is accepted when a writer's outer interval (call..drop) or a blocking read() call of another thread overlaps it (a waiting bit may have been set)")
    return RULE
