//! unix_lit! probe: a valid literal, must build
use rusl::unix_lit;
fn main() {
    let u = unix_lit!("/etc/passwd");
    println!("{:?}", u.as_slice());
}
