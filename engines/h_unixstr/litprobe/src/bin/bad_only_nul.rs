//! unix_lit! probe: a lone NUL (two NULs after the macro adds its own), must NOT build
use rusl::unix_lit;
fn main() {
    let u = unix_lit!("\0");
    println!("{:?}", u.as_slice());
}
