//! unix_lit! probe: literal already terminated: would be terminated twice, must NOT build
use rusl::unix_lit;
fn main() {
    let u = unix_lit!("/etc/passwd\0");
    println!("{:?}", u.as_slice());
}
