//! unix_lit! probe: NUL inside the literal, must NOT build
use rusl::unix_lit;
fn main() {
    let u = unix_lit!("/tmp/dir\0/secret.txt");
    println!("{:?}", u.as_slice());
}
